"""C06 — SQL rendered through SQLAlchemy means the same as the parsed statement."""
import collections, itertools, json, os, re, sqlite3, time, warnings
from tools.harness import common
from tools.harness import sqlexec as X

ID = 'C06'
TARGETS = ['MindsVerif.Props.C06']
THEOREMS = ['MindsVerif.Props.C06.' + n for n in (
    'C06', 'C06_norm', 'C06_nested', 'C06_dml', 'C06_ddl_column', 'C06_ddl_contents', 'C06_not_rewrite_all', 'C06_join_spelling',
    'C06_order_key', 'C06_window_key', 'C06_alias', 'C06_grouping', 'C06_regroup_harmless', 'C06_witness_8',
    'C06_partial', 'C06_partial_norm', 'C06_nested_partial', 'C06_dml_partial', 'C06_join_kind', 'C06_not_rewrite',
    'C06_regress_1', 'C06_regress_2', 'C06_regress_3', 'C06_regress_4', 'C06_regress_5', 'C06_regress_5b', 'C06_regress_6',
    'C06_regress_7', 'C06_regress_9',
    'phi6_compatible', 'phi6_ids', 'phi6_flip', 'phi6_join_spellings', 'phi6_join_probe',
    'C06_setops', 'C06_setops_unsupported', 'C06_setops_query', 'C06_setops_left_chain', 'C06_witness_except_assoc',
    'C06_witness_10', 'C06_witness_flat_prec', 'C06_setops_accepted', 'C06_setops_accepts', 'C06_witness_rejected', 'C06_from_fresh', 'C06_witness_9', 'C06_witness_9b', 'C06_witness_9c',
    'C06_history_restoring', 'C06_history', 'C06_history_guarded', 'C06_witness_12')]
ASSUME = [
    'Render.saNorm / saRender / saStmt / saSpec / SaParen.saParens are hand models of SqlalchemyRender.get_string (+ the SQLAlchemy '
    'compiler) on the typed fragment; tie = the correspondence streams of this run (render-expr, render-optree, render-join, '
    'render-join-chain, render-order-key, render-window-key, render-label, render-ddl-column, render-select-skeleton) plus the '
    'kernel-checked pins phi6_* on data regenerated from the live objects (_PRECEDENCE, the __invert__ flip table read through the '
    'renderer, the renderer\'s own operand groupings, join_clause alternatives, probed join keywords)',
    'Render.eval / evalSelect / evalGSelect / evalFrom / exec / keyLe are a specification reading of SQL (3VL, joins, GROUP BY, ORDER BY '
    'NULLS, LIMIT/OFFSET, DML); compared with sqlite3 on every run (streams semantics-eval, semantics-query); set operations, '
    'sub-query slots and the CREATE TABLE column model (admits / insertAll) are not in those two streams',
    'EngineSqlite.table is a reading of the sqlite documentation (trusted); validated in every run by executing the fully '
    'parenthesised original and the rendered text of every generated expression / operator tree in sqlite3',
    'the meaning theorems are unconditional on the typed fragment; outside it -- correlated sub-queries, CTEs, window functions, '
    'functions, string values, INSERT…SELECT, DROP TABLE, the mysql / postgres renderings -- only the execution probe applies '
    '(sqlite3 as reference engine)',
    'RenderSetOps.render is a hand model of prepare_union + SQLAlchemy\'s compound-select compilation per dialect (text structure: '
    'operand SELECTs, `SELECT * FROM (…) AS anon_k`, parentheses, bare juxtaposition); tie = stream render-setops: the text structure of '
    'the real renderer\'s output must pass the checker RenderSetOps.accepted (sound by C06_setops_accepted; it admits every mixture of '
    'delimiting a compound left operand or, for sqlite, continuing the chain) on every tree shape with <= 3 operations over the sqlite '
    'operators + random deeper trees with all six, x 3 dialects.  RenderSetOps.readLeft (sqlite reads a '
    'bare compound chain left to right at one level) and setRows are compared with sqlite3 on every run (stream semantics-setops: the '
    'derived-table form of every tree, the rendered sqlite text, and random bare / partly delimited chains); readPrec (MySQL / PostgreSQL: '
    'INTERSECT binds tighter, SQL standard) and accepts / hasOp for those two dialects are trusted readings of their documentation',
    'RenderScope.display / displayAll transcribe SQLAlchemy 2.0 auto-correlation (_get_display_froms, _setup_select_stack: by object '
    'identity against the from-objects of the immediately enclosing select); allocFresh (to_table builds a new FromClause per reference) is '
    'pinned on the real renderer by stream render-from-scope (object identity of repeated to_table calls; FROM lists of every nesting '
    'level of the rendered text, re-read with the library\'s parser).  What a dropped FROM entry does to the rows (correlation) is not '
    'in a theorem: execution probe',
    'RenderHistory.actual says that SqlalchemyRender keeps nothing between calls (its answer is a function of the current statement: '
    'C06_history); tie = stream render-history: ONE renderer object per dialect answers sessions of statements that include statements '
    'whose rendering fails part-way (unsupported constructs inside derived tables / sub-queries / CTEs / set-operation operands / DML, '
    'through the silent fail-back and through with_failback=False); after every call its instance attributes are compared with those '
    'before (hypothesis Restoring of C06_history_restoring) and every answer with the answer of a new object (its conclusion); a '
    'differing answer is executed against the original (row order compared under a top-level ORDER BY)',
    'okE (driver flag mod) only delimits where the printed text of the model is compared with SQLAlchemy\'s: NOT directly over a unary '
    'minus of a Boolean-typed operand prints an extra pair of parentheses',
]

JOIN_RE = re.compile(r'\b((?:LEFT|RIGHT|FULL)\s+OUTER\s+JOIN|(?:LEFT|RIGHT|FULL|INNER|CROSS|OUTER)\s+JOIN|JOIN)\b', re.I)
CANON_JOIN = {'LEFT OUTER JOIN': 'LEFT OUTER JOIN', 'RIGHT JOIN': 'RIGHT OUTER JOIN', 'RIGHT OUTER JOIN': 'RIGHT OUTER JOIN',
              'FULL OUTER JOIN': 'FULL OUTER JOIN'}


def renderer(dialect):
    from mindsdb_sql.render.sqlalchemy_render import SqlalchemyRender
    return SqlalchemyRender(dialect)


def norm_ws(text):
    """collapse white space outside quoted literals / identifiers (inside them it is data)"""
    out, q, prev_space = [], None, False
    for ch in text:
        if q:
            out.append(ch)
            if ch == q:
                q = None
            continue
        if ch in ("'", '"', '`'):
            q = ch
            out.append(ch)
            prev_space = False
        elif ch.isspace():
            if not prev_space:
                out.append(' ')
            prev_space = True
        else:
            out.append(ch)
            prev_space = False
    return ''.join(out).strip()


def render(R, ast):
    """rendered text or ('!', exception class)"""
    try:
        with warnings.catch_warnings():
            warnings.simplefilter('ignore')
            return norm_ws(R.get_string(ast, with_failback=False))
    except Exception as e:
        return ('!', type(e).__name__ + ': ' + str(e)[:100])


# ------------------------------------------------------------------------------------ expression trees
CMP_KEYS = ('=', '!=', '<', '<=', '>', '>=', 'is', 'is not')
AR_KEYS = ('+', '-', '*', '%', '/')
G_BIN = ('+', '-', '*', '/', '%', '=', '!=', '<', '>=', 'is', 'is not', '||', 'and', 'or')


def gen_expr(rng, depth, boolean=True):
    if depth <= 0 or rng.random() < 0.15:
        r = rng.random()
        if r < 0.7:
            return ('c', rng.randrange(3))
        if r < 0.92:
            return ('i', rng.randrange(3))
        return ('null',)
    r = rng.random()
    if r < 0.22:
        return ('cmp', rng.choice(CMP_KEYS), gen_expr(rng, depth - 1), gen_expr(rng, depth - 1))
    if r < 0.46:
        return ('ar', rng.choice(AR_KEYS), gen_expr(rng, depth - 1), gen_expr(rng, depth - 1))
    if r < 0.60:
        return ('and', gen_expr(rng, depth - 1), gen_expr(rng, depth - 1))
    if r < 0.72:
        return ('or', gen_expr(rng, depth - 1), gen_expr(rng, depth - 1))
    if r < 0.84:
        return ('not', gen_expr(rng, depth - 1))
    if r < 0.88:
        return ('neg', gen_expr(rng, depth - 1))
    if r < 0.91:
        return ('ite', gen_expr(rng, depth - 1), gen_expr(rng, depth - 1), gen_expr(rng, depth - 1))
    if r < 0.93:
        return ('cast', gen_expr(rng, depth - 1))
    if r < 0.96:
        return ('in', gen_expr(rng, depth - 1)) + tuple(gen_expr(rng, max(depth - 2, 0)) for _ in range(rng.randint(1, 3)))
    return ('btw', gen_expr(rng, depth - 1), gen_expr(rng, depth - 1), gen_expr(rng, depth - 1))


def all_exprs(depth):
    """every tree of exactly the given operator depth over one representative per operator class"""
    atoms = [('c', 0)]
    if depth == 0:
        yield from atoms
        return
    subs = list(all_exprs(depth - 1))
    lower = [e for d in range(depth - 1) for e in all_exprs(d)]
    for k in (('cmp', '='), ('cmp', 'is'), ('cmp', '<'), ('ar', '+'), ('ar', '-'), ('ar', '*'), ('and',), ('or',)):
        for l in subs + lower:
            for r in subs + lower:
                if l in subs or r in subs:
                    yield k + (l, r)
    for e in subs:
        yield ('not', e)
        yield ('neg', e)
    for x in subs + lower:
        for y in subs + lower:
            if x in subs or y in subs:
                yield ('btw', x, y, ('c', 0))
                yield ('btw', ('c', 0), x, y)


def expr_line(t):
    k = t[0]
    if k == 'null':
        return 'null'
    if k in ('c', 'i'):
        return '%s %d' % (k, t[1])
    if k in ('cmp', 'ar'):
        return '%s %s %s %s' % (k, t[1].replace(' ', '_'), expr_line(t[2]), expr_line(t[3]))
    if k == 'in':
        return 'in %d %s' % (len(t) - 2, ' '.join(expr_line(x) for x in t[1:]))
    return k + ' ' + ' '.join(expr_line(x) for x in t[1:])


def expr_ast(t):
    from mindsdb_sql.parser import ast as A
    k = t[0]
    if k == 'null':
        return A.NullConstant()
    if k == 'c':
        return A.Identifier(parts=['c%d' % t[1]])
    if k == 'i':
        return A.Constant(t[1])
    if k in ('cmp', 'ar'):
        return A.BinaryOperation(op=t[1], args=[expr_ast(t[2]), expr_ast(t[3])])
    if k in ('and', 'or'):
        return A.BinaryOperation(op=k, args=[expr_ast(t[1]), expr_ast(t[2])])
    if k == 'not':
        return A.UnaryOperation(op='not', args=[expr_ast(t[1])])
    if k == 'neg':
        return A.UnaryOperation(op='-', args=[expr_ast(t[1])])
    if k == 'ite':
        return A.Case(rules=[[expr_ast(t[1]), expr_ast(t[2])]], default=expr_ast(t[3]))
    if k == 'cast':
        return A.TypeCast(type_name='INT', arg=expr_ast(t[1]))
    if k == 'in':
        return A.BinaryOperation(op='in', args=[expr_ast(t[1]), A.Tuple([expr_ast(x) for x in t[2:]])])
    return A.BetweenOperation(args=[expr_ast(x) for x in t[1:]])


def expr_sql(t):
    """fully parenthesised text: the meaning of the tree, independent of any precedence table"""
    k = t[0]
    if k == 'null':
        return 'NULL'
    if k == 'c':
        return 'c%d' % t[1]
    if k == 'i':
        return str(t[1])
    if k in ('cmp', 'ar'):
        return '(%s %s %s)' % (expr_sql(t[2]), t[1].upper(), expr_sql(t[3]))
    if k in ('and', 'or'):
        return '(%s %s %s)' % (expr_sql(t[1]), k.upper(), expr_sql(t[2]))
    if k == 'not':
        return '(NOT %s)' % expr_sql(t[1])
    if k == 'neg':
        return '(- %s)' % expr_sql(t[1])
    if k == 'ite':
        return '(CASE WHEN %s THEN %s ELSE %s END)' % tuple(expr_sql(x) for x in t[1:])
    if k == 'cast':
        return 'CAST(%s AS INTEGER)' % expr_sql(t[1])
    if k == 'in':
        return '(%s IN (%s))' % (expr_sql(t[1]), ', '.join(expr_sql(x) for x in t[2:]))
    return '(%s BETWEEN %s AND %s)' % tuple(expr_sql(x) for x in t[1:])


def norm_lits(s):
    s = re.sub(r'\bNULL\b', 'c999', s)
    return re.sub(r'(?<![\w.])(\d+)\b', lambda m: 'c%d' % (1000 + int(m.group(1))), s)


ENVS = [(None, 0, 1), (1, 2, 0), (2, None, 1), (0, 0, 2), (1, 1, None), (2, 1, 0), (None, None, None), (0, 2, 2)]


def value_of(conn, sql, env):
    try:
        return ('ok', conn.execute('SELECT %s FROM (SELECT ? AS c0, ? AS c1, ? AS c2)' % sql, env).fetchone()[0])
    except sqlite3.Error as e:
        return ('err', str(e)[:80])


# ------------------------------------------------------------------------------------ the specification semantics vs sqlite3
NAMES4 = ('t.a', 't.b', 'u.a', 'u.c')
SEM_JOINS = ('JOIN', 'INNER JOIN', 'CROSS JOIN', 'LEFT JOIN', 'LEFT OUTER JOIN', 'RIGHT JOIN', 'RIGHT OUTER JOIN', 'FULL JOIN',
             'FULL OUTER JOIN')


def named_sql(t, names):
    """expr_sql with the columns spelled by `names`"""
    return re.sub(r'\bc(\d)\b', lambda m: names[int(m.group(1))], expr_sql(t))


def gen_expr_cols(rng, depth, ncols):
    t = gen_expr(rng, depth)

    def remap(x):
        if not isinstance(x, tuple):
            return x
        if x[0] == 'c':
            return ('c', rng.randrange(ncols))
        return tuple(remap(y) for y in x)
    return remap(t)


def rows_txt(rows):
    return '/'.join(','.join('n' if v is None else str(v) for v in r) for r in rows) if rows else '-'


def parse_rows(s):
    return [] if s.strip() == '-' else [tuple(None if v == 'n' else int(v) for v in r.split(',')) for r in s.strip().split('/')]


def sem_cases(rng, n):
    """(driver line, sqlite statements, how to compare) for the query-level semantics: joins of all kinds with ON,
    WHERE, DISTINCT, ORDER BY direction / NULLS, LIMIT / OFFSET; GROUP BY + aggregates + HAVING; INSERT / UPDATE / DELETE"""
    vals = (None, 0, 1, 2)
    out = []

    def table(k):
        return [tuple(rng.choice(vals) for _ in range(2)) for _ in range(rng.randint(0, k))]
    for i in range(n):
        t, u = table(3), table(3)
        setup = [('INSERT INTO t VALUES (?, ?)', t), ('INSERT INTO u VALUES (?, ?)', u)]
        db = '%s %s' % (rows_txt(t), rows_txt(u))
        kind = i % 3
        if kind == 0:
            shape = rng.choice(('t', 'i', 'j', 'j', 'j'))
            if shape == 't':
                names, fr_l, fr_s = NAMES4[:2], 't', 't'
            elif shape == 'i':
                names, fr_l, fr_s = NAMES4, 'i', 't, u'
            else:
                jt = rng.choice(SEM_JOINS)
                names = NAMES4
                if rng.random() < 0.2:
                    fr_l, fr_s = 'j %s -' % jt.replace(' ', '_'), 't %s u' % jt
                else:
                    on = gen_expr_cols(rng, rng.randint(1, 2), 4)
                    fr_l, fr_s = 'j %s %s' % (jt.replace(' ', '_'), expr_line(on)), 't %s u ON %s' % (jt, named_sql(on, names))
            w = gen_expr_cols(rng, rng.randint(1, 2), len(names)) if rng.random() < 0.5 else None
            distinct = rng.random() < 0.25
            keys = []
            for c in rng.sample(range(len(names)), rng.randint(0, 2)):
                keys.append((c, rng.choice(('', 'ASC', 'DESC')), rng.choice(('', 'NULLS FIRST', 'NULLS LAST'))))
            keys += [(c, '', '') for c in range(len(names)) if c not in [k[0] for k in keys]]     # total order
            lim = rng.randint(0, 3) if rng.random() < 0.3 else None
            off = rng.randint(0, 2) if lim is not None and rng.random() < 0.5 else None
            line = 'QS %s ; %s ; %s ; %d ; %s ; %s ; %s' % (
                db, fr_l, expr_line(w) if w else '-', distinct,
                ' '.join('%d:%s:%s' % (c, d or '-', n_.replace(' ', '_') or '-') for c, d, n_ in keys),
                lim if lim is not None else '-', off if off is not None else '-')
            sql = 'SELECT %s%s FROM %s%s ORDER BY %s%s%s' % (
                'DISTINCT ' if distinct else '', ', '.join(names), fr_s, ' WHERE ' + named_sql(w, names) if w else '',
                ', '.join('%s%s%s' % (names[c], ' ' + d if d else '', ' ' + n_ if n_ else '') for c, d, n_ in keys),
                ' LIMIT %d' % lim if lim is not None else '', ' OFFSET %d' % off if off is not None else '')
            out.append((line, setup, sql, 'list'))
        elif kind == 1:
            names = NAMES4[:2]
            w = gen_expr_cols(rng, 1, 2) if rng.random() < 0.4 else None
            grp = rng.choice(([], [0], [1], [0, 1], [0]))
            tg = ['p:%d' % c for c in grp]
            tsql = [names[c] for c in grp]
            for _ in range(rng.randint(1, 2)):
                if rng.random() < 0.3:
                    tg.append('cs')
                    tsql.append('count(*)')
                else:
                    f, c = rng.choice(('count', 'sum', 'min', 'max')), rng.randrange(2)
                    tg.append('a:%s:%d' % (f, c))
                    tsql.append('%s(%s)' % (f, names[c]))
            hv_l, hv_s = '-', ''
            if rng.random() < 0.5:
                f, c = rng.choice(('cs', 'count', 'sum', 'min', 'max')), rng.randrange(2)
                cmp_, k = rng.choice(('=', '!=', '<', '<=', '>', '>=')), rng.randint(0, 3)
                hv_l = '%s %s %d' % ('cs' if f == 'cs' else 'a:%s:%d' % (f, c), cmp_, k)
                hv_s = ' HAVING %s %s %d' % ('count(*)' if f == 'cs' else '%s(%s)' % (f, names[c]), cmp_, k)
            line = 'QG %s ; %s ; %s ; %s ; %s' % (db, expr_line(w) if w else '-', ' '.join(map(str, grp)) or '-', ' '.join(tg), hv_l)
            sql = 'SELECT %s FROM t%s%s%s' % (', '.join(tsql), ' WHERE ' + named_sql(w, names) if w else '',
                                             ' GROUP BY ' + ', '.join(names[c] for c in grp) if grp else '', hv_s)
            out.append((line, setup, sql, 'bag'))
        else:
            names = ('a', 'b')
            k = rng.choice(('ins', 'upd', 'del'))
            if k == 'ins':
                cols = rng.choice(([0, 1], [1, 0], [0], [1]))
                rows = [tuple(rng.choice(vals) for _ in cols) for _ in range(rng.randint(1, 2))]
                line = 'QX %s ; ins %s %s' % (db, ','.join(map(str, cols)), rows_txt(rows))
                sql = 'INSERT INTO t (%s) VALUES %s' % (', '.join(names[c] for c in cols), ', '.join(
                    '(%s)' % ', '.join('NULL' if v is None else str(v) for v in r) for r in rows))
            else:
                w = gen_expr_cols(rng, rng.randint(1, 2), 2) if rng.random() < 0.8 else None
                if k == 'upd':
                    c, e = rng.randrange(2), gen_expr_cols(rng, rng.randint(0, 2), 2)
                    line = 'QX %s ; upd %d %s ; %s' % (db, c, expr_line(e), expr_line(w) if w else '-')
                    sql = 'UPDATE t SET %s = %s%s' % (names[c], named_sql(e, names), ' WHERE ' + named_sql(w, names) if w else '')
                else:
                    line = 'QX %s ; del ; %s' % (db, expr_line(w) if w else '-')
                    sql = 'DELETE FROM t%s' % (' WHERE ' + named_sql(w, names) if w else '')
            out.append((line, setup, sql, 'table'))
    return out


def sem_run(setup, sql, how):
    c = sqlite3.connect(':memory:')
    try:
        c.execute('CREATE TABLE t (a INTEGER, b INTEGER)')
        c.execute('CREATE TABLE u (a INTEGER, c INTEGER)')
        for stmt, rows in setup:
            c.executemany(stmt, rows)
        if how == 'table':
            c.execute(sql)
            return [tuple(r) for r in c.execute('SELECT a, b FROM t')]
        return [tuple(r) for r in c.execute(sql)]
    except sqlite3.Error as e:
        return 'err: %s' % str(e)[:80]
    finally:
        c.close()


# ------------------------------------------------------------------------------------ known-finding machinery
def ast_nodes(node):
    """all AST nodes below `node` (generic walk over attributes)"""
    from mindsdb_sql.parser.ast.base import ASTNode
    seen, stack = [], [node]
    while stack:
        n = stack.pop()
        if isinstance(n, ASTNode):
            seen.append(n)
            stack.extend(vars(n).values())
        elif isinstance(n, (list, tuple)):
            stack.extend(n)
        elif isinstance(n, dict):
            stack.extend(n.values())
    return seen


def unparen(n):
    return n


def repair_joins(spelling):
    canon = CANON_JOIN[spelling]

    def fix(orig, rend, ast):
        o = [re.sub(r'\s+', ' ', m.group(1).upper()) for m in JOIN_RE.finditer(orig)]
        rm = list(re.finditer(r'\b(LEFT OUTER JOIN|FULL OUTER JOIN|INNER JOIN|JOIN)\b', rend))
        if len(o) != len(rm) or spelling not in o:
            return None
        out, last = [], 0
        for sp, m in zip(o, rm):
            out.append(rend[last:m.start()])
            out.append(canon if sp == spelling and m.group(1) in ('JOIN', 'INNER JOIN') else m.group(1))
            last = m.end()
        out.append(rend[last:])
        new = ''.join(out)
        return new if new != rend else None
    return fix


def repair_truediv(orig, rend, ast):
    new = rend.replace(' + 0.0)', ')')
    return new if new != rend else None


def repair_string_plus(orig, rend, ast):
    if '||' in orig or ' || ' not in rend:
        return None
    return rend.replace(' || ', ' + ')


def repair_double_minus(orig, rend, ast):
    if '--' in orig or '--' not in rend:
        return None
    return rend.replace('--', '- -')


def repair_asboolean(orig, rend, ast):
    a = repair_case_asboolean(orig, rend, ast)
    b = repair_paren_asboolean(orig, a or rend, ast)
    return b or a


def not_over_arith(ast):
    """0: no NOT stands over arithmetic; 1: some does; 2: a NOT over NOT over arithmetic exists"""
    from mindsdb_sql.parser import ast as A

    def arith(n):
        return (isinstance(n, A.BinaryOperation) and n.op in ('+', '-', '*', '/', '%')) or \
            (isinstance(n, A.UnaryOperation) and n.op == '-') or isinstance(n, A.Case)
    best = 0
    for n in ast_nodes(ast):
        if isinstance(n, A.UnaryOperation) and str(n.op).lower() == 'not':
            x = n.args[0]
            if arith(x):
                best = max(best, 1)
            if isinstance(x, A.UnaryOperation) and str(x.op).lower() == 'not' and arith(x.args[0]):
                best = 2
    return best


def repair_case_asboolean(orig, rend, ast):
    """a CASE that SQLAlchemy types as Boolean is printed `CASE … END = 1` where a truth value is expected
    (operand of AND / OR, WHERE) and `CASE … END = 0` under NOT: ungrouped, and `= 1` is false for truthy values other
    than 1.  Wrap `CASE … END = 0` in parentheses and replace `CASE … END = 1` by `(CASE … END != 0)`
    (only where the original text has no such comparison)."""
    from mindsdb_sql.parser import ast as A
    if ast is not None and not any(isinstance(n, A.Case) for n in ast_nodes(ast)):
        return None
    if re.search(r'\bEND\s*\)*\s*=\s*[01]\b', orig):
        return None
    cur, changed = rend, False
    for _ in range(30):
        toks = [(m.start(), m.group(0).upper()) for m in re.finditer(r'\bCASE\b|\bEND\b', cur, re.I)]
        done = True
        for m in re.finditer(r'\bEND = ([01])\b', cur):
            depth, start = 0, None
            for pos, tk in reversed([t for t in toks if t[0] <= m.start()]):
                depth += 1 if tk == 'END' else -1
                if depth == 0:
                    start = pos
                    break
            if start is None:
                continue
            if start > 0 and cur[start - 1] == '(' and cur[m.end():m.end() + 1] == ')':
                continue                      # already grouped
            body = cur[start:m.start() + 3]
            cur = cur[:start] + ('(%s = 0)' % body if m.group(1) == '0' else '(%s != 0)' % body) + cur[m.end():]
            changed, done = True, False
            break
        if done:
            break
    return cur if changed else None


def repair_paren_asboolean(orig, rend, ast):
    """`NOT x` / `NOT NOT x` over Boolean-typed arithmetic is printed `(x) = 0` / `(x) = 1` by the sqlite compiler,
    without a grouping of its own: wrap every `( … ) = 0|1` in parentheses"""
    if ast is not None and not not_over_arith(ast):
        return None
    dbl = ast is None or not_over_arith(ast) == 2
    out, i, changed = [], 0, False
    s = rend
    for m in re.finditer(r'\) = [01]\b', s):
        close = m.start()
        depth, j = 0, close
        while j >= 0:
            if s[j] == ')':
                depth += 1
            elif s[j] == '(':
                depth -= 1
                if depth == 0:
                    break
            j -= 1
        if j < i or (j > 0 and (s[j - 1].isalnum() or s[j - 1] == '_')):
            continue
        if s[m.end() - 1] == '1' and dbl:
            out.append(s[i:j] + '(' + s[j:close + 1] + ' != 0)')      # NOT NOT x, printed `(x) = 1`
        else:
            out.append(s[i:j] + '(' + s[j:m.end()] + ')')
        i = m.end()
        changed = True
    out.append(s[i:])
    return ''.join(out) if changed else None


def repair_cast_label(orig, rend, ast):
    """SQLAlchemy labels `CAST(col AS T)` in a select list with the column's own name; give such labels another name
    (only labels the original text does not contain)"""
    out, i, changed = [], 0, False
    up = rend.upper()
    pos = up.find('CAST(')
    while pos >= 0:
        depth, j = 0, pos + 4
        while j < len(rend):
            if rend[j] == '(':
                depth += 1
            elif rend[j] == ')':
                depth -= 1
                if depth == 0:
                    break
            j += 1
        m = re.match(r' AS ("?)(\w+)\1', rend[j + 1:])
        if m and m.group(2) in ('a', 'b', 'c', 'p', 'q') and not re.search(r'\bAS\s+%s\b' % m.group(2), orig, re.I) and j + 1 >= i:
            out.append(rend[i:j + 1] + ' AS %s_cast' % m.group(2))
            i = j + 1 + m.end()
            changed = True
        pos = up.find('CAST(', max(j, pos + 1))
    out.append(rend[i:])
    return ''.join(out) if changed else None


def repair_not_is(orig, rend, ast, R=None):
    """NOT (a IS b) == a IS NOT b: re-render the equivalent statement"""
    from mindsdb_sql.parser import ast as A
    import copy
    ast2 = copy.deepcopy(ast)
    hit = False
    for n in ast_nodes(ast2):
        if isinstance(n, A.UnaryOperation) and str(n.op).lower() == 'not' and isinstance(n.args[0], A.BinaryOperation) \
                and str(n.args[0].op).lower() in ('is', 'is not'):
            inner = n.args[0]
            flipped = 'is not' if str(inner.op).lower() == 'is' else 'is'
            n.__class__ = A.BinaryOperation
            n.op = flipped
            n.args = inner.args
            hit = True
    if not hit:
        return None
    r = render(R, ast2)
    if isinstance(r, str):
        r = r.replace('`', '"')
    return r if isinstance(r, str) and r != rend else None


def repair_case_alias(orig, rend, ast):
    o = [m for m in re.finditer(r'\bEND\b(?:\s*\))?(?:\s+AS\s+(\w+))?', orig)]
    r = [m for m in re.finditer(r'\bEND\b(?:\s*\))?(?:\s+AS\s+(anon_\d+))?', rend)]
    if len(o) != len(r):
        return None
    new = rend
    for mo, mr in zip(o, r):
        if mo.group(1) and mr.group(1):
            new = re.sub(r'\b%s\b' % mr.group(1), mo.group(1), new)
    return new if new != rend else None


def sig_between_alias(f, ast):
    from mindsdb_sql.parser import ast as A
    return f['kind'] in ('alias-differs', 'rendered-text-fails') and \
        any(isinstance(n, (A.BetweenOperation, A.Exists, A.NotExists)) and n.alias is not None for n in ast_nodes(ast))


def sig_setop_nesting(f, ast):
    from mindsdb_sql.parser import ast as A
    S = (A.Union, A.Intersect, A.Except)
    return f['kind'] == 'rendered-text-fails' and 'near "("' in f.get('error', '') and \
        any(isinstance(n, S) and (isinstance(n.left, S) or isinstance(n.right, S)) for n in ast_nodes(ast))


def sig_between_bounds(f, ast):
    from mindsdb_sql.parser import ast as A
    loose = ('and', 'or', '=', '!=', '<>', '<', '<=', '>', '>=', 'is', 'is not', 'in', 'not in', 'like', 'not like')

    def is_loose(n):
        return (isinstance(n, A.BinaryOperation) and str(n.op).lower() in loose) or isinstance(n, A.BetweenOperation) or \
            (isinstance(n, A.UnaryOperation) and str(n.op).lower() == 'not')
    return f['kind'] in ('rows-differ', 'tables-differ', 'value-differs', 'rendered-text-fails') and \
        any(isinstance(n, A.BetweenOperation) and (is_loose(n.args[1]) or is_loose(n.args[2])) for n in ast_nodes(ast))


def sig_concat(f, ast):
    """`||` with an operand built with `*` (the only operand 75aca2f leaves bare)"""
    from mindsdb_sql.parser import ast as A
    return f['kind'] in ('rows-differ', 'tables-differ', 'value-differs') and \
        any(isinstance(n, A.BinaryOperation) and n.op == '||' and
            any(isinstance(a, A.BinaryOperation) and a.op == '*' for a in n.args) for n in ast_nodes(ast))


def gen_g(rng, depth):
    """operator trees over every key of the method table that takes scalar operands (incl. `||` and `/`)"""
    if depth <= 0 or rng.random() < 0.2:
        return ('a', rng.randrange(3))
    r = rng.random()
    if r < 0.78:
        return ('b', rng.choice(G_BIN), gen_g(rng, depth - 1), gen_g(rng, depth - 1))
    if r < 0.9:
        return ('p', rng.choice(('NOT', '-')), gen_g(rng, depth - 1))
    return ('w', gen_g(rng, depth - 1), gen_g(rng, depth - 1), gen_g(rng, depth - 1))


def concat_chain(t):
    if t[0] == 'a':
        return False
    if t[0] == 'b' and t[1] == '||' and any(x[0] == 'b' and x[1] == '||' for x in t[2:]):
        return True
    return any(concat_chain(x) for x in t[1:] if isinstance(x, tuple))


def g_line(t):
    if t[0] == 'a':
        return 'a %d' % t[1]
    if t[0] == 'b':
        return 'b %s %s %s' % (t[1].replace(' ', '_'), g_line(t[2]), g_line(t[3]))
    if t[0] == 'p':
        return 'p %s %s' % (t[1], g_line(t[2]))
    return 'w ' + ' '.join(g_line(x) for x in t[1:])


def g_ast(t):
    from mindsdb_sql.parser import ast as A
    if t[0] == 'a':
        return A.Identifier(parts=['c%d' % t[1]])
    if t[0] == 'b':
        return A.BinaryOperation(op=t[1], args=[g_ast(t[2]), g_ast(t[3])])
    if t[0] == 'p':
        return A.UnaryOperation(op=t[1].lower() if t[1] == 'NOT' else '-', args=[g_ast(t[2])])
    return A.BetweenOperation(args=[g_ast(x) for x in t[1:]])


def g_sql(t):
    if t[0] == 'a':
        return 'c%d' % t[1]
    if t[0] == 'b':
        return '(%s %s %s)' % (g_sql(t[2]), t[1].upper(), g_sql(t[3]))
    if t[0] == 'p':
        return '(%s %s)' % (t[1], g_sql(t[2]))
    return '(%s BETWEEN %s AND %s)' % tuple(g_sql(x) for x in t[1:])


def sig_create_if_not_exists(f, ast):
    from mindsdb_sql.parser import ast as A
    return isinstance(ast, A.CreateTable) and bool(ast.if_not_exists) and not f.get('fallback') and \
        f['kind'] == 'rendered-text-fails' and 'already exists' in f.get('error', '')


def sig_fallback_create_pk(f, ast):
    from mindsdb_sql.parser import ast as A
    return isinstance(ast, A.CreateTable) and bool(f.get('fallback')) and f['kind'] == 'tables-differ' and \
        any(c.is_primary_key for c in (ast.columns or []))


def sig_offset_without_limit(f, ast):
    from mindsdb_sql.parser import ast as A
    return f['kind'] == 'unbound-parameter' and \
        any(isinstance(n, A.Select) and n.offset is not None and n.limit is None for n in ast_nodes(ast))


def sig_window_nulls(f, ast):
    from mindsdb_sql.parser import ast as A
    return f['kind'] in ('rows-differ',) and any(
        isinstance(n, A.WindowFunction) and n.order_by and any(str(o.nulls).upper() in ('NULLS FIRST', 'NULLS LAST') for o in n.order_by)
        for n in ast_nodes(ast))


REPAIRS = collections.OrderedDict([
    ('not-is', repair_not_is),
    ('join:LEFT OUTER JOIN', repair_joins('LEFT OUTER JOIN')),
    ('join:RIGHT JOIN', repair_joins('RIGHT JOIN')),
    ('join:RIGHT OUTER JOIN', repair_joins('RIGHT OUTER JOIN')),
    ('join:FULL OUTER JOIN', repair_joins('FULL OUTER JOIN')),
    ('truediv', repair_truediv),
    ('string-plus', repair_string_plus),
    ('double-minus', repair_double_minus),
    ('cast-label', repair_cast_label),
    ('asboolean-grouping', lambda orig, rend, ast: repair_asboolean(orig, rend, ast)),
    ('case-alias', repair_case_alias),
])
SIGS = collections.OrderedDict([
    ('between-alias', sig_between_alias), ('setop-nesting', sig_setop_nesting), ('between-bounds', sig_between_bounds),
    ('concat-precedence', sig_concat), ('window-nulls', sig_window_nulls),
    ('offset-without-limit', sig_offset_without_limit), ('create-if-not-exists', sig_create_if_not_exists), ('fallback-create-pk', sig_fallback_create_pk),
])


# ------------------------------------------------------------------------------------ round 5: set-operation trees, nested scopes
DIALECTS = ('sqlite', 'mysql', 'postgres')
SCOPE_NUM = {'t': 1, 'u': 2, 'x': 7, 'y': 8, 'z': 9}


def setop_trees(rng, deep, broken):
    """every shape with 2 operations over all six operators, every shape with 3 operations over the operators sqlite has,
    random trees with 3-6 operations (all six operators)"""
    out = []
    for shape in X.tree_shapes(2):
        for ops in itertools.product(X.SETOP_KEYS, repeat=2):
            out.append(X.tree_fill(shape, iter(ops), iter((0, 1, 2))))
    for shape in X.tree_shapes(3):
        for ops in itertools.product(X.SETOP_SQLITE, repeat=3):
            k = rng.randrange(4)
            out.append(X.tree_fill(shape, iter(ops), iter([(k + i) % 4 for i in range(4)])))
    for i in range(3000 if deep else (600 if broken else 160)):
        keys = X.SETOP_SQLITE if i % 3 else X.SETOP_KEYS
        out.append(X.tree_random(rng, rng.choice((3, 3, 4, 4, 5, 6)), keys, 4))
    return out


def rtext_random(rng, n):
    """a random text structure with n operators: bare chains whose operands are operand SELECTs or derived tables"""
    if n == 0:
        return ['S%d' % rng.randrange(4)]
    toks = []
    k = rng.randint(1, n)           # operators at this level
    rest = n - k
    for i in range(k + 1):
        inner = rng.randint(0, rest) if rng.random() < 0.4 else 0
        rest -= inner
        toks += (['D['] + rtext_random(rng, inner) + [']']) if inner else ['S%d' % rng.randrange(4)]
        if i < k:
            toks.append(rng.choice(X.SETOP_SQLITE))
    return toks


def rtext_sql(toks):
    out, n = [], [0]
    for t in toks:
        if t == 'D[':
            out.append('SELECT * FROM (')
        elif t == ']':
            n[0] += 1
            out.append(') AS anon_%d' % n[0])
        elif t[0] == 'S' and t[1:].isdigit():
            out.append(X.SETOP_LEAVES[int(t[1:])])
        else:
            out.append(t.replace('_', ' '))
    return ' '.join(out).replace('( ', '(').replace(' )', ')')


def bag(rows):
    return sorted((tuple(r) for r in rows), key=X.skey)


def tabs_txt(content):
    return ' '.join(rows_txt(t) for t in X.setop_tabs(content))


def from_entries(ft):
    """FROM entries of a select of the library's AST: ('t', table, alias) per comma entry, ('j', [(table, alias)…]) for a
    chain of explicit joins, ('s', None, None) for a derived table"""
    from mindsdb_sql.parser import ast as A

    def tref(n):
        return ('.'.join(str(p) for p in n.parts).lower(), str(n.alias.parts[-1]).lower() if n.alias is not None else None)

    def flat(j):
        if isinstance(j, A.Join):
            return flat(j.left) + flat(j.right)
        return [tref(j)] if isinstance(j, A.Identifier) else [('?', None)]
    if ft is None:
        return []
    if isinstance(ft, A.Join):
        if ft.implicit:
            return from_entries(ft.left) + from_entries(ft.right)
        return [('j', flat(ft))]
    if isinstance(ft, A.Identifier):
        return [('t',) + tref(ft)]
    return [('s', None, None)]


def direct_subselects(roots):
    """the Select nodes below `roots` that are not inside another Select"""
    from mindsdb_sql.parser import ast as A
    from mindsdb_sql.parser.ast.base import ASTNode
    out, stack = [], list(roots)
    while stack:
        n = stack.pop()
        if isinstance(n, A.Select):
            if not any(n is x for x in out):       # (Exists keeps its query under `query` and in `args`)
                out.append(n)
        elif isinstance(n, ASTNode):
            stack.extend(vars(n).values())
        elif isinstance(n, (list, tuple)):
            stack.extend(n)
        elif isinstance(n, dict):
            stack.extend(n.values())
    return out


def ast_levels(sel):
    """FROM entries per nesting level along the chain of expression sub-queries (one sub-query per level)"""
    from mindsdb_sql.parser import ast as A
    out = []
    while isinstance(sel, A.Select):
        out.append(from_entries(sel.from_table))
        subs = direct_subselects([sel.targets, sel.where])
        if len(subs) != 1:
            break
        sel = subs[0]
    return out


def levels_line(levels):
    def tr(t, a):
        return 't%d%s' % (SCOPE_NUM.get(t, 99), '' if a is None else ':%d' % SCOPE_NUM.get(a, 98))
    return ' ; '.join(' '.join(tr(e[1], e[2]) if e[0] == 't' else ('j,' + ','.join(tr(*m) for m in e[1])) if e[0] == 'j' else 't97'
                               for e in lv) or '-' for lv in levels)


def norm_levels(levels):
    return [[(e[0], [tuple(m) for m in e[1]]) if e[0] == 'j' else tuple(e) for e in lv] for lv in levels]


# ------------------------------------------------------------------------------------ round 6: the renderer as an object with a history
def obj_state(R):
    """what a renderer object keeps between calls: its instance attributes, by value (containers by content)"""
    import hashlib
    out = {}
    for k, v in sorted(vars(R).items()):
        if k == 'dialect':
            out[k] = '%s/%s' % (type(v).__name__, getattr(v, 'name', ''))
        elif isinstance(v, (int, float, str, bool, type(None))):
            out[k] = repr(v)
        elif isinstance(v, dict):
            out[k] = 'dict[%d]:%s' % (len(v), hashlib.md5(repr(sorted((str(a), str(b)) for a, b in v.items())).encode()).hexdigest()[:10])
        elif isinstance(v, (list, tuple, set, frozenset)):
            out[k] = '%s[%d]:%s' % (type(v).__name__, len(v), hashlib.md5(repr(sorted(map(str, v))).encode()).hexdigest()[:10])
        else:
            out[k] = type(v).__name__
    return out


def state_diff(a, b):
    return {k: (a.get(k), b.get(k)) for k in sorted(set(a) | set(b)) if a.get(k) != b.get(k)}


def answer(R, ast, failback):
    """what a caller of get_string gets: ('text', normalised text) or ('raise', class: message)"""
    try:
        with warnings.catch_warnings():
            warnings.simplefilter('ignore')
            return ('text', norm_ws(R.get_string(ast) if failback else R.get_string(ast, with_failback=False)))
    except Exception as e:
        return ('raise', type(e).__name__ + ': ' + str(e)[:100])


def apply_history(R, history):
    """let the object answer the statements of `history` ([dict(text, failback)]); outcomes are ignored as a caller would"""
    for h in history:
        ast = parse(h['text'])
        if ast is not None:
            answer(R, ast, h['failback'])


def shrink_history(d, history, ast, failback, got):
    """a shortest history found that still makes a new object give the answer `got`: one earlier statement alone (latest
    first), else the whole history"""
    for h in reversed(history):
        R = renderer(d)
        apply_history(R, [h])
        if answer(R, ast, failback) == got:
            return [h]
    return list(history)


class Prober:
    """executes original vs rendered text over the databases and attributes a difference to known findings"""

    def __init__(self, chk, dbs):
        self.chk, self.dbs = chk, dbs
        self.R = {d: renderer(d) for d in ('sqlite', 'mysql', 'postgres')}
        self.kf_by_sig = {k['signature']: k for k in chk.kf if k.get('status') == 'open' and 'signature' in k}
        self.stats = collections.Counter()
        # the renderers above live through the whole probe (as a handler's does): what each has answered so far
        self.log = {d: [] for d in self.R}

    def differs(self, case, orig, rend):
        """first difference over all databases, or None; 'skip' when the original never ran"""
        ran = 0
        for db in self.dbs:
            if case['kind'] == 'select':
                d = X.compare_select(db, orig, rend, case.get('ordered', False), case.get('alias', ()), case.get('order_keys'),
                                     case.get('order_cols'))
            else:
                d = X.compare_dml(db.content, orig, rend)
            if isinstance(d, dict):
                d['db'] = db.content
                return d
            if d is None:
                ran += 1
        return None if ran else 'skip'

    def attribute(self, case, orig, rend, ast, diff, dialect):
        """names of the known-finding signatures that explain the difference ([] = unexplained)"""
        rep = REPAIRS
        RR = self.R[dialect]

        def apply(names):
            cur = rend
            for name in rep:
                if name in names:
                    fn = rep[name]
                    new = fn(orig, cur, ast, RR) if name == 'not-is' else fn(orig, cur, ast)
                    cur = new or cur
            return cur
        applicable = [n for n in rep if apply([n]) != rend]
        import itertools
        for size in range(1, min(len(applicable), 4) + 1):
            for names in itertools.combinations(applicable, size):
                if self.differs(case, orig, apply(names)) is None:
                    return list(names)
        applied = applicable
        cur = apply(applicable)
        out = []
        d2 = diff if not applied else (self.differs(case, orig, cur) or diff)
        for name, sig in SIGS.items():
            if isinstance(d2, dict) and sig(d2, ast):
                out.append(name)
        return (applied + out) if out else []

    def check(self, case, ast, dialects=('sqlite',)):
        chk = self.chk
        text = case['text']
        # a statement sqlite cannot execute as written (parenthesised set-operation operands) carries the same statement in
        # a form it can (`exec_text`, written by the generator from the same tree)
        orig = case.get('exec_text') or text
        for d in dialects:
            rend = render(self.R[d], ast)
            self.log[d].append(dict(text=text, failback=False))
            fallback = False
            if not isinstance(rend, str):
                # the renderer raised: get_string's default fallback returns the AST printer's text; it must mean the same
                self.stats['render-raises'] += 1
                self.log[d].append(dict(text=text, failback=True))
                try:
                    rend = norm_ws(self.R[d].get_string(ast))
                    fallback = True
                except Exception:
                    continue
            if d != 'sqlite':
                rend = rend.replace('`', '"')
            chk.count((d, text))
            # oracle clause: the rendered text is complete SQL -- no bind placeholder may be left in it
            if re.search(r':param_\d+', rend) and ':param_' not in orig:
                diff = dict(kind='unbound-parameter', error='placeholder left in the rendered text', db=self.dbs[0].content)
            else:
                diff = self.differs(case, orig, rend)
            if diff == 'skip':
                self.stats['orig-not-executable'] += 1
                continue
            if diff is None:
                self.stats[('agree-fallback:' if fallback else 'agree:') + d] += 1
                continue
            if fallback and '\\' in orig:
                self.stats['fallback-backslash(AST printer, C01/C04)'] += 1   # str(ast) doubles backslashes in literals
                continue
            if fallback and diff['kind'] == 'rendered-text-fails':
                self.stats['fallback-text-not-sqlite'] += 1   # the AST printer's dialect, not a rendering (C17 / C01)
                continue
            diff['fallback'] = fallback
            if fallback:
                self.stats['fallback-differs'] += 1
            if d != 'sqlite' and 'SERIAL' in rend.upper():
                # postgres: sqlalchemy turns a single integer key into BIGSERIAL, a type sqlite does not know
                self.stats['not-common-subset:' + d] += 1
                continue
            if d != 'sqlite' and diff['kind'] == 'rendered-text-fails':
                self.stats['not-common-subset:' + d] += 1    # sqlite cannot run this mysql/postgres text
                continue
            # is it this statement, or what the long-lived renderer answered before?  A new object is asked too
            fresh = answer(renderer(d), ast, fallback)
            fresh_text = fresh[1].replace('`', '"') if d != 'sqlite' and fresh[0] == 'text' else fresh[1]
            if fresh != ('text', rend) and fresh_text != rend:
                hist = shrink_history(d, self.log[d][:-2 if fallback else -1][-400:], ast, fallback,
                                      answer(self.R[d], ast, fallback))
                self.stats['NEW:history-dependent'] += 1
                chk.fail(dict(desc='the answer of a renderer object depends on what it answered before (%s): %s' % (diff['kind'], text[:160]),
                              kind='history', stmt_kind=case['kind'], dialect=d, history=hist, text=text, exec_text=case.get('exec_text'),
                              failback=fallback, rendered=rend, rendered_fresh=fresh[1], ordered=case.get('ordered', False),
                              alias=case.get('alias', []), order_keys=case.get('order_keys'), order_cols=case.get('order_cols'),
                              diff={k: v for k, v in diff.items() if k != 'db'}, db=diff['db'], feats=case.get('feats', []), kf=None,
                              **{'class': 'unexplained:history:' + diff['kind']}))
                continue
            causes = self.attribute(case, orig, rend, ast, diff, d)
            f = dict(desc='rendered text differs in effect from the original (%s): %s' % (diff['kind'], text[:200]),
                     dialect=d, text=text, exec_text=case.get('exec_text'), rendered=rend, kind=case['kind'], ordered=case.get('ordered', False),
                     alias=case.get('alias', []), order_keys=case.get('order_keys'), order_cols=case.get('order_cols'), diff={k: v for k, v in diff.items() if k != 'db'}, db=diff['db'],
                     causes=causes, feats=case.get('feats', []), from_ast=case.get('from_ast'),
                     **{'class': 'unexplained:' + diff['kind'] if not causes else 'kf:' + '+'.join(causes)})
            kfs = [self.kf_by_sig.get(c) for c in causes]
            if causes and all(kfs):
                f['kf'] = kfs[0]['id']
                for k in kfs:
                    k['_reproduced'] = True
                self.stats['known:' + '+'.join(causes)] += 1
            else:
                f['kf'] = None
                self.stats['NEW:' + diff['kind']] += 1
            chk.fail(f)


def kf_cases():
    """the witnesses of the proposed known findings as probe cases (text, kind)"""
    out = []
    path = os.path.join(common.ROOT, 'kf_proposed_C06.json')
    src = json.load(open(path)) if os.path.exists(path) else []
    src += [k for k in json.load(open(os.path.join(common.ROOT, 'known_findings.json')))['findings'] if k['property'] == 'C06']
    for k in src:
        w = k.get('witness') or {}
        if w.get('text'):
            out.append(dict(kind=w.get('kind', 'select'), text=w['text'], ordered=w.get('ordered', False), alias=w.get('alias', []), order_keys=w.get('order_keys'), dialect=w.get('dialect'),
                            feats=['kf-witness:' + k['id']], ast=w.get('ast')))
    return out


def parse(text, dialect='mindsdb'):
    from mindsdb_sql import parse_sql
    try:
        return parse_sql(text, dialect)
    except Exception:
        return None


def join_ast(sp, with_on):
    from mindsdb_sql.parser import ast as A
    cond = A.BinaryOperation('=', args=[A.Identifier('t.a'), A.Identifier('u.a')]) if with_on else None
    return A.Select(targets=[A.Star()], from_table=A.Join(join_type=sp, left=A.Identifier('t'), right=A.Identifier('u'), condition=cond))


def run(chk):
    quick = chk.tier == 'quick'
    broken = bool(chk.broken())
    deep = not quick
    from mindsdb_sql.parser import ast as A
    side = json.load(open(os.path.join(common.ROOT, 'gen', 'saprec.json')))
    R = renderer('sqlite')
    rng = common.rng_for(chk.seed, 'C06/expr')
    conn = sqlite3.connect(':memory:')

    # ---------------------------------------------------------------- correspondence: expressions
    trees = [('exh', t) for d in (1, 2) for t in all_exprs(d)]
    for i in range(40000 if deep else (6000 if broken else 2500)):
        t = gen_expr(rng, rng.randint(2, 5))
        if t[0] in ('ite', 'cast'):      # a bare CASE / CAST is not a WHERE condition (the renderer appends `= 1`)
            t = ('cmp', '=', t, ('c', 0))
        trees.append(('rnd', t))
    lines = ['E ' + expr_line(t) for _, t in trees]
    spellings = sorted(set(side['join_spellings']) | {'RIGHT OUTER JOIN', 'left join', 'Full Join'})
    jl = [(sp, on) for sp in spellings for on in (1, 0)]
    lines += ['J %d %s' % (on, join_ast(sp, bool(on)).from_table.join_type) for sp, on in jl]
    dirs, nls = ('default', 'ASC', 'DESC', 'asc', 'desc'), ('default', 'NULLS FIRST', 'NULLS LAST', 'nulls first')
    kl = [(d, n) for d in dirs for n in nls]
    lines += ['K %s %s' % (d.upper().replace(' ', '_'), n.upper().replace(' ', '_')) for d, n in kl]
    wl = [(d, n) for d in ('default', 'ASC', 'DESC') for n in ('default', 'NULLS FIRST', 'NULLS LAST')]
    lines += ['W %s %s' % (d.replace(' ', '_'), n.replace(' ', '_')) for d, n in wl]
    tl = [('int 5', None), ('int 0', 'k'), ('null', None), ('null', 'n'), ('btw', 'k0'), ('btw', None), ('col', 'k1'), ('col', None)]
    lines += ['T %s %s' % (k, a or '-') for k, a in tl]
    grng = common.rng_for(chk.seed, 'C06/gtrees')
    gl = [('b', o, ('a', 0), ('b', i, ('a', 1), ('a', 2))) for o in G_BIN for i in G_BIN] + \
         [('b', o, ('b', i, ('a', 0), ('a', 1)), ('a', 2)) for o in G_BIN for i in G_BIN] + \
         [gen_g(grng, grng.randint(2, 4)) for _ in range(6000 if deep else 800)]
    lines += ['G ' + g_line(t) for t in gl]
    jj = [(s1, s2) for s1 in sorted(side['join_spellings']) for s2 in sorted(side['join_spellings'])]
    lines += ['JJ %s | %s' % x for x in jj]
    dl = [(pk, nl, se) for pk in (0, 1) for nl in ('n', 't', 'f') for se in (0, 1)]
    lines += ['D %d %s %d' % x for x in dl]
    cl = list(itertools.product((0, 1), repeat=6))
    lines += ['C ' + ' '.join(map(str, x)) for x in cl]
    # the specification semantics itself, compared with sqlite3: expression values, then query / DML results
    srng = common.rng_for(chk.seed, 'C06/semantics')
    ENVS4 = [e + (srng.choice((None, 0, 1, 2)),) for e in ENVS]
    vl = []
    for src, t in trees:
        for env in (ENVS4 if (src == 'exh' or deep) else srng.sample(ENVS4, 2)):
            vl.append((t, env))
    lines += ['V %s %s' % (' '.join('n' if v is None else str(v) for v in env), expr_line(t)) for t, env in vl]
    ql = sem_cases(srng, 30000 if deep else 1800)
    lines += [x[0] for x in ql]
    # round 5 -- set-operation trees: the text structure the real renderer prints per dialect (computed here, the driver reads
    # it back the way the target does), the model's text, the rows of the tree
    timing = {}
    t_mark = time.time()
    sorng = common.rng_for(chk.seed, 'C06/setops')
    RD = {d: renderer(d) for d in DIALECTS}
    so_dbs = X.setop_dbs(sorng, 8 if deep else 5)
    leaf_txt = {}
    for d in DIALECTS:
        leaf_txt[d] = [render(RD[d], parse(t)) for t in X.SETOP_LEAVES]
    leaf_no = lambda n: X.SETOP_LEAVES.index(str(n)) if str(n) in X.SETOP_LEAVES else None
    so_cases = []
    for t in setop_trees(sorng, deep, broken):
        text = X.tree_sql(t, paren_left=lambda: sorng.random() < 0.5)
        ast = parse(text)
        via = 'parser'
        if ast is None or X.tree_of_ast(ast, leaf_no) != t:
            # (what the parser makes of the text is C01's matter; the renderer is given the tree itself)
            ast, via = X.tree_ast(t, lambda i: parse(X.SETOP_LEAVES[i])), 'built'
        c = dict(tree=t, text=text, ast=ast, via=via, struct={}, rendered={}, dbs=sorng.sample(range(len(so_dbs)), 3 if deep else 2))
        for d in DIALECTS:
            r = render(RD[d], ast)
            c['rendered'][d] = r
            c['struct'][d] = X.setop_structure(r, leaf_txt[d]) if isinstance(r, str) else '?!' + str(r[1]).split(':')[0]
        so_cases.append(c)
    so_base = len(lines)
    for c in so_cases:
        tline = X.tree_line(c['tree'])
        for k in c['dbs']:
            lines.append('SX %s ; %s ; %s' % (tabs_txt(so_dbs[k]), tline, ' ; '.join(
                c['struct'][d] if not c['struct'][d].startswith('?') else 'S0' for d in DIALECTS)))
    # … and the model of sqlite's reading of a compound chain itself: random bare / partly delimited chains
    rt_cases = [(rtext_random(sorng, sorng.randint(2, 5)), sorng.randrange(len(so_dbs))) for _ in range(2000 if deep else 150)]
    rt_base = len(lines)
    lines += ['SR sqlite ; %s ; %s' % (tabs_txt(so_dbs[k]), ' '.join(toks)) for toks, k in rt_cases]
    # round 5 -- FROM lists of nested expression sub-queries
    fsrng = common.rng_for(chk.seed, 'C06/scope')
    fg = X.Gen(fsrng)
    fs_cases = []
    for i in range(3000 if deep else (600 if broken else 220)):
        fg.feats, fg.strs = set(), set()
        text, _, _ = fg.nested_scope()
        fs_cases.append(dict(kind='select', text=text, ordered=False, alias=[], feats=sorted(fg.feats), scope_levels=fg.scope_levels,
                             strs=sorted(fg.strs)))
    fs_base = len(lines)
    lines += ['FS fresh ; ' + levels_line(c['scope_levels']) for c in fs_cases]
    timing['round5-cases'] = round(time.time() - t_mark, 2)
    outs = None
    t_mark = time.time()
    try:
        outs = common.lean_run('Render', lines)
    except Exception as e:
        chk.oblige('corr:render', 'correspondence', False, 'driver failed: %s' % e)
    timing['driver'] = round(time.time() - t_mark, 2)
    dist = collections.Counter()
    if outs is not None:
        div, first = 0, None
        predicted_bad = 0
        for (src, t), o in zip(trees, outs):
            parts = [x.strip() for x in o.split('|')]
            q = A.Select(targets=[A.Star()], from_table=A.Identifier('t'), where=expr_ast(t))
            r = render(R, q)
            got = norm_lits(r.split(' WHERE ', 1)[1]) if isinstance(r, str) and ' WHERE ' in r else str(r)
            dist['expr/' + src] += 1
            chk.count(('E', t))
            flags = parts[1]
            fl = dict(x.split('=') for x in flags.split())
            if fl['mod'] == '0':
                dist['expr/not-modelled(NOT over Boolean-typed arithmetic)'] += 1
            elif got != parts[0]:
                div += 1
                first = first or dict(tree=expr_line(t), model=parts[0], impl=got)
                if not isinstance(r, str) or ' WHERE ' not in r or div > 40:
                    continue
                # (still executed below: a diverging text that also changes the value gives the concrete failing input)
            # validation of the model's verdict (and of the trusted engine table) by execution
            good = fl['ok'] == '1' and fl['saok'] == '1' and fl['regroup'] == '1'
            if src == 'exh' or deep or dist['expr/evaluated-rnd'] < 1200:
                dist['expr/evaluated-' + src] += 1
                dist['expr/evaluated'] += 1
                osql, rsql = expr_sql(t), r.split(' WHERE ', 1)[1]
                bad = None
                for env in ENVS:
                    a, b = value_of(conn, osql, env), value_of(conn, rsql, env)
                    if a[0] == 'ok' and a != b:
                        bad = dict(env=env, orig=a, rend=b)
                        break
                if bad:
                    predicted_bad += 0 if good else 1
                    dist['expr/differs-' + ('UNPREDICTED' if good else 'predicted')] += 1
                    case = dict(kind='select', text='SELECT %s FROM (SELECT %s AS c0, %s AS c1, %s AS c2)' % (
                        (osql,) + tuple(X_lit(v) for v in bad['env'])))
                    f = dict(desc='value of the rendered expression differs from the original: %s' % osql, dialect='sqlite',
                             text=case['text'], rendered=rsql, kind='expr', tree=expr_line(t), model_flags=flags,
                             diff=dict(kind='value-differs', **bad), expr_tree=t)
                    causes = []
                    if repair_asboolean('', rsql, expr_ast(t)):
                        fixed = repair_asboolean('', rsql, expr_ast(t))
                        if all(value_of(conn, osql, e2) == value_of(conn, fixed, e2) or value_of(conn, osql, e2)[0] != 'ok'
                               for e2 in ENVS):
                            causes.append('asboolean-grouping')
                    kfs = {k['signature']: k for k in chk.kf if k.get('status') == 'open' and 'signature' in k}
                    f['causes'] = causes
                    f['class'] = 'kf:' + '+'.join(causes) if causes else 'unexplained:value-differs'
                    if causes and all(c in kfs for c in causes) and not good:
                        f['kf'] = kfs[causes[0]]['id']
                        for c in causes:
                            kfs[c]['_reproduced'] = True
                    else:
                        f['kf'] = None
                    chk.fail(f)
                elif good:
                    dist['expr/agree-as-proved'] += 1
        chk.corr_result('render-expr', len(trees), div, first, dict(dist))
        base = len(trees)
        div, first = 0, None
        for (sp, on), o in zip(jl, outs[base:]):
            parts = [x.strip() for x in o.split('|')]
            r = render(R, join_ast(sp, bool(on)))
            m = re.search(r'FROM t (.*?) u(?: ON (.*))?$', r) if isinstance(r, str) else None
            got = (m.group(1), '' if on else (m.group(2) or '')) if m else ('!' + str(r[1]).split(':')[0], '')
            if got != (parts[0], parts[1]):
                div += 1
                first = first or dict(join_type=sp, on=on, model=parts[:2], impl=got)
        chk.corr_result('render-join', len(jl), div, first)
        base += len(jl)
        div, first = 0, None
        for (d, n), o in zip(kl, outs[base:]):
            q = A.Select(targets=[A.Star()], from_table=A.Identifier('t'),
                         order_by=[A.OrderBy(field=A.Identifier('a'), direction=d, nulls=n)])
            r = render(R, q)
            got = r.split('ORDER BY a', 1)[1].strip() if isinstance(r, str) else str(r)
            if got != o.strip():
                div += 1
                first = first or dict(direction=d, nulls=n, model=o.strip(), impl=got)
        chk.corr_result('render-order-key', len(kl), div, first)
        base += len(kl)
        div, first = 0, None
        for (d, n), o in zip(wl, outs[base:]):
            q = A.Select(targets=[A.WindowFunction(function=A.Function('row_number', args=[]),
                                                   order_by=[A.OrderBy(field=A.Identifier('a'), direction=d, nulls=n)])],
                         from_table=A.Identifier('t'))
            r = render(R, q)
            m = re.search(r'ORDER BY a(.*?)\)', r) if isinstance(r, str) else None
            got = m.group(1).strip() if m else str(r)
            if got != o.strip():
                div += 1
                first = first or dict(direction=d, nulls=n, model=o.strip(), impl=got)
        chk.corr_result('render-window-key', len(wl), div, first)
        base += len(wl)
        div, first = 0, None
        for (k, a), o in zip(tl, outs[base:]):
            al = A.Identifier(a) if a else None
            node = {'int 5': lambda: A.Constant(5, alias=al), 'int 0': lambda: A.Constant(0, alias=al),
                    'null': lambda: A.NullConstant(alias=al),
                    'btw': lambda: A.BetweenOperation(args=[A.Identifier('a'), A.Constant(0), A.Constant(1)], alias=al),
                    'col': lambda: A.Identifier('a', alias=al)}[k]()
            r = render(R, A.Select(targets=[node], from_table=A.Identifier('t')))
            m = re.search(r' AS "?([\w]+)"? FROM', r) if isinstance(r, str) else None
            got = m.group(1) if m else '-'
            if got.startswith('anon_'):
                got = '-'
            if got != o.strip():
                div += 1
                first = first or dict(target=k, alias=a, model=o.strip(), impl=got, rendered=r)
        chk.corr_result('render-label', len(tl), div, first)
        base += len(tl)
        # operator trees over all keys (incl. `||`, `/`): printed text vs model, and values vs the fully parenthesised original
        div, first = 0, None
        gd = collections.Counter()
        kfs = {k['signature']: k for k in chk.kf if k.get('status') == 'open' and 'signature' in k}
        for t, o in zip(gl, outs[base:]):
            parts = [x.strip() for x in o.rsplit(' | ', 1)]
            r = render(R, A.Select(targets=[A.Star()], from_table=A.Identifier('t'), where=g_ast(t)))
            got = r.split(' WHERE ', 1)[1] if isinstance(r, str) and ' WHERE ' in r else str(r)
            chk.count(('G', t))
            fl = dict(x.split('=') for x in parts[1].split())
            # NOT over Boolean-typed operands / NOT of a comparison is flipped by SQLAlchemy: text is compared for NOT-free trees
            # (`||` directly under `||`: SQLAlchemy flattens the chain or keeps the Grouping depending on its type
            #  inference -- both texts mean the same, `||` is associative; only executed)
            if 'NOT' not in g_line(t).split() and not concat_chain(t) and got != parts[0]:
                div += 1
                first = first or dict(tree=g_line(t), model=parts[0], impl=got)
                continue
            if not isinstance(r, str):
                continue
            bad = None
            for env in ENVS:
                a, b = value_of(conn, g_sql(t), env), value_of(conn, got, env)
                if a[0] == 'ok' and a != b:
                    bad = dict(env=env, orig=a, rend=b)
                    break
            good = fl['saok'] == '1' and fl['regroup'] == '1'
            gd['agree' if not bad else ('differs-predicted' if not good else 'differs-UNPREDICTED')] += 1
            if bad:
                f = dict(desc='value of the rendered expression differs from the original: %s' % g_sql(t), dialect='sqlite',
                         text='SELECT %s FROM (SELECT %s AS c0, %s AS c1, %s AS c2)' % ((g_sql(t),) + tuple(X_lit(v) for v in bad['env'])),
                         rendered=got, kind='gexpr', tree=g_line(t), gtree=t, model_flags=parts[1], diff=dict(kind='value-differs', **bad))
                causes = ['concat-precedence'] if sig_concat(dict(kind='value-differs'), g_ast(t)) and not good else []
                f['causes'] = causes
                f['class'] = 'kf:' + '+'.join(causes) if causes else 'unexplained:value-differs'
                if causes and all(c in kfs for c in causes):
                    f['kf'] = kfs[causes[0]]['id']
                    for c in causes:
                        kfs[c]['_reproduced'] = True
                else:
                    f['kf'] = None
                chk.fail(f)
        chk.corr_result('render-optree', len(gl), div, first, dict(gd))
        base += len(gl)
        # chains of two explicit joins: every pair of join_type strings (the mapping must not depend on the joins before)
        div, first = 0, None
        for (s1, s2), o in zip(jj, outs[base:]):
            q = A.Select(targets=[A.Star()], from_table=A.Join(
                join_type=s2, right=A.Identifier('v'), condition=A.BinaryOperation('=', args=[A.Identifier('u.a'), A.Identifier('v.a')]),
                left=A.Join(join_type=s1, left=A.Identifier('t'), right=A.Identifier('u'),
                            condition=A.BinaryOperation('=', args=[A.Identifier('t.a'), A.Identifier('u.a')]))))
            r = render(R, q)
            if isinstance(r, str):
                m = re.search(r'FROM t (.*?) u ON t.a = u.a (.*?) v ON', r)
                got = '%s | %s' % (m.group(1), m.group(2)) if m else r
            else:
                got = '!' + str(r[1]).split(':')[0]
            if got != o.strip():
                div += 1
                first = first or dict(join_types=[s1, s2], model=o.strip(), impl=got)
        chk.corr_result('render-join-chain', len(jj), div, first)
        base += len(jj)
        # CREATE TABLE column declarations: NOT NULL / key membership printed for every (key, nullable, serial) combination
        div, first = 0, None
        for (pk, nl, se), o in zip(dl, outs[base:]):
            col = A.TableColumn(name='p', type='serial' if se else 'INT', is_primary_key=bool(pk),
                                nullable={'n': None, 't': True, 'f': False}[nl])
            r = render(R, A.CreateTable(name=A.Identifier('w'), columns=[A.TableColumn(name='z', type='TEXT'), col]))
            if isinstance(r, str):
                m = re.search(r'\bp \w+( NOT NULL)?', r)
                got = 'notnull=%d pk=%d' % (1 if m and m.group(1) else 0, 1 if re.search(r'PRIMARY KEY \(p\)', r) else 0)
            else:
                got = str(r)
            if got != o.strip():
                div += 1
                first = first or dict(column=dict(pk=pk, nullable=nl, serial=se), model=o.strip(), impl=got, rendered=r)
        chk.corr_result('render-ddl-column', len(dl), div, first)
        base += len(dl)
        # clause skeleton of an aggregate SELECT: every combination of WHERE / GROUP BY / HAVING / ORDER BY / LIMIT / OFFSET
        div, first = 0, None
        for bits, o in zip(cl, outs[base:]):
            w, g, h, od, li, of = bits
            cnt = A.Function('count', args=[A.Star()])
            q = A.Select(targets=[cnt], from_table=A.Identifier('t'),
                         where=A.BinaryOperation('=', args=[A.Identifier('a'), A.Constant(1)]) if w else None,
                         group_by=[A.Identifier('a')] if g else None,
                         having=A.BinaryOperation('>', args=[A.Function('count', args=[A.Star()]), A.Constant(1)]) if h else None,
                         order_by=[A.OrderBy(field=A.Identifier('a'))] if od else None,
                         limit=A.Constant(1) if li else None, offset=A.Constant(1) if of else None)
            r = render(R, q)
            if isinstance(r, str):
                got = 'where=%d group=%d having=%d order=%d limit=%d offset=%d' % tuple(
                    int(k in r) for k in (' WHERE ', ' GROUP BY ', ' HAVING ', ' ORDER BY ', ' LIMIT ', ' OFFSET '))
                # sqlite needs a LIMIT to carry an OFFSET: sqlalchemy prints `LIMIT -1 OFFSET n`
                if of and not li and (' LIMIT -1 ' in r or ' LIMIT :param_' in r):
                    got = got.replace('limit=1', 'limit=0')     # (the :param_ form is KF-C06-19)
                if li and not of and r.endswith(' OFFSET 0'):
                    got = got.replace('offset=1', 'offset=0')   # the sqlite compiler always completes LIMIT n with OFFSET 0
            else:
                got = str(r)
            if got != o.strip():
                div += 1
                first = first or dict(clauses=dict(zip(('where', 'group_by', 'having', 'order_by', 'limit', 'offset'), bits)),
                                      model=o.strip(), impl=got, rendered=r)
        chk.corr_result('render-select-skeleton', len(cl), div, first)
        base += len(cl)
        # --- semantics: `Render.eval` vs sqlite3 on the same expression and values
        div, first = 0, None
        sd = collections.Counter()
        for (t, env), o in zip(vl, outs[base:]):
            want = value_of(conn, expr_sql(t), env[:3])
            if want[0] != 'ok' or isinstance(want[1], float):
                sd['skipped'] += 1
                continue
            got = None if o.strip() == 'n' else int(o)
            sd['null' if want[1] is None else 'value'] += 1
            if got != want[1]:
                div += 1
                first = first or dict(expr=expr_sql(t), env=env, model=o.strip(), sqlite=want[1])
        chk.corr_result('semantics-eval', len(vl), div, first, dict(sd))
        base += len(vl)
        # --- semantics: evalSelect (joins, WHERE, DISTINCT, ORDER BY, LIMIT/OFFSET), evalGSelect, exec vs sqlite3
        div, first = 0, None
        sd = collections.Counter()
        for (line, setup, sql, how), o in zip(ql, outs[base:]):
            want = sem_run(setup, sql, how)
            if isinstance(want, str) or any(isinstance(v, float) for r in want for v in r):
                sd['skipped:' + line.split()[0]] += 1
                continue
            try:
                got = parse_rows(o)
            except ValueError:
                got = o
            ok = got == want if how == 'list' else (isinstance(got, list) and sorted(got, key=X.skey) == sorted(want, key=X.skey))
            sd[line.split()[0] + ('/rows' if want else '/empty')] += 1
            if not ok:
                div += 1
                first = first or dict(line=line, sql=sql, tables=[s_[1] for s_ in setup], model=o.strip(), sqlite=want)
        chk.corr_result('semantics-query', len(ql), div, first, dict(sd))
        # --- round 5: set-operation trees
        t_mark = time.time()
        so_conn = [X.Db(c) for c in so_dbs]
        div, first, sdiv, sfirst = 0, None, 0, None
        sod, ssd = collections.Counter(), collections.Counter()
        pos = so_base
        for c in so_cases:
            t = c['tree']
            so_out, read = {}, {}
            for k in c['dbs']:
                parts = [x.strip() for x in outs[pos].split(' | ')]
                pos += 1
                for j, d in enumerate(DIALECTS):
                    so_out[(d, k)] = [parts[j], parts[3], parts[4], parts[8][4 + j]]
                    read[(d, k)] = parts[5 + j]
            nl, nr = X.tree_nesting(t)
            sod['trees'] += 1
            sod['depth=%d' % X.tree_depth(t)] += 1
            sod['nested:' + ('both' if nl and nr else 'left' if nl else 'right' if nr else 'none')] += 1
            sod['ast-via-' + c['via']] += 1
            sqlite_ok = so_out[('sqlite', c['dbs'][0])][1] == 'sup=1'
            # (1) text structure of the real renderer's output, per dialect: is it one of the renderings the theorem covers
            #     (`accepted d tree text`, sound by C06_setops_accepted; `prepare_union` as transcribed prints `model`)
            for d in DIALECTS:
                chk.count(('SO', d, t))
                model, acc = so_out[(d, c['dbs'][0])][0], so_out[(d, c['dbs'][0])][3]
                sod['text=model:' + d if c['struct'][d] == model else 'text-other-accepted:' + d if acc == '1' else 'TEXT-NOT-ACCEPTED:' + d] += 1
                if acc != '1' or c['struct'][d].startswith('?'):
                    div += 1
                    first = first or dict(tree=X.tree_line(t), statement=c['text'], dialect=d, model=model, impl=c['struct'][d],
                                          accepted=False, rendered=c['rendered'][d])
            # (2) the rows: the tree (Lean `evalTree`), the tree executed by sqlite3 in its derived-table form, the rendered text
            #     executed by sqlite3, the rendered text of every dialect read the way that dialect reads it (Lean `denote`)
            ref_sql = X.tree_ref_sql(t)
            for k in c['dbs']:
                want = parse_rows(so_out[('sqlite', k)][2])
                content = so_dbs[k]
                if sqlite_ok:
                    ref = X.run_select(so_conn[k].conns[0], ref_sql)
                    ssd['tree-vs-sqlite3'] += 1
                    if ref[0] != 'ok' or bag(ref[1]) != bag(want):
                        sdiv += 1
                        sfirst = sfirst or dict(what='rows of the tree: model vs sqlite3', tree=X.tree_line(t), sql=ref_sql, db=content,
                                                model=want, sqlite=ref[1])
                        continue
                for d in DIALECTS:
                    got = read[(d, k)]
                    st = c['struct'][d]
                    bad = None
                    sup = d != 'sqlite' or sqlite_ok
                    if d == 'sqlite' and sqlite_ok and isinstance(c['rendered'][d], str):
                        ex = X.run_select(so_conn[k].conns[0], c['rendered'][d])
                        if ex[0] != 'ok':
                            bad = dict(kind='rendered-text-fails', error=ex[1], expected_rows=bag(want))
                        elif bag(ex[1]) != bag(want):
                            bad = dict(kind='rows-differ', expected_rows=bag(want), rendered_rows=bag(ex[1]), how='sqlite3 execution')
                        if not st.startswith('?'):
                            # the model's reading of the text against the real engine's
                            ssd['reading-vs-sqlite3'] += 1
                            lean = None if got == '!' else bag(parse_rows(got))
                            real = None if ex[0] != 'ok' else bag(ex[1])
                            if lean != real:
                                sdiv += 1
                                sfirst = sfirst or dict(what='sqlite reading of a rendered text: model vs sqlite3', text=c['rendered'][d],
                                                        structure=st, db=content, model=got, sqlite=ex[1])
                    if bad is None and sup and not st.startswith('?'):
                        if got == '!':
                            bad = dict(kind='rendered-text-fails', error='the %s grammar has no such compound operand' % d,
                                       expected_rows=bag(want), how='target reading (Lean denote)')
                        elif bag(parse_rows(got)) != bag(want):
                            bad = dict(kind='rows-differ', expected_rows=bag(want), rendered_rows=bag(parse_rows(got)),
                                       how='target reading (Lean denote): %s' % ('one level, left to right' if d == 'sqlite' else
                                                                                 'INTERSECT first, then left to right'))
                    if bad is None and sup and st.startswith('?!'):
                        bad = dict(kind='renderer-raises', error=str(c['rendered'][d]), expected_rows=bag(want))
                    if bad:
                        sod['DIFFERS:' + d] += 1
                        chk.fail(dict(desc='rendered set operation does not keep the operand grouping (%s, %s): %s' % (d, bad['kind'], c['text'][:200]),
                                      kind='setop-tree', dialect=d, text=c['text'], tree=X.tree_line(t), tree_t=t, via=c['via'], rendered=c['rendered'][d],
                                      structure=st, db=content, diff=bad, kf=None, **{'class': 'unexplained:setop-grouping:%s:%s' % (d, bad['kind'])}))
                        break
                    sod['agree:' + d] += 1
        chk.corr_result('render-setops', 3 * len(so_cases), div, first, dict(sod))
        for (toks, k), o in zip(rt_cases, outs[rt_base:]):
            ex = X.run_select(so_conn[k].conns[0], rtext_sql(toks))
            ssd['chain-reading-vs-sqlite3'] += 1
            lean = None if o.strip() == '!' else bag(parse_rows(o))
            real = None if ex[0] != 'ok' else bag(ex[1])
            if lean != real:
                sdiv += 1
                sfirst = sfirst or dict(what='sqlite reading of a compound chain: model vs sqlite3', structure=' '.join(toks),
                                        sql=rtext_sql(toks), db=so_dbs[k], model=o.strip(), sqlite=ex[1])
        chk.corr_result('semantics-setops', sum(ssd.values()), sdiv, sfirst, dict(ssd))
        for db in so_conn:
            db.close()
        # --- round 5: FROM lists per nesting level, object identity of table clauses
        div, first = 0, None
        fd = collections.Counter()
        for i, (c, o) in enumerate(zip(fs_cases, outs[fs_base:])):
            model = o.strip()
            ast = parse(c['text'])
            if ast is None or norm_levels(ast_levels(ast)) != norm_levels(c['scope_levels']):
                fd['unparsed-or-other-shape'] += 1
                continue
            c['ast'] = ast
            for d in (DIALECTS if i % 3 == 0 else ('sqlite',)):
                r = render(RD[d], ast)
                if not isinstance(r, str):
                    fd['renderer-raises'] += 1
                    impl = '!' + str(r[1])[:80]
                else:
                    back = parse(r.replace('`', '"') if d != 'sqlite' else r)
                    impl = levels_line(ast_levels(back)) if back is not None else '?unparsable: ' + r
                fd['levels=%d' % len(c['scope_levels'])] += 1
                chk.count(('FS', d, c['text']))
                if impl != model:
                    div += 1
                    fd['DIFFERS'] += 1
                    first = first or dict(statement=c['text'], dialect=d, model_from_lists=model, impl_from_lists=impl, rendered=r)
        # the model's allocation discipline: every `to_table` call makes a new FromClause object
        shapes = [('t', None), ('t', 'x'), ('s.t', None), ('s.t', 'x')]
        for d in DIALECTS:
            for nm, al in shapes:
                node = A.Identifier(nm, alias=A.Identifier(al) if al else None)
                a, b = RD[d].to_table(node), RD[d].to_table(A.Identifier(nm, alias=A.Identifier(al) if al else None))
                fd['identity-probes'] += 1
                if a is b or a is RD[d].to_table(node):
                    div += 1
                    first = first or dict(what='to_table returns the same FromClause object for two references', dialect=d,
                                          table=nm, alias=al, model='a new object per reference (allocFresh)', impl='shared object')
        chk.corr_result('render-from-scope', len(fs_cases) + 3 * len(shapes), div, first, dict(fd))
        timing['round5-streams'] = round(time.time() - t_mark, 2)

    # ---------------------------------------------------------------- impl-level probe: execution
    prng = common.rng_for(chk.seed, 'C06/probe')
    n_db, max_rows, n_stmt = (60, 3, 12000) if deep else ((40, 2, 1500) if broken else (24, 2, 500))
    dbs = [X.Db(c) for c in X.sample_dbs(prng, n_db, max_rows)]
    P = Prober(chk, dbs)
    g = X.Gen(prng)
    pdist = collections.Counter()
    # (a) every join spelling, with and without ON, built as AST (covers spellings the grammars do not produce)
    for sp in spellings:
        for on in (True, False):
            ast = join_ast(sp, on)
            P.check(dict(kind='select', text=str(ast), feats=['join:' + sp], from_ast=dict(join_type=sp, on=on)), ast)
    # (b) witnesses of the known findings
    for c in kf_cases():
        ast = parse(c['text'])
        if ast is not None:
            P.check(c, ast, (c['dialect'],) if c.get('dialect') else ('sqlite',))
    # (a') chains of two explicit joins over three tables: every pair of spellings
    for s1 in spellings:
        for s2 in spellings:
            text = 'SELECT t.a, u.c, t2.b FROM t %s u ON t.a = u.a %s t AS t2 ON u.c = t2.b' % (s1, s2)
            ast = parse(text)
            if ast is not None:
                P.check(dict(kind='select', text=text, feats=['join-chain']), ast)
    # (b') CREATE TABLE: every column-constraint shape the grammar has, alone and next to a second column, with and
    #      without a table-level key; judged by the created constraints and by a NULL / duplicate carrying workload
    cons = ('', ' NULL', ' NOT NULL', ' PRIMARY KEY', ' PRIMARY KEY NOT NULL', ' PRIMARY KEY NULL')
    ddl = []
    for ty in ('INT', 'TEXT', 'VARCHAR(10)'):
        for c1 in cons:
            ddl.append('CREATE TABLE w (p %s%s)' % (ty, c1))
            for c2 in cons[:3]:
                ddl.append('CREATE TABLE w (q FLOAT%s, p %s%s)' % (c2, ty, c1))
                if 'PRIMARY' not in c1:
                    ddl.append('CREATE TABLE w (p %s%s, q INTEGER%s, PRIMARY KEY (%s))' % (ty, c1, c2, 'p' if c2 else 'q, p'))
    ddl += ['CREATE TABLE IF NOT EXISTS w (p INT NOT NULL)', 'CREATE TABLE IF NOT EXISTS t (p INT NOT NULL)']
    for text in ddl:
        ast = parse(text)
        if ast is None:
            pdist['unparsed:ddl'] += 1
            continue
        pdist['stmt:ddl-shape'] += 1
        P.check(dict(kind='dml', text=text, feats=['ddl-shape']), ast, ('sqlite', 'mysql', 'postgres'))
    # (b'') round 5: nested expression sub-queries whose FROM lists repeat an enclosing entry (same alias / un-aliased), all dialects
    t_mark = time.time()
    for c in fs_cases:
        ast = c.get('ast') or parse(c['text'])
        if ast is None:
            pdist['unparsed:nested-scope'] += 1
            continue
        if c.get('strs'):
            # same two rules as for the generated statements of (c): a literal the parser decoded differently is C04's matter;
            # backslashes in literals mean something else to MySQL (C07), so those mysql / postgres renderings are not judged
            got = sorted({n.value for n in ast_nodes(ast) if isinstance(n, A.Constant) and isinstance(n.value, str)})
            if not set(c['strs']) <= set(got) or not set(got) <= set(c['strs']) | {'x', '1', '%', '_', '1%', ''}:
                pdist['parser-literal-mismatch(C04)'] += 1
                continue
        pdist['stmt:nested-scope'] += 1
        for ft in c['feats']:
            pdist['feat:' + ft.split(':')[0]] += 1
        multi = not any('\\' in v for v in c.get('strs', ()))
        P.check({k: v for k, v in c.items() if k != 'ast'}, ast, DIALECTS if multi else ('sqlite',))
    timing['round5-scope-probe'] = round(time.time() - t_mark, 2)
    # (b3) round 6: ONE renderer object per dialect answers whole sessions of statements, among them statements whose rendering
    #      fails part-way (through the silent fail-back and through with_failback=False).  After every call: are its instance
    #      attributes what they were before the call; is its answer the answer of a new object.  A differing answer to a
    #      statement is executed against the original (row order under a top-level ORDER BY included).
    t_mark = time.time()
    hrng = common.rng_for(chk.seed, 'C06/history')
    hg = X.Gen(hrng)
    hd = collections.Counter()
    div, first = 0, None
    n_sess, n_len = (12, 60) if deep else ((6, 40) if broken else (3, 32))
    for d in DIALECTS:
        for sess in range(n_sess):
            R1 = renderer(d)
            history = []
            reported = 0
            for step in range(n_len):
                r = hrng.random()
                if r < 0.34:
                    text, tag = hg.poison()
                    c = dict(kind='poison', text=text, feats=['poison:' + tag])
                elif r < 0.74:
                    c = hg.ordered_select()
                else:
                    c = hg.statement()
                ast = parse(c['text'])
                if ast is None:
                    hd['unparsed'] += 1
                    continue
                failback = hrng.random() < 0.6
                before = obj_state(R1)
                got = answer(R1, ast, failback)
                after = obj_state(R1)
                want = answer(renderer(d), ast, failback)
                chk.count(('H', d, sess, step, c['text']))
                hd['poison' if c['kind'] == 'poison' else 'ordered' if c.get('ordered') else 'other'] += 1
                if c['kind'] == 'poison':
                    hd['poison@' + c['feats'][0].split('@')[1]] += 1
                    hd['poison-raises' if answer(renderer(d), ast, False)[0] == 'raise' else 'poison-RENDERS'] += 1
                here = dict(text=c['text'], failback=failback)
                changed = state_diff(before, after)
                if changed:
                    div += 1
                    hd['STATE-CHANGED'] += 1
                    first = first or dict(what='instance attributes of the renderer differ after a call', dialect=d, statement=c['text'],
                                          with_failback=failback, outcome=got, attributes={k: dict(before=v[0], after=v[1]) for k, v in changed.items()},
                                          model='no attribute is assigned after __init__ (RenderHistory.actual; Restoring)')
                if got != want:
                    div += 1
                    hd['ANSWER-DEPENDS-ON-HISTORY'] += 1
                    hist = shrink_history(d, history, ast, failback, got) if reported < 4 else list(history)
                    first = first or dict(what='the answer differs from the answer of a new renderer object', dialect=d, statement=c['text'],
                                          with_failback=failback, after=[h['text'] for h in hist][-3:], answer=got, new_object=want)
                    if reported < 4 and c['kind'] != 'poison' and got[0] == 'text':
                        reported += 1
                        rend = got[1].replace('`', '"') if d != 'sqlite' else got[1]
                        ex = c.get('exec_text') or c['text']
                        diff = P.differs(c, ex, rend)
                        if isinstance(diff, dict) and not (d != 'sqlite' and diff['kind'] == 'rendered-text-fails'):
                            hd['DIFFERS-IN-EFFECT:' + diff['kind']] += 1
                            chk.fail(dict(desc='the answer of a renderer object depends on what it answered before (%s): %s' % (diff['kind'], c['text'][:160]),
                                          kind='history', stmt_kind=c['kind'], dialect=d, history=hist, text=c['text'], exec_text=c.get('exec_text'),
                                          failback=failback, rendered=rend, rendered_fresh=want[1], ordered=c.get('ordered', False),
                                          alias=c.get('alias', []), order_keys=c.get('order_keys'), order_cols=c.get('order_cols'),
                                          state_changed_by_last_call=changed, diff={k: v for k, v in diff.items() if k != 'db'}, db=diff['db'],
                                          feats=c.get('feats', []), kf=None, **{'class': 'unexplained:history:' + diff['kind']}))
                else:
                    hd['same-as-new-object'] += 1
                history.append(here)
    chk.corr_result('render-history', sum(v for k, v in hd.items() if k in ('poison', 'ordered', 'other')), div, first, dict(hd))
    timing['round6-history'] = round(time.time() - t_mark, 2)
    # (c) generated statements
    for i in range(n_stmt):
        c = g.statement()
        pd = 'mindsdb' if i % 5 else ('mysql', 'sqlite')[(i // 5) % 2]
        ast = parse(c['text'], pd)
        if ast is None:
            pdist['unparsed:' + pd] += 1
            continue
        if c.get('strs'):
            # the parser must have decoded every literal to the value it denotes in SQL, otherwise the difference is a
            # lexer/parser matter (C04), not a rendering one
            got = sorted({n.value for n in ast_nodes(ast) if isinstance(n, A.Constant) and isinstance(n.value, str)})
            if not set(c['strs']) <= set(got) or not set(got) <= set(c['strs']) | {'x', '1', '%', '_', '1%', ''}:
                pdist['parser-literal-mismatch(C04)'] += 1
                continue
        for ft in c['feats']:
            pdist['feat:' + ft.split(':')[0]] += 1
        pdist['stmt:' + c['kind']] += 1
        # backslashes in literals mean something else to MySQL (C07): their mysql / postgres renderings are not judged here
        multi = i % 3 == 0 and not any('\\' in v for v in c.get('strs', ()))
        P.check(c, ast, ('sqlite', 'mysql', 'postgres') if multi else ('sqlite',))
    for db in dbs:
        db.close()
    chk.notes.append(dict(probe=dict(P.stats), generated=dict(pdist), timing=timing))
    os.makedirs(os.path.join(common.ROOT, 'replays'), exist_ok=True)
    json.dump([f for f in chk.failures if not f.get('kf')][:300], open(os.path.join(common.ROOT, 'replays', 'C06_new_failures.json'), 'w'),
              indent=1, default=str)
    chk.samples.append(dict(probe_stats=dict(P.stats)))
    chk.samples.append(dict(generated=dict(pdist)))
    for f in chk.failures[:2]:
        chk.samples.append(dict(failure=f['desc'][:200], rendered=f.get('rendered'), kf=f.get('kf')))
    chk.samples.append(dict(theorem='C06 : ∀ env db q, evalQuery env db (saRender q) = evalQuery env db q'))
    chk.samples.append(dict(theorem='C06_nested : ∀ env db n, evalNested env db (saRenderN n) = evalNested env db n'))
    chk.samples.append(dict(theorem='C06_dml : ∀ env db s, exec env db (saStmt s) = exec env db s;  C06_ddl_contents : insertAll (cols.map saSpec) rows new = insertAll (cols.map srcSpec) rows new'))
    chk.samples.append(dict(theorem='C06_grouping : inFragment F e → saOk π e → parse sqliteP (print (saParens π e)) = some (saParens π e) ∧ strip (saParens π e) = strip e'))
    return chk.finish(assumptions=ASSUME, extra=dict(probe=dict(P.stats), generated=dict(pdist), timing_s=timing))


def X_lit(v):
    return 'NULL' if v is None else str(v)


def replay(path):
    data = json.load(open(path))
    f = data.get('failure')
    if not f:
        print(json.dumps(data, indent=1)[:3000])
        return 1
    if f.get('kind') == 'gexpr':
        conn = sqlite3.connect(':memory:')
        t = to_tuple(f['gtree'])
        q = __import__('mindsdb_sql.parser.ast', fromlist=['x'])
        r = render(renderer('sqlite'), q.Select(targets=[q.Star()], from_table=q.Identifier('t'), where=g_ast(t)))
        rsql = r.split(' WHERE ', 1)[1]
        env = tuple(f['diff']['env'])
        a, b = value_of(conn, g_sql(t), env), value_of(conn, rsql, env)
        print('REPRODUCED' if a != b else 'not reproduced', g_sql(t), '=>', rsql, 'env', env, 'orig', a, 'rendered', b)
        return 1 if a != b else 0
    if f.get('kind') == 'expr':
        conn = sqlite3.connect(':memory:')
        t = to_tuple(f['expr_tree'])
        q = __import__('mindsdb_sql.parser.ast', fromlist=['x'])
        r = render(renderer('sqlite'), q.Select(targets=[q.Star()], from_table=q.Identifier('t'), where=expr_ast(t)))
        rsql = r.split(' WHERE ', 1)[1]
        env = tuple(f['diff']['env'])
        a, b = value_of(conn, expr_sql(t), env), value_of(conn, rsql, env)
        print('REPRODUCED' if a != b else 'not reproduced', expr_sql(t), '=>', rsql, 'env', env, 'orig', a, 'rendered', b)
        return 1 if a != b else 0
    if f.get('kind') == 'setop-tree':
        return replay_setop(f)
    if f.get('kind') == 'history':
        return replay_history(f)
    if f.get('from_ast'):
        ast = join_ast(f['from_ast']['join_type'], f['from_ast']['on'])
    else:
        ast = parse(f['text'])
    rend = render(renderer(f.get('dialect', 'sqlite')), ast)
    if not isinstance(rend, str):
        rend = norm_ws(renderer(f.get('dialect', 'sqlite')).get_string(ast))
    if isinstance(rend, str) and f.get('dialect', 'sqlite') != 'sqlite':
        rend = rend.replace('`', '"')
    content = {k: tuple(tuple(r) for r in v) for k, v in f['db'].items()}
    db = X.Db(content)
    case = dict(kind=f['kind'], ordered=f.get('ordered', False), alias=[tuple(a) for a in f.get('alias', [])])
    ex = f.get('exec_text') or f['text']
    if f['kind'] == 'select':
        d = X.compare_select(db, ex, rend, case['ordered'], case['alias'], f.get('order_keys'), f.get('order_cols'))
    else:
        d = X.compare_dml(content, ex, rend)
    bad = isinstance(d, dict)
    print('REPRODUCED' if bad else 'not reproduced', '\n original:', f['text'],
          ('\n (executed in sqlite as: %s)' % ex) if ex != f['text'] else '', '\n rendered:', rend, '\n db:', content, '\n', d)
    return 1 if bad else 0


def replay_history(f):
    """a NEW renderer object answers the statements of `history` (outcomes ignored, as a caller with the fail-back would),
    then the statement; its answer is compared with the answer of another new object and executed against the original"""
    d = f['dialect']
    R = renderer(d)
    apply_history(R, f['history'])
    ast = parse(f['text'])
    got, want = answer(R, ast, f.get('failback', False)), answer(renderer(d), ast, f.get('failback', False))
    content = {k: tuple(tuple(r) for r in v) for k, v in f['db'].items()}
    diff = None
    if got[0] == 'text':
        rend = got[1].replace('`', '"') if d != 'sqlite' else got[1]
        ex = f.get('exec_text') or f['text']
        if f.get('stmt_kind', 'select') == 'select':
            diff = X.compare_select(X.Db(content), ex, rend, f.get('ordered', False), [tuple(a) for a in f.get('alias', [])],
                                    f.get('order_keys'), f.get('order_cols'))
        else:
            diff = X.compare_dml(content, ex, rend)
    bad = got != want and isinstance(diff, dict)
    print('REPRODUCED' if bad else 'not reproduced', '\n dialect:', d, '\n a new renderer object first answered:')
    for h in f['history']:
        print('    [%s] %s' % ('get_string(q)' if h['failback'] else 'get_string(q, with_failback=False)', h['text']))
    print(' then the statement:', f['text'], '\n its answer:       ', got[1], '\n a new object answers:', want[1], '\n db:', content, '\n', diff)
    return 1 if bad else 0


def replay_setop(f):
    """a set-operation tree: the statement is parsed (or built) again, rendered for the dialect by the real renderer, and
    its rows are compared with the rows of the tree -- sqlite: both executed by sqlite3 (the tree in its derived-table
    form); mysql / postgres: the rendered text read the way the dialect reads a compound (Lean `denote`)"""
    t = to_tuple(f['tree_t'])
    d = f['dialect']
    leaf_no = lambda n: X.SETOP_LEAVES.index(str(n)) if str(n) in X.SETOP_LEAVES else None
    ast = parse(f['text'])
    if ast is None or X.tree_of_ast(ast, leaf_no) != t:
        ast = X.tree_ast(t, lambda i: parse(X.SETOP_LEAVES[i]))
    R = renderer(d)
    rend = render(R, ast)
    content = {k: tuple(tuple(r) for r in v) for k, v in f['db'].items()}
    st = X.setop_structure(rend, [render(R, parse(x)) for x in X.SETOP_LEAVES]) if isinstance(rend, str) else '?!'
    line = 'SX %s ; %s ; %s' % (tabs_txt(content), X.tree_line(t), ' ; '.join([st if not st.startswith('?') else 'S0'] * 3))
    parts = [x.strip() for x in common.lean_run('Render', [line])[0].split(' | ')]
    want = bag(parse_rows(parts[4]))
    j = DIALECTS.index(d)
    got, how = None, ''
    if d == 'sqlite' and isinstance(rend, str):
        db = X.Db(content)
        ref, ex = X.run_select(db.conns[0], X.tree_ref_sql(t)), X.run_select(db.conns[0], rend)
        how = 'sqlite3: tree as %s -> %s; rendered -> %s' % (X.tree_ref_sql(t), ref[1], ex[1])
        bad = ex[0] != 'ok' or bag(ex[1]) != bag(ref[1]) or bag(ex[1]) != want
    elif st.startswith('?'):
        bad, how = True, 'the renderer raised / printed something else: %s' % (rend,)
    else:
        got = parts[5 + j]
        how = 'text structure %s read by %s (Lean denote) -> %s' % (st, d, got)
        bad = got == '!' or bag(parse_rows(got)) != want
    print('REPRODUCED' if bad else 'not reproduced', '\n statement:', f['text'], '\n tree:', X.tree_line(t), '\n dialect:', d,
          '\n rendered:', rend, '\n db:', content, '\n rows of the tree:', want, '\n', how)
    return 1 if bad else 0


def to_tuple(x):
    return tuple(to_tuple(y) for y in x) if isinstance(x, list) else x
