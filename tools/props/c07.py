"""C07 — constants render as inert, exact literals in every output path."""
import json, sqlite3
from tools.harness import common, lexh
from tools.harness.common import DIALECTS
from tools.harness.lexh import enc, dec
from tools.props import c04
from tools.harness import slots as slotsh

ID = 'C07'
TARGETS = ['MindsVerif.Props.C07']
THEOREMS = ['MindsVerif.Props.C07.' + n for n in (
    'C07_std', 'C07_mysql', 'C07_codec_for_target', 'C07_paths', 'C07_structure', 'C07_tostring_codec',
    'C07_fallback_mysql', 'C07_fallback_std_partial', 'C07_review_fallback_witness', 'C07_old_tostring_partial', 'C07_old_witness_mysql', 'C07_old_witness_mysql_value',
    'C07_old_witness_tostring',
    # round 5: float constants through Constant.get_string (Model/FloatPos.lean)
    'C07_float_positional', 'C07_float_plain', 'C07_witness_float_fixed_decimals',
    # round 6: literals cut into pieces (Model/LitChunk.lean)
    'C07_chunks_sound', 'C07_witness_split_after_doubling')]
ASSUME = [
    'standard-SQL string literal rules (LitRender.stdLex: only the doubled quote is special) — validated in this run against sqlite3 '
    '(SELECT <literal> returns the value); PostgreSQL (standard_conforming_strings), MSSQL, Oracle are assumed to follow the same rules',
    'MySQL string literal rules with backslash escapes (LitRender.mysqlLex, default sql_mode, NO_BACKSLASH_ESCAPES off) are taken from the MySQL manual; '
    'no engine offline (mysqlLex / mysqlEsc are tied only to a Python mirror written from the manual)',
    'Snowflake (the name is rendered with the Oracle dialect) is taken to read backslash escapes inside single-quoted constants '
    '(Snowflake SQL reference); not verifiable offline — the mismatch is an open known finding, not a theorem',
    'renderLiteral transcribes quote_literal behind the LiteralCompiler override; tie = correspondence with SqlalchemyRender.get_string for '
    'every accepted construction path (string names, dialect classes of every driver sub-dialect, URL-derived classes); which codec a path '
    'uses is probed data (Gen/RenderPaths.lean) checked by the kernel obligation C07_paths',
    'the default get_string(ast) falls back to str(ast) when the renderer refuses a tree: driven by the fallback probe (construction paths x '
    'refused trees x special constants); theorems C07_fallback_mysql / _std_partial, the complement is an open known finding',
    'Codec.constantToString / readString (the library codec) are tied to the code by the C04 run',
    'non-string constants: bool, NULL, dates, ints are delegated to SQLAlchemy / str() and covered by the typed and the exact-number probes only; '
    'floats: float_to_str is hand-modelled FROM THE repr TEXT ON (Model/FloatPos.lean; tie = `float-print` stream over floats of all magnitudes), '
    'repr(float) and float(text) are CPython\'s (shortest round-trip repr, correctly rounded reading, float(repr(x)) == x) and are trusted; the '
    'SQLAlchemy renderings of floats (repr, exponent form) are covered by the exact-number probe only; inf / nan have no SQL literal and are outside',
]
RENDER_DIALECTS = ('mysql', 'postgres', 'postgresql', 'sqlite', 'mssql', 'oracle')
STD = ('postgres', 'postgresql', 'sqlite', 'mssql', 'oracle')
POSITIONS = ('select', 'where', 'in', 'insert', 'update')
SPECIAL = ["\\' OR 1=1 -- ", "it's", "%s", "%%", ":x", ":1", "a;b", "--", "/*", "*/", "a\nb", "\r\n", "\t", "''", "'", "\\", "\\\\",
           "\\'", "x\\", '"', '""', "`", "?", "{}", "{0}", "%(a)s", "\U0001f600", "中文", "a\x00b", "\\n", "\\0", "\\Z", "\\%", "\\_",
           "' OR '1'='1", "'; DROP TABLE t; --", "é", "a'b'c", "a''b", " ", ""]


# ---- Python mirrors of the two target readers (independent of the Lean text, compared with it on every run)
def std_lex(s):
    if not s or s[0] != "'":
        return None
    i, out = 1, []
    while i < len(s):
        c = s[i]
        if c == "'":
            if i + 1 < len(s) and s[i + 1] == "'":
                out.append("'")
                i += 2
            else:
                return ''.join(out), s[i + 1:]
        else:
            out.append(c)
            i += 1
    return None


MYSQL_ESC = {'n': '\n', 't': '\t', 'r': '\r', '0': '\x00', 'b': '\x08', 'Z': '\x1a', '%': '\\%', '_': '\\_'}


def mysql_lex(s):
    if not s or s[0] != "'":
        return None
    i, out = 1, []
    while i < len(s):
        c = s[i]
        if c == '\\':
            if i + 1 >= len(s):
                return None
            out.append(MYSQL_ESC.get(s[i + 1], s[i + 1]))
            i += 2
        elif c == "'":
            if i + 1 < len(s) and s[i + 1] == "'":
                out.append("'")
                i += 2
            else:
                return ''.join(out), s[i + 1:]
        else:
            out.append(c)
            i += 1
    return None


def read_value_expr(s, reader, concat='||'):
    """a string-valued expression of the target: literal | NAME(expr) | (expr) | expr <concat> expr, e.g. Oracle's
    `(TO_CLOB('..') || TO_CLOB('..'))` for a text that does not fit one literal.  (value, rest) or None"""
    def term(s):
        s = s.lstrip(' ')
        if s.startswith("'"):
            return reader(s)
        m = _re.match(r'(?:[A-Za-z_][A-Za-z_0-9]*)?\(', s)
        if not m:
            return None
        r = expr(s[m.end():])
        if r is None:
            return None
        rest = r[1].lstrip(' ')
        return (r[0], rest[1:]) if rest.startswith(')') else None

    def expr(s):
        r = term(s)
        while r is not None and r[1].lstrip(' ').startswith(concat):
            r2 = term(r[1].lstrip(' ')[len(concat):])
            if r2 is None:
                return None
            r = (r[0] + r2[0], r2[1])
        return r
    return expr(s)


def build(position, c):
    from mindsdb_sql.parser import ast as A
    I = A.Identifier
    if position == 'select':
        c.alias = I('x')
        return A.Select(targets=[c])
    if position == 'where':
        return A.Select(targets=[I('a')], from_table=I('t'), where=A.BinaryOperation('=', args=[I('a'), c]))
    if position == 'in':
        return A.Select(targets=[I('a')], from_table=I('t'),
                        where=A.BinaryOperation('in', args=[I('a'), A.Tuple([c, A.Constant(7)])]))
    if position == 'insert':
        return A.Insert(table=I('t'), columns=[I('a')], values=[[c]])
    if position == 'update':
        return A.Update(table=I('t'), update_columns={'a': c}, where=A.BinaryOperation('=', args=[I('b'), A.Constant(1)]))
    raise ValueError(position)


_frames = {}


_PATHS = {}
_TARGET = {}


def ctor_arg(dialect):
    """constructor argument of a construction path: a plain dialect name, or a label name:/class:/url: of
    tools/harness/renderpaths.py"""
    if ':' not in dialect:
        return dialect
    if not _PATHS:
        from tools.harness import renderpaths
        _PATHS.update(renderpaths.construction_paths())
    return _PATHS[dialect]


def new_renderer(dialect):
    from mindsdb_sql.render.sqlalchemy_render import SqlalchemyRender
    return SqlalchemyRender(ctor_arg(dialect))


def bs_target(dialect):
    """the TARGET engine of this construction path reads backslash as an escape (MySQL family incl. MariaDB);
    decided from SQLAlchemy's class hierarchy, not from the library"""
    if dialect not in _TARGET:
        from tools.harness import renderpaths
        r = new_renderer(dialect)
        _TARGET[dialect] = (renderpaths.backslash_target(r, dialect), r.dialect.name)
    return _TARGET[dialect][0]


_CODEC = {}


def path_codec(dialect):
    """codec the live renderer was observed to use for this construction path (the probe that also generates
    Gen/RenderPaths.lean): True = MySQL spelling (backslashes doubled).  The `render` correspondence checks that the path
    uses exactly `renderLiteral <this codec>` for every value; that the codec is the one the target needs is the Lean
    obligation C07_paths and the probe's reader."""
    if not _CODEC:
        from tools.harness import renderpaths
        for (label, accepted, dname, target, codec) in renderpaths.probe_all():
            if accepted:
                _CODEC[label] = codec == 'mysql'
    return _CODEC[dialect if ':' in dialect else 'name:' + dialect]


def render(dialect, position, value):
    from mindsdb_sql.parser.ast import Constant
    return new_renderer(dialect).get_string(build(position, Constant(value)), with_failback=False)


def frame(dialect, position):
    """(prefix, suffix) of the rendered statement around the literal, from a benign value"""
    k = (dialect, position)
    if k not in _frames:
        try:
            s = render(dialect, position, 'QZQ')
            i = s.index("'QZQ'")
            _frames[k] = (s[:i], s[i + 5:])
        except Exception:
            # the statement shape itself is not renderable for this dialect whatever the value is
            # (oracle: multi-row INSERT): not a matter of C07
            _frames[k] = None
    return _frames[k]


def probe_render(dialect, position, v):
    """the rendered statement = frame with one literal that the target's reader reads back as v, structure unchanged"""
    if frame(dialect, position) is None:
        return None, None
    try:
        sql = render(dialect, position, v)
    except Exception as e:
        return None, dict(kind='render', desc='rendering Constant(%r) for %s/%s raises %s' % (v, dialect, position, type(e).__name__),
                          dialect=dialect, position=position, value=v, classes=[], **{'class': 'render-exc/%s' % type(e).__name__})
    pre, suf = frame(dialect, position)
    reader = mysql_lex if bs_target(dialect) else std_lex
    ok = sql.startswith(pre)
    lit = None
    if ok:
        r = reader(sql[len(pre):]) if sql[len(pre):len(pre) + 1] == "'" else \
            read_value_expr(sql[len(pre):], reader, '+' if 'mssql' in dialect.lower() else '||')
        ok = r is not None and r[0] == v and r[1] == suf
        if suf and sql.endswith(suf):
            lit = sql[len(pre):len(sql) - len(suf)]
        elif not suf:
            lit = sql[len(pre):]
    if ok:
        return lit, None
    cls = []
    if bs_target(dialect) and '\\' in v:
        if dialect.lower() in ('name:snowflake', 'snowflake'):
            cls = ['snowflake-backslash']
        else:
            cls = ['mariadb-backslash'] if _TARGET[dialect][1] == 'mariadb' else ['mysql-backslash']
    show = lambda t: t if len(t) < 300 else '%s …(%d characters)… %s' % (t[:80], len(t), t[-120:])
    return lit, dict(kind='render', desc='%s rendering of Constant(%s) in %s position is %s: the %s reader does not read the value back / structure changes'
                     % (dialect, show(repr(v)), position, show(repr(sql)), 'MySQL' if bs_target(dialect) else 'standard-SQL'), dialect=dialect,
                     position=position, value=v, sql=sql, classes=cls, **{'class': 'render/%s/%s' % (dialect, '+'.join(cls) or 'NEW')})


def probe_sqlite_engine(conn, position, v):
    """execute the sqlite rendering in sqlite3: the engine must see exactly the value"""
    if '\x00' in v:
        return None
    try:
        sql = render('sqlite', position, v)
        conn.execute('DROP TABLE IF EXISTS t')
        conn.execute('CREATE TABLE t (a, b)')
        if position in ('where', 'in'):
            conn.execute('INSERT INTO t (a, b) VALUES (?, 1)', (v,))
            got = [r[0] for r in conn.execute(sql).fetchall()]
            ok = got == [v]
        elif position == 'select':
            got = [r[0] for r in conn.execute(sql).fetchall()]
            ok = got == [v]
        elif position == 'insert':
            conn.execute(sql)
            got = [r[0] for r in conn.execute('SELECT a FROM t').fetchall()]
            ok = got == [v]
        else:
            conn.execute("INSERT INTO t (a, b) VALUES ('old', 1)")
            conn.execute("INSERT INTO t (a, b) VALUES ('keep', 2)")
            conn.execute(sql)
            got = [r[0] for r in conn.execute('SELECT a FROM t ORDER BY b').fetchall()]
            ok = got == [v, 'keep']
    except Exception as e:
        ok, got, sql = False, '%s: %s' % (type(e).__name__, e), locals().get('sql')
    if ok:
        return None
    return dict(kind='engine', desc='sqlite3 executing the sqlite rendering %r (%s position) of Constant(%r) sees %r' % (sql, position, v, got),
                dialect='sqlite', position=position, value=v, sql=sql, classes=[], **{'class': 'engine/sqlite/NEW'})


def probe_tostring(dialect, position, v):
    """to_string() of a statement holding the constant, read by the library's own parser: same structure, same value"""
    from mindsdb_sql import parse_sql
    from mindsdb_sql.parser.ast import Constant
    if position == 'select':
        return None
    node = build(position, Constant(v))
    ref = build(position, Constant(v))
    try:
        txt = node.to_string()
        back = parse_sql(txt, dialect)
        ok = back.to_tree() == ref.to_tree()
    except Exception as e:
        ok, back, txt = False, type(e).__name__, locals().get('txt')
    if ok:
        return None
    lit = Constant(v).to_string()
    sp = lexh.spec_scan(lit, "'", True)
    if sp is None or sp[1] != '' or lexh.denote(sp[0], "'") != v:
        cls = ['print-backslash'] if not lexh.enc_ok(v) else []
    else:
        cls = ['requote:' + c for c in c04.literal_classes(dialect, "'", sp[0])]
    return dict(kind='tostring', desc='to_string() of the %s statement with Constant(%r) is %r, not read back by the %s parser as the same tree'
                % (position, v, txt, dialect), dialect=dialect, position=position, value=v, text=txt, classes=cls,
                **{'class': 'tostring/%s/%s' % (dialect, '+'.join(cls) or 'NEW')})



# ------------------------------------------------------------------ several constants / typed constants per statement
import datetime as _dt
import re as _re

TZ2 = _dt.timezone(_dt.timedelta(hours=2))
TYPED = [
    [1, True, 1.0, '1'], [True, 1, 1.0], [1.0, 1, True], [0, False, 0.0, '0'], [False, 0.0, 0], [0.0, False, 0],
    ['x', 'x', 'X'], ['1', 1, '1.0', 1.0], [2, 2.0, '2', 2], [True, False, True, 1, 0], [None, 0, False, ''], [1, None, True],
    [_dt.date(2020, 1, 2), _dt.datetime(2020, 1, 2), _dt.datetime(2020, 1, 2, 0, 0, 0, 1)],
    [_dt.datetime(2020, 1, 2, 3, 4, 5, 678901), _dt.datetime(2020, 1, 2, 3, 4, 5), _dt.datetime(2020, 1, 2, 3, 4, 5, tzinfo=TZ2)],
    [_dt.datetime(1999, 12, 31, 23, 59, 59, 999999, tzinfo=_dt.timezone.utc), _dt.datetime(2024, 2, 29, 12, 0, 0, 5, tzinfo=TZ2)],
    [_dt.timedelta(days=1, seconds=5, microseconds=7), _dt.timedelta(seconds=5), _dt.timedelta(days=-1), _dt.timedelta(0)],
    [_dt.date(1, 1, 1), _dt.date(9999, 12, 31), 1, '2020-01-02'],
]
BOOL_AS_INT = ('sqlite', 'mssql', 'oracle')


def build_multi(position, values, null_node=False):
    from mindsdb_sql.parser import ast as A
    I = A.Identifier
    cs = [A.NullConstant() if (v is None and null_node) else A.Constant(v) for v in values]
    if position == 'select':
        for i, c in enumerate(cs):
            c.alias = I('x%d' % i)
        return A.Select(targets=cs)
    if position == 'where':
        e = None
        for i, c in enumerate(cs):
            b = A.BinaryOperation('=', args=[I('c%d' % i), c])
            e = b if e is None else A.BinaryOperation('and', args=[e, b])
        return A.Select(targets=[I('a')], from_table=I('t'), where=e)
    if position == 'in':
        return A.Select(targets=[I('a')], from_table=I('t'), where=A.BinaryOperation('in', args=[I('a'), A.Tuple(cs)]))
    if position == 'insert':
        return A.Insert(table=I('t'), columns=[I('c%d' % i) for i in range(len(cs))], values=[cs])
    if position == 'update':
        return A.Update(table=I('t'), update_columns={'c%d' % i: c for i, c in enumerate(cs)},
                        where=A.BinaryOperation('=', args=[I('b'), I('d')]))
    raise ValueError(position)


def split_top(s, sep):
    """split on `sep` outside single-quoted literals (doubled quotes toggle twice)"""
    out, cur, inq, i = [], [], False, 0
    while i < len(s):
        if s[i] == "'":
            inq = not inq
        if not inq and s.startswith(sep, i):
            out.append(''.join(cur)); cur = []; i += len(sep)
            continue
        cur.append(s[i]); i += 1
    out.append(''.join(cur))
    return out


def extract_literals(position, sql):
    """the literal texts of a statement built by build_multi, in order (None = shape not recognised)"""
    s = _re.sub(r'\s*\n\s*', ' ', sql).strip()
    s = _re.sub(r' FROM DUAL$', '', s)
    try:
        if position == 'select':
            body = s[len('SELECT '):]
            return [_re.split(r' AS ', p, flags=_re.I)[0].strip() for p in split_top(body, ', ')]
        if position == 'where':
            body = _re.split(r' WHERE ', s, 1, flags=_re.I)[1]
            return [_re.split(r'\s*=\s*', p, 1)[1].strip() for q in split_top(body, ' AND ') for p in split_top(q, ' and ')]
        if position == 'in':
            body = _re.split(r' IN \(', s, 1, flags=_re.I)[1]
            assert body.endswith(')')
            return [p.strip() for p in split_top(body[:-1], ', ')]
        if position == 'insert':
            body = _re.split(r'VALUES\s*\(', s, 1, flags=_re.I)[1]
            assert body.endswith(')')
            return [p.strip() for p in split_top(body[:-1], ', ')]
        if position == 'update':
            body = _re.split(r' SET ', s, 1, flags=_re.I)[1]
            body = split_top(split_top(body, ' WHERE ')[0], ' where ')[0]
            return [_re.split(r'\s*=\s*', p, 1)[1].strip() for p in split_top(body, ', ')]
    except Exception:
        return None
    return None


def read_literal(text, reader):
    """(type name, python value) of one literal text"""
    if text.startswith("'"):
        r = reader(text)
        return ('str', r[0]) if r is not None and r[1] == '' else ('bad', text)
    u = text.upper()
    if u in ('TRUE', 'FALSE'):
        return ('bool', u == 'TRUE')
    if u == 'NULL':
        return ('null', None)
    if _re.fullmatch(r'-?[0-9]+', text):
        return ('int', int(text))
    if _re.fullmatch(r'-?[0-9]+\.[0-9]*([eE][-+]?[0-9]+)?|-?[0-9]+[eE][-+]?[0-9]+', text):
        return ('float', float(text))
    return ('bad', text)


def literal_ok(v, got, dialect):
    """does the literal read back as the value AND type of its own Constant"""
    t, x = got
    if v is None:
        return t == 'null'
    if isinstance(v, bool):
        if dialect in BOOL_AS_INT:      # these dialects have no boolean literal: 1 / 0 is their spelling
            return t == 'int' and x == int(v)
        return t == 'bool' and x == v
    if isinstance(v, int):
        return t == 'int' and x == v
    if isinstance(v, float):
        return t == 'float' and x == v
    if isinstance(v, str):
        return t == 'str' and x == v
    if t != 'str':
        return False
    try:
        if isinstance(v, _dt.datetime):
            b = _dt.datetime.fromisoformat(x)
            return b == v and b.tzinfo == v.tzinfo and b.utcoffset() == v.utcoffset() and b.microsecond == v.microsecond
        if isinstance(v, _dt.date):
            return _dt.date.fromisoformat(x) == v
        if isinstance(v, _dt.timedelta):
            return x == str(v)
    except Exception:
        return False
    return False


def probe_typed(dialect, position, values, path, renderer=None):
    """every literal of a statement with several constants reads back as the value and type of its own Constant.
    path: 'render' (SqlalchemyRender, optionally a shared instance) or 'tostring'"""
    if path == 'render':
        if frame(dialect, position) is None:
            return None
        from mindsdb_sql.render.sqlalchemy_render import SqlalchemyRender
        r = renderer or new_renderer(dialect)
        try:
            sql = r.get_string(build_multi(position, values), with_failback=False)
        except Exception as e:
            sql, lits = '%s: %s' % (type(e).__name__, str(e)[:100]), None
        else:
            lits = extract_literals(position, sql)
        reader = mysql_lex if bs_target(dialect) else std_lex
        dd = dialect
    else:
        sql = build_multi(position, values, null_node=True).to_string()
        lits = extract_literals(position, sql)
        reader, dd = std_lex_bs, 'tostring'
    bad = None
    if lits is None or len(lits) != len(values):
        bad = ('shape', lits)
    else:
        for i, (v, l) in enumerate(zip(values, lits)):
            got = read_literal(l, reader)
            if not literal_ok(v, got, dd):
                bad = (i, l, got)
                break
    if bad is None:
        return None
    return dict(kind='typed', path=path, shared=renderer is not None, desc='%s %s statement with constants %r is %r: literal %r is not read back as its own constant'
                % (dialect if path == 'render' else 'to_string', position, values, sql, bad), dialect=dialect, position=position,
                values=[repr(v) for v in values], sql=sql, classes=[], **{'class': 'typed/%s/%s/NEW' % (path, type(values[bad[0]]).__name__ if isinstance(bad[0], int) else 'shape')})


def std_lex_bs(s):
    """reader of the library's own printed literal: quotes are escaped with a backslash (Constant.get_string),
    dates with a doubled quote; benign values only in this stream"""
    r = lexh.spec_scan(s, "'", True)
    return None if r is None else (lexh.denote(r[0], "'"), r[1])



# ------------------------------------------------------------------ round 5: numbers of every magnitude, exact read-back
def number_values(rng, quick):
    """floats of all magnitudes (every decade of the double range, shortest / 16-17 digit mantissas, denormals, both
    signs, repr with and without exponent) and integers of all sizes"""
    import struct
    fl = [0.5, 1234.5678, 1e-05, 1e+16, 2.5e+20, 1.5e-07, 1.2345678e-05, 6.62607015e-34, 2.2250738585072014e-308, 5e-324,
          1.7976931348623157e308, 0.1 + 0.2, 1e22, 1e23, 9999999999999998.0, 1e15, 0.0001, 9.999e-05, 123456789.12345679, 0.0, -0.0,
          1e-4, 1.0000000000000002e-05, 9.999999999999999e-05, 1e+17, 4.9e-324, 2.5e-07, 1 / 3, 2 / 3 * 1e-10, 1e100, 1e-100, 7e-10]
    for e in range(-323, 309, 4 if quick else 1):
        e2 = e + rng.randrange(4) if quick else e
        for m in ('1', '1.5', '1.2345678', '9.999999999999999', repr(rng.uniform(1, 10))):
            try:
                v = float('%se%d' % (m, min(e2, 308)))
            except Exception:
                continue
            if v == v and v not in (float('inf'), float('-inf')):
                fl.append(v if rng.random() < 0.8 else -v)
    for _ in range(200 if quick else 5000):
        v = struct.unpack('<d', bytes(rng.randrange(256) for _ in range(8)))[0]
        if v == v and abs(v) != float('inf'):
            fl.append(v)
    ints = [0, 1, -1, 7, -5, 2 ** 31, -2 ** 31, 2 ** 63, 2 ** 64 + 1, 10 ** 30, -(10 ** 20), 10 ** 15, 10 ** 16, 123456789012345678]
    ints += [rng.randrange(10 ** rng.randint(1, 40)) * rng.choice([1, 1, -1]) for _ in range(40 if quick else 1000)]
    return list(dict.fromkeys((type(v).__name__, repr(v)) for v in fl + ints)), fl + ints


def locate(position, q):
    """the node built by build_multi(position, [v]) in a parsed statement"""
    if position == 'select':
        return q.targets[0]
    if position == 'where':
        return q.where.args[1]
    if position == 'in':
        n = q.where.args[1]         # a one-element list `IN (x)` is read as the parenthesised expression x
        return n.items[0] if type(n).__name__ == 'Tuple' else n
    if position == 'insert':
        return q.values[0][0]
    if position == 'update':
        return q.update_columns['c0']
    raise ValueError(position)


def const_state(node):
    """(type name, repr) of the number a node denotes; `-<number>` counts as the negative number"""
    cls = type(node).__name__
    if cls == 'Constant' and type(node.value) in (int, float):
        return (type(node.value).__name__, repr(node.value))
    if cls == 'UnaryOperation' and str(node.op) == '-' and len(node.args) == 1 and type(node.args[0]).__name__ == 'Constant' \
            and type(node.args[0].value) in (int, float):
        return (type(node.args[0].value).__name__, repr(-node.args[0].value))
    return ('other', cls)


def probe_number_exact(path, dialect, position, v):
    """an int / float constant in a statement reads back as EXACTLY that number (same type, floats bit-exact).
    path 'tostring': the library's own text — one literal of the library grammar (`-?digits` / `-?digits.digits`, no
    exponent form exists there) AND parse_sql(dialect) finds the same number at the same place;
    path 'render': the SQLAlchemy text for `dialect` — one numeric literal (exponent form allowed) with exactly this value"""
    want = (type(v).__name__, repr(v))
    why = None
    try:
        if path == 'tostring':
            sql = build_multi(position, [v]).to_string()
        else:
            if frame(dialect, position) is None:
                return None
            sql = new_renderer(dialect).get_string(build_multi(position, [v]), with_failback=False)
    except Exception as e:
        sql, why = None, 'printing raises %s: %s' % (type(e).__name__, e)
    if why is None:
        lits = extract_literals(position, sql)
        if lits is None or len(lits) != 1:
            why = 'expected one literal, found %r' % (lits,)
        else:
            lit = lits[0]
            if path == 'tostring':
                pat = r'-?[0-9]+' if isinstance(v, int) else r'-?[0-9]+\.[0-9]+'
            else:
                pat = r'-?[0-9]+' if isinstance(v, int) else r'-?[0-9]+\.[0-9]*([eE][-+]?[0-9]+)?|-?[0-9]+[eE][-+]?[0-9]+'
            if not _re.fullmatch(pat, lit):
                why = 'the literal %r is not a numeric literal of the target grammar' % lit
            else:
                got = (type(v).__name__, repr(type(v)(lit)))
                if got != want:
                    why = 'the literal %s denotes %s' % (lit if len(lit) < 60 else lit[:60] + '…', got[1])
    if why is None and path == 'tostring':
        from mindsdb_sql import parse_sql
        try:
            got = const_state(locate(position, parse_sql(sql, dialect)))
        except Exception as e:
            got = ('exc', type(e).__name__)
        if got != want:
            why = 'the %s parser reads %r there' % (dialect, got)
    if why is None:
        return None
    shown = sql if sql is None or len(sql) < 200 else sql[:200] + '…'
    return dict(kind='number', path=path, desc='%s constant %r in %s position, %s: %r — %s' % (
        type(v).__name__, v, position, 'to_string()' if path == 'tostring' else dialect + ' rendering', shown, why),
        dialect=dialect, position=position, value=repr(v), sql=sql, classes=[],
        **{'class': 'number/%s/%s/NEW' % (path, type(v).__name__)})



# ------------------------------------------------------------------ round 6: every constant slot through the renderers
_slot_frames = {}
_slot_trees = {}


def slot_frame(slot, dialect):
    """(prefix, suffix) of the rendering of the slot's statement around the literal of the sentinel, or None when the
    renderer does not take this statement / the sentinel is not rendered as one literal"""
    k = (slot['sig'], dialect)
    if k not in _slot_frames:
        try:
            t = _slot_trees.setdefault(slot['sig'], slotsh.fill(slot, slotsh.SENT)[0])
            slotsh.put(t, slot['path'], slot['kind'], slotsh.SENT)
            sql = new_renderer(dialect).get_string(t, with_failback=False)
            lit = "'%s'" % slotsh.SENT
            # (an un-aliased constant in a select list is ALSO echoed as the column label, quoted as an identifier by
            # SQLAlchemy: a second, non-literal occurrence of the data — not a literal slot, left to the label quoting of C06/C17)
            _slot_frames[k] = (sql[:sql.index(lit)], sql[sql.index(lit) + len(lit):]) if sql.count(lit) == 1 and sql.count(slotsh.SENT) == 1 else None
        except Exception:
            _slot_frames[k] = None
    return _slot_frames[k]


def probe_slot_render(slot, dialect, v):
    """the value placed in ANY constant slot of a renderable statement (VALUES cell, SET value, CASE branch, function
    argument, IN list, BETWEEN bound, sub-select, HAVING, …) is rendered as one literal (or string expression) that the
    target's reader reads back as exactly the value, the rest of the statement unchanged"""
    fr = slot_frame(slot, dialect)
    if fr is None:
        return None
    pre, suf = fr
    t = _slot_trees[slot['sig']]
    slotsh.put(t, slot['path'], slot['kind'], v)
    reader = mysql_lex if bs_target(dialect) else std_lex
    try:
        sql = new_renderer(dialect).get_string(t, with_failback=False)
        ok = sql.startswith(pre)
        if ok:
            r = reader(sql[len(pre):]) if sql[len(pre):len(pre) + 1] == "'" else \
                read_value_expr(sql[len(pre):], reader, '+' if 'mssql' in dialect.lower() else '||')
            ok = r is not None and r[0] == v and r[1] == suf
    except Exception as e:
        sql, ok = '%s: %s' % (type(e).__name__, str(e)[:100]), False
    if ok:
        return None
    cls = []
    if bs_target(dialect) and '\\' in v and dialect.lower() in ('name:snowflake', 'snowflake'):
        cls = ['snowflake-backslash']
    show = lambda x: x if len(x) < 300 else '%s …(%d characters)… %s' % (x[:80], len(x), x[-120:])
    return dict(kind='slot-render', desc='%s rendering of %r holding %s in the slot %s is %s: the %s reader does not read the value back there / structure changes'
                % (dialect, slot['sql'][:120], show(repr(v)), slot['sig'], show(repr(sql)), 'MySQL' if bs_target(dialect) else 'standard-SQL'),
                dialect=dialect, sig=slot['sig'], sql0=slot['sql'], path=slot['path'], slotkind=slot['kind'], sdialect=slot['dialect'], value=v, classes=cls,
                **{'class': 'slot-render/%s/%s/%s' % (dialect, slot['sig'], '+'.join(cls) or 'NEW')})

# ------------------------------------------------------------------ fallback path of the default get_string(ast)
def refused_shapes():
    """trees the renderer refuses (NotImplementedError / SQLAlchemyError), each holding one constant"""
    from mindsdb_sql.parser import ast as A
    I = A.Identifier
    return {
        'select-list/4-part-table': lambda c: A.Select(targets=[c], from_table=I('a.b.c.d')),
        'where/4-part-table': lambda c: A.Select(targets=[I('x')], from_table=I('a.b.c.d'), where=A.BinaryOperation('=', args=[I('x'), c])),
        'in/4-part-table': lambda c: A.Select(targets=[I('x')], from_table=I('a.b.c.d'),
                                              where=A.BinaryOperation('in', args=[I('x'), A.Tuple([c, A.Constant(7)])])),
        'insert/4-part-table': lambda c: A.Insert(table=I('a.b.c.d'), columns=[I('x')], values=[[c]]),
        'update/4-part-table': lambda c: A.Update(table=I('a.b.c.d'), update_columns={'x': c}),
        'cast/unknown-type': lambda c: A.Select(targets=[A.TypeCast(type_name='foo', arg=c)], from_table=I('t')),
    }


_fb_frames = {}


def fallback_frame(dialect, shape):
    """(prefix, suffix) of what the DEFAULT get_string returns for a refused tree, or None when the renderer does
    not refuse this shape for this construction path (then the ordinary rendering streams cover it)"""
    from mindsdb_sql.parser.ast import Constant
    k = (dialect, shape)
    if k not in _fb_frames:
        mk = refused_shapes()[shape]
        r = new_renderer(dialect)
        try:
            r.get_string(mk(Constant('QZQ')), with_failback=False)
            _fb_frames[k] = None
        except Exception:
            try:
                s = r.get_string(mk(Constant('QZQ')))
                i = s.index("'QZQ'")
                _fb_frames[k] = (s[:i], s[i + 5:])
            except Exception:
                _fb_frames[k] = None
    return _fb_frames[k]


def probe_fallback(dialect, shape, v, conn=None):
    """default get_string(ast) on a tree the renderer refuses: the text handed to the caller must still contain one
    literal that the TARGET's reader reads back as v, with the statement structure unchanged"""
    from mindsdb_sql.parser.ast import Constant
    fr = fallback_frame(dialect, shape)
    if fr is None:
        return None
    pre, suf = fr
    sql = new_renderer(dialect).get_string(refused_shapes()[shape](Constant(v)))
    reader = mysql_lex if bs_target(dialect) else std_lex
    ok = sql.startswith(pre)
    if ok:
        r = reader(sql[len(pre):])
        ok = r is not None and r[0] == v and r[1] == suf
    engine = None
    if ok and conn is not None and '\x00' not in v and not bs_target(dialect):
        # a real standard-SQL engine on the literal as printed
        lit = sql[len(pre):len(sql) - len(suf)] if suf else sql[len(pre):]
        try:
            rows = conn.execute('SELECT ' + lit).fetchall()
            engine = rows
            ok = rows == [(v,)]
        except Exception as e:
            engine, ok = '%s: %s' % (type(e).__name__, e), False
    if ok:
        return None
    cls = ['fallback-library-codec'] if (not bs_target(dialect)) and ("'" in v or '\\' in v) else []
    return dict(kind='fallback', desc='%s: default get_string() on a tree the renderer refuses (%s) with Constant(%r) returns %r: the %s reader '
                'does not read the value back / structure changes%s' % (dialect, shape, v, sql, 'MySQL' if bs_target(dialect) else 'standard-SQL',
                                                                      '' if engine is None else ' (sqlite3: %r)' % (engine,)),
                dialect=dialect, shape=shape, value=v, sql=sql, classes=cls,
                **{'class': 'fallback/%s/%s' % ('bs-target' if bs_target(dialect) else 'std-target', '+'.join(cls) or 'NEW')})


def kf_match(k, f):
    sig = k.get('signature', {})
    if sig.get('kind') != f.get('kind'):
        return False
    if 'dialects' in sig and f.get('dialect') not in sig['dialects']:
        return False
    return any(c == sig.get('class') or c.startswith(sig.get('class_prefix', '\x00')) for c in f.get('classes', []))


def other_constants():
    import datetime as dt
    return [0, 1, -5, 2 ** 40, 1.5, 0.25, True, False, None, dt.date(2020, 1, 2), dt.datetime(2020, 1, 2, 3, 4, 5)]


def run(chk):
    chk.kf[:] = list({k['id']: k for k in chk.kf}.values())   # a proposed (changed) entry replaces the committed one
    quick = chk.tier == 'quick'
    broken = bool(chk.broken())
    deep = not quick
    rng = common.rng_for(chk.seed, 'C07/values')
    values = list(lexh.strings_upto(3 if quick else 4)) + SPECIAL
    n_rand = 250 if quick and not broken else (1500 if quick else 6000)
    values += [lexh.random_string(rng, 1, 10, alphabet=lexh.ALPHABET + lexh.UNICODE_POOL) for _ in range(n_rand)]
    seen = set()
    values = [v for v in values if not (v in seen or seen.add(v))]
    dist = {}

    def bump(k):
        dist[k] = dist.get(k, 0) + 1

    def record(f):
        chk.classify(f, kf_match)
        chk.fail(f)

    # model lines
    lines, metas = [], []
    for v in values:
        lines.append('render - ' + enc(v)); metas.append(('render', (False, v)))
        lines.append('render mysql ' + enc(v)); metas.append(('render', (True, v)))
        mlit = "'" + v.replace("'", "''").replace('\\', '\\\\') + "'"
        lines.append('mysqllex - ' + enc(mlit + ' x')); metas.append(('mysqllex', mlit + ' x'))
        lit = "'" + v.replace("'", "''") + "'"
        lines.append('stdlex - ' + enc(lit + ' x')); metas.append(('stdlex', lit + ' x'))
        lines.append('mysqllex - ' + enc(lit + ' x')); metas.append(('mysqllex', lit + ' x'))
        lines.append('stdlex - ' + enc("'" + v)); metas.append(('stdlex', "'" + v))
        lines.append('mysqllex - ' + enc("'" + v)); metas.append(('mysqllex', "'" + v))
    outs = None
    try:
        outs = common.lean_run('Lex', lines)
    except Exception as e:
        chk.oblige('corr:driver', 'correspondence', False, 'driver failed: %s' % e)
    model_lit = {}
    conn = sqlite3.connect(':memory:')
    corr = {k: [0, 0, None] for k in ('render', 'readers', 'sqlite3-std')}

    def diverge(name, info):
        corr[name][1] += 1
        if corr[name][2] is None:
            corr[name][2] = info
    if outs is not None:
        for (kind, arg), o in zip(metas, outs):
            if kind == 'render':
                model_lit[arg] = dec(o)
            else:
                corr['readers'][0] += 1
                r = (std_lex if kind == 'stdlex' else mysql_lex)(arg)
                mine = 'none' if r is None else 'some %s %s' % (enc(r[0]), enc(r[1]))
                if mine != o:
                    diverge('readers', dict(reader=kind, text=arg, lean=o, python=mine))
                # the standard-SQL model against a real engine: SELECT <literal> returns what the model reads
                if kind == 'stdlex' and r is not None and r[1] == ' x' and '\x00' not in arg:
                    corr['sqlite3-std'][0] += 1
                    try:
                        got = conn.execute('SELECT ' + arg[:-2]).fetchone()[0]
                    except Exception as e:
                        got = 'ERR %s' % e
                    if got != r[0]:
                        diverge('sqlite3-std', dict(text=arg[:-2], model=r[0], sqlite3=got))
    # real renderer: correspondence with the model + impl-level probes
    for v in values:
        for d in RENDER_DIALECTS:
            for pos in POSITIONS:
                chk.count(('render', d, pos, v))
                lit, f = probe_render(d, pos, v)
                bump('render/%s/%s' % (d, 'fail' if f else 'ok'))
                if f:
                    record(f)
                if outs is not None and lit is not None:
                    corr['render'][0] += 1
                    if lit != model_lit[(path_codec(d), v)]:
                        diverge('render', dict(dialect=d, position=pos, value=v, model=model_lit[(path_codec(d), v)], impl=lit))
        for pos in POSITIONS:
            f = probe_sqlite_engine(conn, pos, v)
            bump('engine/sqlite/%s' % ('fail' if f else 'ok'))
            if f:
                record(f)
        for d in DIALECTS:
            for pos in POSITIONS:
                f = probe_tostring(d, pos, v)
                bump('tostring/%s/%s' % (d, 'fail' if f else 'ok'))
                if f:
                    record(f)
    # every other way of constructing the renderer (dialect classes of all driver sub-dialects, classes from URLs,
    # accepted name variants): the codec must be the one of the TARGET; reduced value set, two positions
    from tools.harness import renderpaths
    path_values = SPECIAL + list(lexh.strings_upto(2 if quick else 3))
    seenp = set()
    path_values = [v for v in path_values if not (v in seenp or seenp.add(v))]
    rows = renderpaths.probe_all()
    dist['paths/accepted'] = sum(1 for r in rows if r[1])
    dist['paths/rejected'] = sum(1 for r in rows if not r[1])
    for (label, accepted, dname, target, codec) in rows:
        if not accepted or label in ('name:' + d for d in RENDER_DIALECTS):
            continue
        for v in path_values:
            for pos in ('where', 'insert'):
                chk.count(('render-path', label, pos, v))
                lit, f = probe_render(label, pos, v)
                bump('render-path/%s/%s' % (label.split(':')[0], 'fail' if f else 'ok'))
                if f:
                    record(f)
                if outs is not None and lit is not None and v in seen:
                    corr['render'][0] += 1
                    if lit != model_lit[(path_codec(label), v)]:
                        diverge('render', dict(dialect=label, position=pos, value=v, model=model_lit[(path_codec(label), v)], impl=lit))
    # round 6 (a): LONG values (around every power-of-two / round-number length up to 10 000, quote / backslash at and
    # around the boundary of the value and of the rendered text) x every dialect NAME the constructor accepts (names are read
    # from the code at run time) x one construction path per (dialect.name, target, codec) group; 4 long values for every
    # other accepted path.  The model side (renderLiteral + the two readers) gets the boundary-straddling value of every
    # bound in run-length form through the second driver.
    longs = lexh.long_values()
    groups, long_paths = {}, []
    for (label, accepted, dname, target, codec) in rows:
        if accepted:
            groups.setdefault((dname, target, codec), label)
            if label.startswith('name:'):
                long_paths.append(label)
    long_paths = list(dict.fromkeys(long_paths + list(groups.values())))
    other_paths = [r[0] for r in rows if r[1] and r[0] not in long_paths]
    few = [longs[0 + 8 * lexh.LONG_BOUNDS.index(4000)], longs[3 + 8 * lexh.LONG_BOUNDS.index(4000)],
           longs[0 + 8 * lexh.LONG_BOUNDS.index(8192)], longs[6 + 8 * lexh.LONG_BOUNDS.index(8000)]]
    model_long = {}
    long_model_values = [longs[8 * i] for i in range(len(lexh.LONG_BOUNDS))] + [longs[8 * i + 3] for i in range(0, len(lexh.LONG_BOUNDS), 3)]
    lines_l, metas_l = [], []
    for v in long_model_values:
        for codec in (False, True):
            lines_l.append('renderx %s %s' % ('mysql' if codec else '-', lexh.enc_rle(v))); metas_l.append(('renderx', codec, v))
        lit = "'" + v.replace("'", "''") + "'"
        lines_l.append('stdlexx - ' + lexh.enc_rle(lit + ' x')); metas_l.append(('stdlexx', lit + ' x'))
        mlit = "'" + v.replace("'", "''").replace('\\', '\\\\') + "'"
        lines_l.append('mysqllexx - ' + lexh.enc_rle(mlit + ' x')); metas_l.append(('mysqllexx', mlit + ' x'))
    chk._long_lines = (lines_l, metas_l)
    long_jobs = [(label, v) for label in long_paths for v in longs] + [(label, v) for label in other_paths for v in few]
    for i, (label, v) in enumerate(long_jobs):
        pos = POSITIONS[i % 5]
        chk.count(('render-long', label, pos, len(v), v[-60:]))
        lit, f = probe_render(label, pos, v)
        bump('render-long/%s/%s' % (label.split(':')[0], 'fail' if f else 'ok'))
        if f:
            record(f)
        if lit is not None:
            model_long.setdefault((path_codec(label), v), []).append((label, pos, lit))
    chk._model_long = model_long
    # round 6 (b): every constant slot of every renderable statement (tools/harness/slots.py) x the six dialect names
    slot_list, slot_stats = slotsh.discover()
    SLOT_VALUES = ["\\' OR 1=1 -- ", "it's", "%s", ":x", "a;b", "--", "a\nb", "\r\n", "\t", "''", "'", "\\", "\\\\", "\\'", "x\\", '"', "?", "%(a)s",
                   "' OR '1'='1", "", "\xa0", "\u200b", 'x' * 3999 + "'" + 'y' * 20, 'x' * 4001]
    n_slots_r = 0
    for sl in slot_list:
        if sl['type'] != 'str':
            continue
        for d in RENDER_DIALECTS:
            if slot_frame(sl, d) is None:
                bump('slot-render/not-renderable')
                continue
            n_slots_r += 1
            for v in SLOT_VALUES:
                chk.count(('slot-render', sl['sig'], d, v[-40:], len(v)))
                f = probe_slot_render(sl, d, v)
                bump('slot-render/%s' % ('fail' if f else 'ok'))
                if f:
                    record(f)
    dist['slot-render/slot-dialect-pairs'] = n_slots_r
    # the fallback of the default get_string(ast): construction paths x refused trees x special constants
    fb_values = SPECIAL + list(lexh.strings_upto(2 if quick else 3))
    seenf = set()
    fb_values = [v for v in fb_values if not (v in seenf or seenf.add(v))]
    fb_paths = list(RENDER_DIALECTS) + ['name:Snowflake', 'class:mysql.pymysql', 'class:postgresql.psycopg2', 'class:sqlite.pysqlite',
                                        'url:mariadb+pymysql', 'class:mssql.pyodbc', 'class:oracle.oracledb']
    for d in fb_paths:
        for shape in refused_shapes():
            if fallback_frame(d, shape) is None:
                bump('fallback/not-refused')
                continue
            for v in fb_values:
                chk.count(('fallback', d, shape, v))
                f = probe_fallback(d, shape, v, conn if d in ('sqlite', 'class:sqlite.pysqlite') else None)
                bump('fallback/%s/%s' % ('bs' if bs_target(d) else 'std', 'fail' if f else 'ok'))
                if f:
                    record(f)
    # several constants of different types but equal Python value in one statement, and in two statements rendered by the
    # SAME renderer instance; date / datetime (microseconds, tzinfo) / timedelta constants; all positions
    from mindsdb_sql.render.sqlalchemy_render import SqlalchemyRender
    rngt = common.rng_for(chk.seed, 'C07/typed')
    atoms = [0, 1, True, False, 0.0, 1.0, '0', '1', 'x', None, 2, 2.0, _dt.date(2020, 1, 2), _dt.datetime(2020, 1, 2, 3, 4, 5, 6),
             _dt.datetime(2020, 1, 2, 3, 4, 5, 6, tzinfo=TZ2), _dt.timedelta(days=2, microseconds=1), 0.1 + 0.2]
    typed = list(TYPED) + [[rngt.choice(atoms) for _ in range(rngt.randint(2, 5))] for _ in range(20 if quick else 400)]
    for d in RENDER_DIALECTS:
        for pos in POSITIONS:
            shared = SqlalchemyRender(d)
            for vals in typed:
                for rr in (None, shared):
                    chk.count(('typed', d, pos, repr(vals), rr is None))
                    f = probe_typed(d, pos, vals, 'render', rr)
                    bump('typed/render/%s' % ('fail' if f else 'ok'))
                    if f:
                        record(f)
    for pos in POSITIONS:
        for vals in typed:
            f = probe_typed('-', pos, vals, 'tostring')
            bump('typed/tostring/%s' % ('fail' if f else 'ok'))
            if f:
                record(f)
    from mindsdb_sql.parser.ast import Constant
    # round 5: ints / floats of every magnitude.  (a) `float-print`: the model of float_to_str on the repr text vs
    # Constant.to_string(); (b) exact read-back of the literal in every position, through to_string() + the three library
    # parsers and through the six SQLAlchemy renderings
    rngn = common.rng_for(chk.seed, 'C07/numbers')
    _, numbers = number_values(rngn, quick)
    floats = [v for v in numbers if isinstance(v, float)]
    corr_f = [0, 0, None]
    outs_f = None
    try:
        lines_l, metas_l = chk._long_lines
        outs_all = common.lean_run('LexHist', ['fpos - ' + enc(repr(v)) for v in floats] + lines_l)
        outs_f, outs_l = outs_all[:len(floats)], outs_all[len(floats):]
        corr_l = {'render-long': [0, 0, None], 'readers-long': [0, 0, None]}
        for meta, o in zip(metas_l, outs_l):
            if meta[0] == 'renderx':
                _, codec, v = meta
                want = lexh.dec_rle(o)
                for (label, pos, lit) in chk._model_long.get((codec, v), []):
                    corr_l['render-long'][0] += 1
                    if lit != want:
                        corr_l['render-long'][1] += 1
                        if corr_l['render-long'][2] is None:
                            corr_l['render-long'][2] = dict(dialect=label, position=pos, length=len(v), value_tail=v[-70:],
                                                            model=want[:40] + ' … ' + want[-90:], impl=lit[:40] + ' … ' + lit[-90:])
            else:
                corr_l['readers-long'][0] += 1
                r = (std_lex if meta[0] == 'stdlexx' else mysql_lex)(meta[1])
                mine = 'none' if r is None else 'some %s %s' % (lexh.enc_rle(r[0]), lexh.enc_rle(r[1]))
                if mine != o:
                    corr_l['readers-long'][1] += 1
                    if corr_l['readers-long'][2] is None:
                        corr_l['readers-long'][2] = dict(reader=meta[0], text_tail=meta[1][-80:], lean=o[-120:], python=mine[-120:])
        for name, (cases, div, first) in corr_l.items():
            chk.corr_result(name, cases, div, first)
    except Exception as e:
        chk.oblige('corr:driver-float', 'correspondence', False, 'driver failed: %s' % e)
    if outs_f is not None:
        for v, o in zip(floats, outs_f):
            corr_f[0] += 1
            m = o.split(' ')
            real = Constant(v).to_string()
            if dec(m[0]) != real or m[1] == 'noparse' or m[2] != 'float':
                corr_f[1] += 1
                if corr_f[2] is None:
                    corr_f[2] = dict(value=repr(v), model=dec(m[0])[:120], kind=m[1], token=m[2], impl=real[:120])
        chk.corr_result('float-print', corr_f[0], corr_f[1], corr_f[2])
    for i, v in enumerate(numbers):
        full = i < 40 or i % (9 if quick else 3) == 0       # all positions x all dialects for a sub-stream
        for pos in (POSITIONS if full else (POSITIONS[i % 5],)):
            for d in (DIALECTS if full else (DIALECTS[i % 3],)):
                chk.count(('number', 'tostring', d, pos, repr(v)))
                f = probe_number_exact('tostring', d, pos, v)
                bump('number/tostring/%s' % ('fail' if f else 'ok'))
                if f:
                    record(f)
        if full or i % 4 == 0:
            for d in (RENDER_DIALECTS if i < 40 else (RENDER_DIALECTS[i % 6],)):
                pos = POSITIONS[(i // 3) % 5]
                chk.count(('number', 'render', d, pos, repr(v)))
                f = probe_number_exact('render', d, pos, v)
                bump('number/render/%s' % ('fail' if f else 'ok'))
                if f:
                    record(f)
    # non-string constants: rendering must not raise and must not contain a quote issue (dates are quoted ISO text)
    for v in other_constants():
        for d in RENDER_DIALECTS:
            for pos in ('where', 'insert'):
                if frame(d, pos) is None:
                    continue
                try:
                    sql = render(d, pos, v)
                    ok = sql.count("'") % 2 == 0
                except Exception as e:
                    ok, sql = False, type(e).__name__
                if not ok:
                    record(dict(kind='render', desc='non-string constant %r renders as %r for %s' % (v, sql, d), dialect=d,
                                position=pos, value=repr(v), classes=[], **{'class': 'render-nonstring/NEW'}))
    if outs is not None:
        for name, (cases, div, first) in corr.items():
            chk.corr_result(name, cases, div, first, dist if name == 'render' else None)
    for k in chk.kf:
        if k.get('status') == 'open':
            f = replay_witness(k['witness'])
            if f and kf_match(k, f):
                k['_reproduced'] = True
    chk.samples.append(dict(theorem="C07_std: ∀ v rest, rest.head? ≠ some ''' → stdLex (renderLiteral v ++ rest) = some (v, rest)"))
    chk.samples.append(dict(value=SPECIAL[0], mysql=render('mysql', 'where', SPECIAL[0]), postgres=render('postgres', 'where', SPECIAL[0])))
    return chk.finish(assumptions=ASSUME, extra=dict(impl_probe=dist))


def replay_witness(w):
    if w['kind'] == 'render':
        return probe_render(w['dialect'], w['position'], w['value'])[1]
    if w['kind'] == 'tostring':
        return probe_tostring(w['dialect'], w['position'], w['value'])
    if w['kind'] == 'fallback':
        return probe_fallback(w['dialect'], w['shape'], w['value'], sqlite3.connect(':memory:') if 'sqlite' in w['dialect'] else None)
    if w['kind'] == 'typed':
        vals = [eval(x, {'datetime': _dt}) for x in w['values']]
        if w.get('shared') and w['path'] == 'render':
            # the failure was seen with a renderer instance that had rendered other statements before
            from mindsdb_sql.render.sqlalchemy_render import SqlalchemyRender
            r = SqlalchemyRender(w['dialect'])
            for prior in list(TYPED) + [vals]:
                f = probe_typed(w['dialect'], w['position'], prior, 'render', r)
                if f:
                    return f
            return None
        return probe_typed(w['dialect'], w['position'], vals, w['path'])
    if w['kind'] == 'engine':
        return probe_sqlite_engine(sqlite3.connect(':memory:'), w['position'], w['value'])
    if w['kind'] == 'slot-render':
        found = [sl for sl in slotsh.discover()[0] if sl['sig'] == w['sig']]
        sl = found[0] if found else dict(sig=w['sig'], dialect=w['sdialect'], sql=w['sql0'], path=w['path'], kind=w['slotkind'], type='str')
        return probe_slot_render(sl, w['dialect'], w['value'])
    if w['kind'] == 'number':
        return probe_number_exact(w['path'], w['dialect'], w['position'], eval(w['value'], {}))
    return None


def replay(path):
    data = json.load(open(path))
    f = data.get('failure')
    if not f:
        print(json.dumps(data, indent=1)[:3000])
        return 1
    r = replay_witness(f)
    print('REPRODUCED' if r else 'not reproduced', json.dumps(f, ensure_ascii=False)[:600])
    return 1 if r else 0
