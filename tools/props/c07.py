"""C07 — constants render as inert, exact literals in every output path."""
import json, sqlite3
from tools.harness import common, lexh
from tools.harness.common import DIALECTS
from tools.harness.lexh import enc, dec
from tools.props import c04

ID = 'C07'
TARGETS = ['MindsVerif.Props.C07']
THEOREMS = ['MindsVerif.Props.C07.' + n for n in (
    'C07_std', 'C07_mysql', 'C07_structure', 'C07_tostring_partial', 'C07_witness_mysql', 'C07_witness_mysql_value',
    'C07_witness_tostring')]
ASSUME = [
    'standard-SQL string literal rules (LitRender.stdLex: only the doubled quote is special) — validated in this run against sqlite3 '
    '(SELECT <literal> returns the value); PostgreSQL (standard_conforming_strings), MSSQL, Oracle are assumed to follow the same rules',
    'MySQL string literal rules with backslash escapes (LitRender.mysqlLex, default sql_mode, NO_BACKSLASH_ESCAPES off) are taken from the MySQL manual; no engine offline',
    'renderLiteral transcribes the LiteralCompiler override; tie = correspondence with SqlalchemyRender.get_string for 6 dialect names x 5 positions',
    'non-string constants (int, float, bool, NULL, dates) are delegated to SQLAlchemy / str(): covered by the probe only',
]
RENDER_DIALECTS = ('mysql', 'postgres', 'postgresql', 'sqlite', 'mssql', 'oracle')
STD = ('postgres', 'postgresql', 'sqlite', 'mssql', 'oracle')
POSITIONS = ('select', 'where', 'in', 'insert', 'update')
SPECIAL = ["\\' OR 1=1 -- ", "it's", "%s", "%%", ":x", ":1", "a;b", "--", "/*", "*/", "a\nb", "\r\n", "\t", "''", "'", "\\", "\\\\",
           "\\'", "x\\", '"', '""', "`", "?", "{}", "{0}", "%(a)s", "\U0001f600", "中文", "a\x00b", "\\n", "\\0", "\\Z", "\\%", "\\_",
           "' OR '1'='1", "'; DROP TABLE t; --", "é", "a'b'c", "a''b", " ", ""]


# ---- Python mirrors of the two target readers (independent of the Lean text, compared with it on every run)
def std_lex(s):
    if not s or s[0] != "'":
        return None
    i, out = 1, []
    while i < len(s):
        c = s[i]
        if c == "'":
            if i + 1 < len(s) and s[i + 1] == "'":
                out.append("'")
                i += 2
            else:
                return ''.join(out), s[i + 1:]
        else:
            out.append(c)
            i += 1
    return None


MYSQL_ESC = {'n': '\n', 't': '\t', 'r': '\r', '0': '\x00', 'b': '\x08', 'Z': '\x1a', '%': '\\%', '_': '\\_'}


def mysql_lex(s):
    if not s or s[0] != "'":
        return None
    i, out = 1, []
    while i < len(s):
        c = s[i]
        if c == '\\':
            if i + 1 >= len(s):
                return None
            out.append(MYSQL_ESC.get(s[i + 1], s[i + 1]))
            i += 2
        elif c == "'":
            if i + 1 < len(s) and s[i + 1] == "'":
                out.append("'")
                i += 2
            else:
                return ''.join(out), s[i + 1:]
        else:
            out.append(c)
            i += 1
    return None


def build(position, c):
    from mindsdb_sql.parser import ast as A
    I = A.Identifier
    if position == 'select':
        c.alias = I('x')
        return A.Select(targets=[c])
    if position == 'where':
        return A.Select(targets=[I('a')], from_table=I('t'), where=A.BinaryOperation('=', args=[I('a'), c]))
    if position == 'in':
        return A.Select(targets=[I('a')], from_table=I('t'),
                        where=A.BinaryOperation('in', args=[I('a'), A.Tuple([c, A.Constant(7)])]))
    if position == 'insert':
        return A.Insert(table=I('t'), columns=[I('a')], values=[[c]])
    if position == 'update':
        return A.Update(table=I('t'), update_columns={'a': c}, where=A.BinaryOperation('=', args=[I('b'), A.Constant(1)]))
    raise ValueError(position)


_frames = {}


def render(dialect, position, value):
    from mindsdb_sql.parser.ast import Constant
    from mindsdb_sql.render.sqlalchemy_render import SqlalchemyRender
    return SqlalchemyRender(dialect).get_string(build(position, Constant(value)), with_failback=False)


def frame(dialect, position):
    """(prefix, suffix) of the rendered statement around the literal, from a benign value"""
    k = (dialect, position)
    if k not in _frames:
        try:
            s = render(dialect, position, 'QZQ')
            i = s.index("'QZQ'")
            _frames[k] = (s[:i], s[i + 5:])
        except Exception:
            # the statement shape itself is not renderable for this dialect whatever the value is
            # (oracle: multi-row INSERT): not a matter of C07
            _frames[k] = None
    return _frames[k]


def probe_render(dialect, position, v):
    """the rendered statement = frame with one literal that the target's reader reads back as v, structure unchanged"""
    if frame(dialect, position) is None:
        return None, None
    try:
        sql = render(dialect, position, v)
    except Exception as e:
        return None, dict(kind='render', desc='rendering Constant(%r) for %s/%s raises %s' % (v, dialect, position, type(e).__name__),
                          dialect=dialect, position=position, value=v, classes=[], **{'class': 'render-exc/%s' % type(e).__name__})
    pre, suf = frame(dialect, position)
    reader = mysql_lex if dialect == 'mysql' else std_lex
    ok = sql.startswith(pre)
    lit = None
    if ok:
        r = reader(sql[len(pre):])
        ok = r is not None and r[0] == v and r[1] == suf
        if suf and sql.endswith(suf):
            lit = sql[len(pre):len(sql) - len(suf)]
        elif not suf:
            lit = sql[len(pre):]
    if ok:
        return lit, None
    cls = ['mysql-backslash'] if dialect == 'mysql' and '\\' in v else []
    return lit, dict(kind='render', desc='%s rendering of Constant(%r) in %s position is %r: the %s reader does not read the value back / structure changes'
                     % (dialect, v, position, sql, 'MySQL' if dialect == 'mysql' else 'standard-SQL'), dialect=dialect,
                     position=position, value=v, sql=sql, classes=cls, **{'class': 'render/%s/%s' % (dialect, '+'.join(cls) or 'NEW')})


def probe_sqlite_engine(conn, position, v):
    """execute the sqlite rendering in sqlite3: the engine must see exactly the value"""
    if '\x00' in v:
        return None
    try:
        sql = render('sqlite', position, v)
        conn.execute('DROP TABLE IF EXISTS t')
        conn.execute('CREATE TABLE t (a, b)')
        if position in ('where', 'in'):
            conn.execute('INSERT INTO t (a, b) VALUES (?, 1)', (v,))
            got = [r[0] for r in conn.execute(sql).fetchall()]
            ok = got == [v]
        elif position == 'select':
            got = [r[0] for r in conn.execute(sql).fetchall()]
            ok = got == [v]
        elif position == 'insert':
            conn.execute(sql)
            got = [r[0] for r in conn.execute('SELECT a FROM t').fetchall()]
            ok = got == [v]
        else:
            conn.execute("INSERT INTO t (a, b) VALUES ('old', 1)")
            conn.execute("INSERT INTO t (a, b) VALUES ('keep', 2)")
            conn.execute(sql)
            got = [r[0] for r in conn.execute('SELECT a FROM t ORDER BY b').fetchall()]
            ok = got == [v, 'keep']
    except Exception as e:
        ok, got, sql = False, '%s: %s' % (type(e).__name__, e), locals().get('sql')
    if ok:
        return None
    return dict(kind='engine', desc='sqlite3 executing the sqlite rendering %r (%s position) of Constant(%r) sees %r' % (sql, position, v, got),
                dialect='sqlite', position=position, value=v, sql=sql, classes=[], **{'class': 'engine/sqlite/NEW'})


def probe_tostring(dialect, position, v):
    """to_string() of a statement holding the constant, read by the library's own parser: same structure, same value"""
    from mindsdb_sql import parse_sql
    from mindsdb_sql.parser.ast import Constant
    if position == 'select':
        return None
    node = build(position, Constant(v))
    ref = build(position, Constant(v))
    try:
        txt = node.to_string()
        back = parse_sql(txt, dialect)
        ok = back.to_tree() == ref.to_tree()
    except Exception as e:
        ok, back, txt = False, type(e).__name__, locals().get('txt')
    if ok:
        return None
    lit = Constant(v).to_string()
    sp = lexh.spec_scan(lit, "'", True)
    if sp is None or sp[1] != '' or lexh.denote(sp[0], "'") != v:
        cls = ['print-backslash'] if not lexh.enc_ok(v) else []
    else:
        cls = ['requote:' + c for c in c04.literal_classes(dialect, "'", sp[0])]
    return dict(kind='tostring', desc='to_string() of the %s statement with Constant(%r) is %r, not read back by the %s parser as the same tree'
                % (position, v, txt, dialect), dialect=dialect, position=position, value=v, text=txt, classes=cls,
                **{'class': 'tostring/%s/%s' % (dialect, '+'.join(cls) or 'NEW')})


def kf_match(k, f):
    sig = k.get('signature', {})
    if sig.get('kind') != f.get('kind'):
        return False
    if 'dialects' in sig and f.get('dialect') not in sig['dialects']:
        return False
    return any(c == sig.get('class') or c.startswith(sig.get('class_prefix', '\x00')) for c in f.get('classes', []))


def other_constants():
    import datetime as dt
    return [0, 1, -5, 2 ** 40, 1.5, 0.25, True, False, None, dt.date(2020, 1, 2), dt.datetime(2020, 1, 2, 3, 4, 5)]


def run(chk):
    quick = chk.tier == 'quick'
    broken = bool(chk.broken())
    deep = not quick
    rng = common.rng_for(chk.seed, 'C07/values')
    values = list(lexh.strings_upto(3 if quick else 4)) + SPECIAL
    n_rand = 250 if quick and not broken else (1500 if quick else 6000)
    values += [lexh.random_string(rng, 1, 10, alphabet=lexh.ALPHABET + lexh.UNICODE_POOL) for _ in range(n_rand)]
    seen = set()
    values = [v for v in values if not (v in seen or seen.add(v))]
    dist = {}

    def bump(k):
        dist[k] = dist.get(k, 0) + 1

    def record(f):
        chk.classify(f, kf_match)
        chk.fail(f)

    # model lines
    lines, metas = [], []
    for v in values:
        lines.append('render - ' + enc(v)); metas.append(('render', (False, v)))
        lines.append('render mysql ' + enc(v)); metas.append(('render', (True, v)))
        mlit = "'" + v.replace("'", "''").replace('\\', '\\\\') + "'"
        lines.append('mysqllex - ' + enc(mlit + ' x')); metas.append(('mysqllex', mlit + ' x'))
        lit = "'" + v.replace("'", "''") + "'"
        lines.append('stdlex - ' + enc(lit + ' x')); metas.append(('stdlex', lit + ' x'))
        lines.append('mysqllex - ' + enc(lit + ' x')); metas.append(('mysqllex', lit + ' x'))
        lines.append('stdlex - ' + enc("'" + v)); metas.append(('stdlex', "'" + v))
        lines.append('mysqllex - ' + enc("'" + v)); metas.append(('mysqllex', "'" + v))
    outs = None
    try:
        outs = common.lean_run('Lex', lines)
    except Exception as e:
        chk.oblige('corr:driver', 'correspondence', False, 'driver failed: %s' % e)
    model_lit = {}
    conn = sqlite3.connect(':memory:')
    corr = {k: [0, 0, None] for k in ('render', 'readers', 'sqlite3-std')}

    def diverge(name, info):
        corr[name][1] += 1
        if corr[name][2] is None:
            corr[name][2] = info
    if outs is not None:
        for (kind, arg), o in zip(metas, outs):
            if kind == 'render':
                model_lit[arg] = dec(o)
            else:
                corr['readers'][0] += 1
                r = (std_lex if kind == 'stdlex' else mysql_lex)(arg)
                mine = 'none' if r is None else 'some %s %s' % (enc(r[0]), enc(r[1]))
                if mine != o:
                    diverge('readers', dict(reader=kind, text=arg, lean=o, python=mine))
                # the standard-SQL model against a real engine: SELECT <literal> returns what the model reads
                if kind == 'stdlex' and r is not None and r[1] == ' x' and '\x00' not in arg:
                    corr['sqlite3-std'][0] += 1
                    try:
                        got = conn.execute('SELECT ' + arg[:-2]).fetchone()[0]
                    except Exception as e:
                        got = 'ERR %s' % e
                    if got != r[0]:
                        diverge('sqlite3-std', dict(text=arg[:-2], model=r[0], sqlite3=got))
    # real renderer: correspondence with the model + impl-level probes
    for v in values:
        for d in RENDER_DIALECTS:
            for pos in POSITIONS:
                chk.count(('render', d, pos, v))
                lit, f = probe_render(d, pos, v)
                bump('render/%s/%s' % (d, 'fail' if f else 'ok'))
                if f:
                    record(f)
                if outs is not None and lit is not None:
                    corr['render'][0] += 1
                    if lit != model_lit[(d == 'mysql', v)]:
                        diverge('render', dict(dialect=d, position=pos, value=v, model=model_lit[(d == 'mysql', v)], impl=lit))
        for pos in POSITIONS:
            f = probe_sqlite_engine(conn, pos, v)
            bump('engine/sqlite/%s' % ('fail' if f else 'ok'))
            if f:
                record(f)
        for d in DIALECTS:
            for pos in POSITIONS:
                f = probe_tostring(d, pos, v)
                bump('tostring/%s/%s' % (d, 'fail' if f else 'ok'))
                if f:
                    record(f)
    # non-string constants: rendering must not raise and must not contain a quote issue (dates are quoted ISO text)
    from mindsdb_sql.parser.ast import Constant
    for v in other_constants():
        for d in RENDER_DIALECTS:
            for pos in ('where', 'insert'):
                if frame(d, pos) is None:
                    continue
                try:
                    sql = render(d, pos, v)
                    ok = sql.count("'") % 2 == 0
                except Exception as e:
                    ok, sql = False, type(e).__name__
                if not ok:
                    record(dict(kind='render', desc='non-string constant %r renders as %r for %s' % (v, sql, d), dialect=d,
                                position=pos, value=repr(v), classes=[], **{'class': 'render-nonstring/NEW'}))
    if outs is not None:
        for name, (cases, div, first) in corr.items():
            chk.corr_result(name, cases, div, first, dist if name == 'render' else None)
    for k in chk.kf:
        if k.get('status') == 'open':
            f = replay_witness(k['witness'])
            if f and kf_match(k, f):
                k['_reproduced'] = True
    chk.samples.append(dict(theorem="C07_std: ∀ v rest, rest.head? ≠ some ''' → stdLex (renderLiteral v ++ rest) = some (v, rest)"))
    chk.samples.append(dict(value=SPECIAL[0], mysql=render('mysql', 'where', SPECIAL[0]), postgres=render('postgres', 'where', SPECIAL[0])))
    return chk.finish(assumptions=ASSUME, extra=dict(impl_probe=dist))


def replay_witness(w):
    if w['kind'] == 'render':
        return probe_render(w['dialect'], w['position'], w['value'])[1]
    if w['kind'] == 'tostring':
        return probe_tostring(w['dialect'], w['position'], w['value'])
    if w['kind'] == 'engine':
        return probe_sqlite_engine(sqlite3.connect(':memory:'), w['position'], w['value'])
    return None


def replay(path):
    data = json.load(open(path))
    f = data.get('failure')
    if not f:
        print(json.dumps(data, indent=1)[:3000])
        return 1
    r = replay_witness(f)
    print('REPRODUCED' if r else 'not reproduced', json.dumps(f, ensure_ascii=False)[:600])
    return 1 if r else 0
