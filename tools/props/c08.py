"""C08 — executing a federated plan returns what the original query returns."""
import json, os, re, time

from tools.harness import common
from tools.harness import planexec as px, c08gen as g, c08cause as cz

ID = 'C08'
TARGETS = ['MindsVerif.Props.C08']
_T = 'MindsVerif.Props.C08.'
THEOREMS = [_T + n for n in (
    # main result and corollaries
    'C08_partial_model', 'C08_partial_model_nolimit', 'C08_partial_model_inner', 'C08_partial_model_left',
    'C08_partial_model_left_limit', 'C08_core', 'C08_post', 'C08_not_full',
    # T8.1 semi-join reduction
    'C08_T81_inner', 'C08_T81_left', 'C08_T81_third_table', 'C08_witness_semi_right', 'C08_witness_semi_full',
    'C08_regression_semi_kinds', 'C08_regression_semi_right', 'C08_regression_semi_full',
    # T8.2 filter pushdown (generic row combiner; pairs in the planner) and the composition over pairs
    'C08_T82_inner_right', 'C08_T82_inner_left', 'C08_T82_left_left', 'C08_T82_left_right',
    'C08_T82_collected', 'C08_T82_pushed', 'C08_T82_pushedK', 'C08_history_concat_hyp_forces_empty',
    'C08_partial', 'C08_partial_left', 'C08_partial_limit',
    'C08_regression_not_pushes_nothing', 'C08_regression_not', 'C08_regression_isnull_not_pushed', 'C08_regression_isnull',
    'C08_witness_isnull',
    # T8.3 LIMIT / OFFSET
    'C08_T83_limit_left', 'C08_T83_limit_left_left', 'C08_useLimit_two_tables', 'C08_useLimit_group_by', 'C08_useLimit_third',
    'C08_witness_limit_inner', 'C08_plan_limit_inner', 'C08_witness_limit_group', 'C08_witness_limit_where',
    'C08_regression_limit_where', 'C08_limit_pushed_when_where_applied',
    'C08_limit_inner_sound_if_total', 'C08_limit_inner_sound_if_one_to_one', 'C08_offset_left_sound_if_at_most_one',
    'C08_limit_offset_inner_outer_limit', 'C08_offset_left_outer_limit', 'C08_witness_offset_left',
    # n-table chains
    'C08_markNullable_spec', 'C08_nullableSide_eq_chain', 'C08_chain3_push_first', 'C08_chain3_flag',
    'C08_witness_chain3_isnull',
    # round 5 (i): select lists with aggregates at any depth
    'C08_agg_hasAgg_iff_subterm', 'C08_agg_topAgg_sound', 'C08_agg_topAgg_incomplete', 'C08_agg_partial_model',
    'C08_agg_limit_pushed_only_if_noagg', 'C08_agg_partial_model_aggregated', 'C08_agg_partial_model_left',
    'C08_agg_limit_commutes_noagg', 'C08_agg_T83_limit_left_noagg', 'C08_agg_witness_limit_left',
    'C08_agg_witness_shallow_plan', 'C08_agg_witness_shallow', 'C08_agg_api', 'C08_agg_witness_api',
    # round 5 (ii): set operations across integrations
    'C08_set', 'C08_set_plan_shape', 'C08_set_unique_congr', 'C08_set_distinct_operand_sound_if_no_window',
    'C08_set_witness_distinct_before_offset', 'C08_set_witness_except_keeps_rows',
    # round 6: column names that need quoting
    'C08_names_bare_resolves', 'C08_names_splitDots_iff', 'C08_names_dotted_eq_bare_iff', 'C08_names_plan_keys',
    'C08_names_partial_model', 'C08_names_witness_dotted', 'C08_names_witness_keys',
    # round 6 (old escapes): one CTE name in sibling scopes
    'C08_scope_siblings', 'C08_scope_witness_skip')]
# NOT in the claim (pure congruence lemmas over abstract operands, see Props/C08.lean): C08_lemma_union_all_congr,
# C08_lemma_union_distinct_congr, C08_lemma_cte_store_congr
ASSUME = [
    'SQL semantics of the theorems = MindsVerif.Sem (Int|Str|Null, 3-valued logic, list-of-rows tables, joins of every '
    'kind); validated against sqlite3 3.40 by the plan2 correspondence streams of this run (model evalQuery vs sqlite, '
    'model execPlan vs the reference executor running the REAL plan)',
    'PlanJoinTablesQuery (check_query_conditions, mark_nullable_tables / filter_accepts_null, check_use_limit, '
    'where_is_applied_before_join, get_filters_from_join_conditions, process_table) is hand-modelled for the two-table '
    'fragment (Sem.plan) and, for mark_nullable_tables, for chains of any length (Sem.markNullable); ties = skeleton '
    'correspondence on generated fragment queries and the exhaustive black-box chain-nullable correspondence (all 2-4 table '
    'chains of join spellings)',
    'C08_partial_model (execPlan (plan q) db = evalQuery q db for all databases) covers every two-table query satisfying '
    'the decidable condition Sem.planSound q = (plan q).limit0.isNone || q.kind.isLeft, i.e. every query without LIMIT (all '
    'join kinds, any WHERE tree) and every LEFT-join query; the driver reports planSound per case and this run checks that '
    'the REAL plan is right on every such case (plan2-theorem)',
    'step meaning = docstrings of planner/steps.py as implemented by tools/harness/planexec.py (dataframes keep '
    '(table alias, column); SubSelectStep resolves by column name, QueryStep/JoinStep by alias+name; `OFFSET n` alone skips n '
    'rows); fetch queries are printed with the library\'s own str(query) and executed by sqlite3',
    'NOT modelled in Lean, disclosed: Q2.groupBy / Q2.having are planner flags only (they switch the LIMIT pushdown off; '
    'evalQuery / execPlan evaluate no grouping — C08_core / C08_post say what follows for grouped queries; aggregation WITHOUT '
    'GROUP BY is evaluated by the select-list model Sem.selectRows / QA); plan_cte (C08_lemma_cte_store_congr is pure congruence '
    'and outside the claim); ORDER BY / OFFSET of join queries; string values (Val.str is never generated by the streams); '
    'column counts other than 3',
    'select lists (Model/SemAgg.lean): target trees Tgt (columns, constants, the six aggregate names of is_aggregate at any '
    'depth, one- and two-argument scalar functions evaluated as abs / coalesce, + - *, comparisons, CAST … AS integer, a '
    'one-branch CASE), integers and NULL only; avg / std are recognised but not evaluated; the api model execApi lets the '
    'fetch return whole rows (the real non-aggregated fetch also evaluates the select list: that the sub-select then evaluates '
    'it again is the open finding api-split/select-list-reprojected); tie = stream agg-select (decision: LIMIT in the first '
    'fetch / in the api fetch and `SELECT *` api fetch vs Sem.planA / Sem.apiPushLimit on generated trees with mixed-case and '
    'look-alike function names; semantics: model vs sqlite, model vs executor on the REAL plan where the rows are fixed by '
    'the query; theorem: planSound q.toQ2 => real plan == query on the engine)',
    'set operations (Model/SemSet.lean): operands are single-table selects of three integrations with DISTINCT / GROUP BY + '
    'count(*) / ORDER BY / LIMIT / OFFSET, trees of UNION [ALL] / INTERSECT / EXCEPT (INTERSECT ALL / EXCEPT ALL, WHERE in '
    'operands, join and api operands are probe-only); tie = stream setop-plan (step skeleton of the REAL plan — operands as '
    'written, UnionStep wiring — vs Sem.planSet; model SetQ.eval vs sqlite; model execSetPlan vs executor on the REAL plan)',
    'untied-model check of this run: check_use_limit beyond two tables (useLimitLoop, isLeftSpelling, non-plain items, grouping '
    'flags) is compared with the code by the exhaustive black-box `uselimit` stream (2-4 table sequences, sub-select operands); '
    'the LIMIT branches of execPlan / evalQuery are compared model-vs-real by `plan2-limit`',
    'names (Model/SemNames.lean): names are character lists, identifiers lists of parts; Sem.bareColumn transcribes '
    '`Identifier(parts=[col.parts[-1]])` of get_filters_from_join_conditions / process_table, Scope.resolve is name resolution in '
    'the scope of ONE table (`col` or `alias.col`); QN ties names to the index fragment Q2; tie = stream name-rebuild (parts of the '
    'rebuilt DISTINCT key / IN column / pushed ORDER BY in the REAL plan vs bareColumn for generated names with dots, spaces, '
    'keywords, upper case, punctuation; and the REAL plan executed on tables that really carry these names); names containing a '
    'back-quote, `|` or a line break are not generated; all other positions where names matter (projections, pushed WHERE, table '
    'and alias names, CTE names, nested selects, set operations) are covered by the probe: one generated query in six is rewritten '
    'under one of 7 namings (c08gen.NAMINGS) and executed in a world whose tables really have these names',
    'scopes (Model/SemScope.lean): C08_scope_siblings is about ABSTRACT sibling scopes (rows of a body, main select as a function '
    'of the bound rows) with the rebinding of plan_cte transcribed as one current binding; it has no stream of its own — the tie is '
    'the probe kind `scopes` (same CTE / alias name in branches of set operations, in two derived tables of a join, in nested '
    'sub-queries / derived tables, executed on contents where the bodies differ); nested re-definitions leak outwards on the '
    'unchanged tree (open finding cte-scope/nested-redefinition-leaks-outwards) and are outside the theorem',
    'planner state between statements: stream plan-isolation compares the plan of a statement planned in this process (after '
    'thousands of statements, nested join planners of derived-table operands included) with the plan from a FRESHLY IMPORTED '
    'mindsdb_sql.planner package (new module and class objects; the parser modules are shared, a new OS process is not started)',
    'the impl-level probe (typed query generator x small table contents) is search, not proof; everything beyond the Lean '
    'fragment (pushdown into later tables of 3-4 table chains, sub-selects / CTEs as operands, CTE names colliding with real '
    'table names in every table position, IN / NOT IN / scalar sub-queries, UNION / INTERSECT / EXCEPT, nested selects, GROUP '
    'BY, ORDER BY + LIMIT / OFFSET with ties, api-type integrations) is covered by the probe only; EXISTS over a planned '
    'sub-query, window functions, predictors and raw_query fetches are not generated; aggregate functions OUTSIDE the six '
    'names of is_aggregate (group_concat, total, stddev …) are not generated; a trailing ORDER BY / LIMIT after a set operation '
    '(the mindsdb parser attaches it to the last operand) is not generated',
    'a failing case counts as a known finding only if executing the same real plan without one kind of pushdown repairs it '
    'AND the plan shape violates the side condition of the corresponding theorem AND that signature is an OPEN entry '
    '(currently only limit/nonleft-join and limit/offset-below-join, both pinned by the library\'s tests); fixed entries are '
    'replayed as regression cases',
]

COLIDX = {'id': 0, 'x': 1, 'y': 2}
KINDS = {'JOIN': 'inner', 'INNER JOIN': 'inner', 'LEFT JOIN': 'left', 'RIGHT JOIN': 'right', 'FULL JOIN': 'full',
         'LEFT OUTER JOIN': 'leftOuter'}


# ----------------------------------------------------------------------------- running one query
def plan_for(q):
    from mindsdb_sql import parse_sql
    from mindsdb_sql.planner import plan_query
    import copy
    return plan_query(parse_sql(q.sql, 'mindsdb'), **copy.deepcopy(g.CATALOGS[q.catalog]))


_WORLDS = {}


def world_for(q, world=None):
    """the executor world whose tables carry the real names of the query's naming (naming 0: the given plain world)"""
    k = getattr(q, 'naming', 0)
    if k == 0 and world is not None:
        return world
    if k not in _WORLDS:
        _WORLDS[k] = px.World(g.SCHEMA, g.NAMINGS[k])
    return _WORLDS[k]


def steps_text(steps):
    out = []
    for s in steps:
        d = {k: re.sub(r'\bt_\d+\b', 't_N', str(v)) for k, v in vars(s).items() if k not in ('step_num', 'result_data')}
        out.append('%s %s %s' % (s.step_num, type(s).__name__, d))
    return out


def run_case(world, q, steps, contents):
    """returns None | failure dict (without classification)"""
    world.load(contents)
    F = world.reference(q.nolimit_sql)
    err = None
    rows = None
    try:
        df = px.exec_plan(world, steps)
        rows = df.rows
        why = g.compare(q, F, rows)
    except px.ExecError as e:
        why = 'the plan cannot be carried out per the step docstrings: %s' % str(e)[:200]
        err = str(e)
    if why is None:
        return None
    off = q.offset or 0
    exp = F if q.limit is None else F[off: off + q.limit]
    return dict(desc='plan result differs from the original query on one engine: ' + why, sql=q.sql, catalog=q.catalog,
                query=q.to_json(), contents=[[i, t, [list(r) for r in rows_]] for (i, t), rows_ in sorted(contents.items())],
                expected=[list(r) for r in exp], expected_without_limit=[list(r) for r in F] if q.limit is not None else None,
                actual=[list(r) for r in rows] if rows is not None else None, exec_error=err, why=why, _F=F)


def shrink(world, q, steps, contents, same):
    """greedy row removal while `same(failure)` still holds"""
    cur = {k: list(v) for k, v in contents.items()}
    changed = True
    while changed:
        changed = False
        for k in list(cur):
            i = 0
            while i < len(cur[k]):
                trial = dict(cur)
                trial[k] = cur[k][:i] + cur[k][i + 1:]
                f = run_case(world, q, steps, trial)
                if f is not None and same(f):
                    cur = trial
                    changed = True
                else:
                    i += 1
    return cur


CTE_RE = re.compile(r'^WITH (\w+) AS \(SELECT .*? FROM (\w+)\.(\w+)', re.I)


def cte_sigs(q, steps, f):
    """two narrow classes around a CTE whose name equals the name of a real table (static predicates on query + plan)"""
    from mindsdb_sql.planner import steps as S
    m = CTE_RE.match(q.body)
    if not m:
        return []
    name, src_int, src_tab = m.group(1).lower(), m.group(2).lower(), m.group(3).lower()
    dn = g.CATALOGS[q.catalog].get('default_namespace')
    fetches = [s for s in steps if isinstance(s, S.FetchDataframeStep)]
    # (a) whole statement sent to one integration with the qualifiers stripped: a real table named like the CTE (its own
    #     source table -> circular reference, or another table of that integration) is now read as the CTE
    if len(steps) == 1 and fetches and fetches[0].query is not None and getattr(fetches[0].query, 'cte', None) \
            and re.search(r'\b%s\.%s\b' % (re.escape(fetches[0].integration), re.escape(name)), q.body, re.I):
        return ['cte-shadow/pushdown-strips-qualifier']
    # (b) a QUALIFIED table `<default_namespace>.<cte name>` is taken for the CTE
    if dn and re.search(r'\b%s\.%s\b' % (re.escape(dn), re.escape(name)), q.body[m.end(1):], re.I) \
            and not any(s.integration == dn and re.search(r'\bFROM %s\b' % re.escape(name), str(s.query), re.I) for s in fetches):
        return ['cte-shadow/qualified-table-in-default-namespace']
    return []


SCOPE_RE = re.compile(r'^WITH (`[^`]+`|\w+) AS \(', re.I)


def scope_sigs(q):
    """the statement's own WITH defines a name that a NESTED scope (sub-query, derived table) defines again: the planner keeps
    one flat name -> result dict, so the inner definition replaces the outer one for the rest of the statement (static predicate
    on the query text; sibling scopes — branches of a set operation, two derived tables — do not match)"""
    m = SCOPE_RE.match(q.body)
    if m and re.search(r'\(\s*WITH %s AS \(' % re.escape(m.group(1)), q.body[m.end():], re.I):
        return ['cte-scope/nested-redefinition-leaks-outwards']
    return []


def attribute(world, q, steps, f):
    sigs, a = cz.analyse(world, q, steps, g.CATALOGS[q.catalog], f['_F'], g.compare)
    if not sigs:
        sigs = cte_sigs(q, steps, f)
    if not sigs:
        sigs = scope_sigs(q)
    f['sigs'] = sigs
    f['pushdowns_in_plan'] = a.kinds()
    return sigs


def current_kf(chk):
    """entries by id; a proposal (kf_proposed_C08.json, loaded after known_findings.json) overrides the merged entry"""
    byid = {}
    for k in chk.kf:
        byid[k['id']] = k
    return list(byid.values())


def classify(chk, f):
    """a failure is covered iff some alternative signature consists only of open known findings"""
    known = {k['sig']: k for k in current_kf(chk) if k.get('status') == 'open' and k.get('sig')}
    f['attributed'] = None
    for alt in f.get('sigs', []):
        parts = alt.split('+')
        if all(p in known for p in parts):
            f['attributed'] = parts[0]
            for p in parts:
                known[p]['_reproduced'] = True
            break
    f['class'] = '|'.join(f.get('sigs', [])) or 'unattributed:' + f['query']['kind']
    cur = {id(k) for k in current_kf(chk)}
    chk.classify(f, lambda k, ff: id(k) in cur and k.get('sig') is not None and k['sig'] == ff['attributed'])


def clean(f):
    return {k: v for k, v in f.items() if not k.startswith('_')}


# ----------------------------------------------------------------------------- plan2 correspondence (Lean fragment)
def gen_expr(rng, depth):
    r = rng.random()
    if depth <= 0 or r < 0.4:
        r2 = rng.random()
        if r2 < 0.6:
            return ('c', rng.choice(g.CMP), rng.randrange(2), rng.randrange(3), rng.randrange(3))
        if r2 < 0.8:
            return ('cc', rng.choice(g.CMP), rng.randrange(3), rng.randrange(3))
        return ('n', rng.randrange(2), rng.randrange(3))
    if r < 0.7:
        return ('&', gen_expr(rng, depth - 1), gen_expr(rng, depth - 1))
    if r < 0.85:
        return ('|', gen_expr(rng, depth - 1), gen_expr(rng, depth - 1))
    return ('!', gen_expr(rng, depth - 1))


T2 = ['ta', 'tc']


def expr_sql(e):
    if e[0] == 'c':
        return '%s.%s %s %d' % (T2[e[2]], g.COLS[e[3]], e[1], e[4])
    if e[0] == 'cc':
        return 'ta.%s %s tc.%s' % (g.COLS[e[2]], e[1], g.COLS[e[3]])
    if e[0] == 'n':
        return '%s.%s IS NULL' % (T2[e[1]], g.COLS[e[2]])
    if e[0] == '&':
        return '(%s AND %s)' % (expr_sql(e[1]), expr_sql(e[2]))
    if e[0] == '|':
        return '(%s OR %s)' % (expr_sql(e[1]), expr_sql(e[2]))
    return 'NOT (%s)' % expr_sql(e[1])


def expr_tokens(e):
    if e[0] in ('&', '|'):
        return '%s %s %s' % (e[0], expr_tokens(e[1]), expr_tokens(e[2]))
    if e[0] == '!':
        return '! ' + expr_tokens(e[1])
    return ' '.join(str(x) for x in e)


def abstract_conj(c, side_of):
    """fetch conjunct -> model token string, or None"""
    from mindsdb_sql.parser import ast
    if isinstance(c, ast.BinaryOperation) and len(c.args) == 2 and isinstance(c.args[0], ast.Identifier):
        col = COLIDX.get(str(c.args[0].parts[-1]).lower())
        if col is None:
            return None
        if c.op.lower() == 'is' and isinstance(c.args[1], ast.NullConstant):
            return 'n %d %d' % (side_of, col)
        if isinstance(c.args[1], ast.Constant) and isinstance(c.args[1].value, int) and c.op in g.CMP:
            return 'c %s %d %d %d' % (c.op, side_of, col, c.args[1].value)
    return None


def abstract_plan2(steps):
    """real plan of a fragment query -> skeleton string comparable with the driver output"""
    from mindsdb_sql.planner import steps as S
    fetches = [s for s in steps if isinstance(s, S.FetchDataframeStep)]
    if len(fetches) != 2 or not any(isinstance(s, S.JoinStep) for s in steps):
        return 'shape:' + ','.join(type(s).__name__ for s in steps)
    by = {s.step_num: s for s in steps}
    out = []
    semi = 0
    for side, f in enumerate(fetches):
        toks = []
        for c in cz.conjuncts(f.query.where):
            if cz.is_semi(c, by):
                semi += 1
                continue
            t = abstract_conj(c, side)
            toks.append(t if t is not None else '?' + str(c))
        out.append('push%d=[%s]' % (side, '; '.join(toks)))
    lim0 = fetches[0].query.limit
    out.append('limit0=%s' % ('-' if lim0 is None else lim0.value))
    if fetches[1].query.limit is not None:
        out.append('limit1=%s' % fetches[1].query.limit.value)
    out.append('semi=%d' % semi)
    return ' '.join(out)


def rows_tok(rows):
    return '/'.join(','.join('N' if v is None else str(v) for v in r) for r in rows) if rows else '.'


def parse_rows(tok):
    tok = tok.strip()
    if tok == '.':
        return []
    return [tuple(None if v == 'N' else int(v) for v in r.split(',')) for r in tok.split('/')]


def corr_plan2(chk, world, n):
    rng = common.rng_for(chk.seed, 'C08/plan2')
    lines, metas = [], []
    dist = {}
    for i in range(n):
        kind_sql = rng.choice(list(KINDS))
        c0, c1 = rng.randrange(3), rng.randrange(3)
        e = gen_expr(rng, rng.choice([0, 1, 2, 2, 3])) if rng.random() < 0.75 else None
        lim = rng.choice([0, 1, 2]) if rng.random() < 0.4 else None
        grp = rng.random() < 0.15
        hav = grp and rng.random() < 0.4
        where = (' WHERE ' + expr_sql(e)) if e else ''
        frm = 'int1.ta %s int2.tc ON ta.%s = tc.%s' % (kind_sql, g.COLS[c0], g.COLS[c1])
        if grp:
            body = 'SELECT ta.x, count(*) AS n0 FROM %s%s GROUP BY ta.x%s' % (frm, where, ' HAVING count(*) > 0' if hav else '')
        else:
            body = 'SELECT * FROM %s%s' % (frm, where)
        q = g.Q('plan2', 'names', body, limit=lim, tables=[('int1', 'ta'), ('int2', 'tc')])
        contents = g.gen_contents(rng, q.tables, 2 if not chk.deep else 3)
        t0, t1 = contents[('int1', 'ta')], contents[('int2', 'tc')]
        lines.append('%s %d %d %s %d %d %s ; %s ; %s' % (KINDS[kind_sql], c0, c1, '-' if lim is None else lim, int(grp), int(hav),
                                                       expr_tokens(e) if e else '-', rows_tok(t0), rows_tok(t1)))
        metas.append((q, contents, grp, lim))
        k = '%s/%s%s%s' % (KINDS[kind_sql], 'where' if e else 'nowhere', '/limit' if lim is not None else '', '/group' if grp else '')
        dist[k] = dist.get(k, 0) + 1
    try:
        outs = common.lean_run('C08', lines)
    except Exception as e:
        chk.oblige('corr:plan2', 'correspondence', False, 'driver failed: %s' % e)
        return
    diverged, first = 0, None
    sem_cases = sem_div = 0
    sem_first = None
    thm_cases = thm_div = 0
    thm_first = None
    lim_cases = lim_div = 0
    lim_first = None
    for (q, contents, grp, lim), line, o in zip(metas, lines, outs):
        chk.count(('plan2', line))
        m = re.match(r'(.*) \| plan=(.*) \| query=(.*) \| sound=([01]) \| planInner=(.*)$', o)
        why = None
        if not m:
            why = 'driver output: ' + o
        else:
            try:
                steps = plan_for(q).steps
                real = abstract_plan2(steps)
            except Exception as e:
                real = 'exc:%s' % type(e).__name__
                steps = None
            if real != m.group(1):
                why = 'skeleton: model %r real %r' % (m.group(1), real)
            elif m.group(4) == '1' and steps is not None:
                # the hypothesis of C08_partial_model holds: the REAL plan must return what the query returns
                thm_cases += 1
                world.load(contents)
                try:
                    bad = g.compare(q, world.reference(q.nolimit_sql), px.exec_plan(world, steps).rows)
                except px.ExecError as e:
                    bad = 'executor error %s' % e
                if bad:
                    thm_div += 1
                    thm_first = thm_first or dict(sql=q.sql, line=line, why=bad)
            if why is None and not grp and lim is None and steps is not None:
                # semantics: model evalQuery vs sqlite, model execPlan vs the executor on the real plan
                sem_cases += 1
                world.load(contents)
                ref = world.reference(q.nolimit_sql)
                w2 = None
                if g.multiset(parse_rows(m.group(3))) != g.multiset(ref):
                    w2 = 'evalQuery: model %s sqlite %s' % (m.group(3), ref)
                else:
                    try:
                        got = px.exec_plan(world, steps).rows
                        if g.multiset(parse_rows(m.group(2))) != g.multiset(got):
                            w2 = 'execPlan: model %s executor(real plan) %s' % (m.group(2), got)
                    except px.ExecError as e:
                        w2 = 'executor error %s' % e
                if w2:
                    sem_div += 1
                    sem_first = sem_first or dict(sql=q.sql, line=line, why=w2)
            if why is None and not grp and lim is not None and steps is not None:
                # LIMIT branches: (a) model evalQuery must be a valid LIMIT answer w.r.t. sqlite's un-limited result,
                # (b) the rows reaching the OUTER step (fetch-level LIMIT applied, outer LIMIT not) model vs real plan
                lim_cases += 1
                world.load(contents)
                w3 = g.compare(q, world.reference(q.nolimit_sql), parse_rows(m.group(3)))
                if w3:
                    w3 = 'evalQuery with LIMIT: model %s: %s' % (m.group(3), w3)
                else:
                    try:
                        import copy as _copy
                        st2 = _copy.deepcopy(steps)
                        from mindsdb_sql.planner import steps as _S
                        if isinstance(st2[-1], _S.QueryStep):
                            st2[-1].query.limit = None
                        got = px.exec_plan(world, st2).rows
                        if g.multiset(parse_rows(m.group(5))) != g.multiset(got):
                            w3 = 'execPlan before the outer LIMIT: model %s executor(real plan) %s' % (m.group(5), got)
                    except px.ExecError as e:
                        w3 = 'executor error %s' % e
                if w3:
                    lim_div += 1
                    lim_first = lim_first or dict(sql=q.sql, line=line, why=w3)
        if why:
            diverged += 1
            first = first or dict(sql=q.sql, line=line, why=why)
    chk.corr_result('plan2-skeleton', len(lines), diverged, first, dist)
    chk.corr_result('plan2-limit(model evalQuery valid LIMIT answer; rows before the outer LIMIT model vs real plan)',
                    lim_cases, lim_div, lim_first)
    chk.corr_result('plan2-semantics(model vs sqlite, model vs executor on real plan)', sem_cases, sem_div, sem_first)
    chk.corr_result('plan2-theorem(planSound q => real plan == query on the engine)', thm_cases, thm_div, thm_first)
    for (q, _, _, _), line, o in list(zip(metas, lines, outs))[:3]:
        chk.samples.append(dict(corr='plan2', sql=q.sql, driver_in=line, driver_out=o[:300]))


# ----------------------------------------------------------------------------- chain correspondence (mark_nullable_tables)
CHAIN_KINDS = {'JOIN': 'inner', 'INNER JOIN': 'inner', 'LEFT JOIN': 'left', 'LEFT OUTER JOIN': 'leftOuter',
               'RIGHT JOIN': 'right', 'FULL JOIN': 'full', 'FULL OUTER JOIN': 'full'}
CHAIN_TABLES = [('int1.ta', 'a'), ('int2.tc', 'b'), ('int3.te', 'c'), ('int1.tb', 'd'), ('int2.td', 'e')]


def real_nullable(kinds):
    """black box: `t.x IS NULL` is a top-level WHERE conjunct for every table of the chain; it is pushed into the fetch
    of a table iff the planner does not regard that table as null-supplying"""
    import itertools as it
    from mindsdb_sql import parse_sql
    from mindsdb_sql.planner import plan_query, steps as S
    tabs = CHAIN_TABLES[:len(kinds) + 1]
    frm = '%s AS %s' % tabs[0]
    for i, k in enumerate(kinds):
        # every table is joined to its predecessor or (alternating) to the first table
        other = tabs[i][1] if i % 2 == 0 else tabs[0][1]
        frm += ' %s %s AS %s ON %s.id = %s.id' % (k, tabs[i + 1][0], tabs[i + 1][1], tabs[i + 1][1], other)
    sql = 'SELECT * FROM %s WHERE %s' % (frm, ' AND '.join('%s.x IS NULL' % a for _, a in tabs))
    plan = plan_query(parse_sql(sql, 'mindsdb'), integrations=['int1', 'int2', 'int3'])
    flags = []
    for _, a in tabs:
        f = [s for s in plan.steps if isinstance(s, S.FetchDataframeStep) and px.table_alias_of(s.query) == a]
        if len(f) != 1:
            return sql, 'fetches(%s)=%d' % (a, len(f))
        pushed = any(str(c).replace('`', '').lower() == 'x is null' for c in cz.conjuncts(f[0].query.where))
        flags.append('0' if pushed else '1')
    return sql, 'nullable=' + ','.join(flags)


def corr_chain(chk):
    import itertools as it
    lens = (1, 2, 3) if not chk.deep else (1, 2, 3, 4)
    cases = [ks for n in lens for ks in it.product(sorted(CHAIN_KINDS), repeat=n)]
    if 4 in lens:
        rng = common.rng_for(chk.seed, 'C08/chain')
        cases = [ks for ks in cases if len(ks) < 4] + rng.sample([ks for ks in cases if len(ks) == 4], 600)
    lines = ['chain ' + ' '.join(CHAIN_KINDS[k] for k in ks) for ks in cases]
    try:
        outs = common.lean_run('C08', lines)
    except Exception as e:
        chk.oblige('corr:chain-nullable', 'correspondence', False, 'driver failed: %s' % e)
        return
    diverged, first = 0, None
    dist = {}
    for ks, o in zip(cases, outs):
        chk.count(('chain', ks))
        try:
            sql, real = real_nullable(ks)
        except Exception as e:
            sql, real = ' '.join(ks), 'exc:%s:%s' % (type(e).__name__, str(e)[:80])
        dist['tables=%d' % (len(ks) + 1)] = dist.get('tables=%d' % (len(ks) + 1), 0) + 1
        if real != o:
            diverged += 1
            first = first or dict(sql=sql, kinds=list(ks), model=o, real=real)
    chk.corr_result('chain-nullable(mark_nullable_tables over 2-5 table chains, black box via IS NULL pushdown)', len(cases),
                    diverged, first, dist)


def real_uselimit(kinds, plain, group, having):
    """black box: LIMIT 1, no WHERE; `check_use_limit` allowed the pushdown iff the fetch of the first table carries the LIMIT"""
    from mindsdb_sql import parse_sql
    from mindsdb_sql.planner import plan_query, steps as S
    tabs = CHAIN_TABLES[:len(kinds) + 1]

    def ref(i):
        t, a = tabs[i]
        return ('%s AS %s' % (t, a)) if plain[i] else ('(SELECT id, x, y FROM %s) AS %s' % (t, a))
    frm = ref(0)
    for i, k in enumerate(kinds):
        frm += ' %s %s ON %s.id = a.id' % (k, ref(i + 1), tabs[i + 1][1])
    if group:
        sql = 'SELECT a.x, count(*) AS n0 FROM %s GROUP BY a.x%s LIMIT 1' % (frm, ' HAVING count(*) > 0' if having else '')
    else:
        sql = 'SELECT * FROM %s LIMIT 1' % frm
    plan = plan_query(parse_sql(sql, 'mindsdb'), integrations=['int1', 'int2', 'int3'])
    f = [s for s in plan.steps if isinstance(s, S.FetchDataframeStep) and px.table_alias_of(s.query) == 'a']
    if len(f) != 1:
        return sql, 'fetches(a)=%d' % len(f)
    return sql, 'uselimit=%d' % (1 if f[0].query.limit is not None else 0)


def corr_uselimit(chk):
    """`check_use_limit` beyond two tables (useLimitLoop, isLeftSpelling, non-plain items, grouping flags)"""
    import itertools as it
    cases = []
    for n in (1, 2, 3):
        for ks in it.product(sorted(CHAIN_KINDS), repeat=n):
            cases.append((ks, (True,) * (n + 1), False, False))
            for pos in range(1, n + 1):              # one operand after the first is a sub-select
                if n < 3 or chk.deep or (hash(ks) + pos) % 3 == 0:
                    cases.append((ks, tuple(i != pos for i in range(n + 1)), False, False))
            if n <= 2:
                cases.append((ks, (True,) * (n + 1), True, False))
                cases.append((ks, (True,) * (n + 1), True, True))
    lines = ['uselimit %d %d %s %s' % (int(hv), int(gr), ','.join('1' if p else '0' for p in pl),
                                       ' '.join(CHAIN_KINDS[k] for k in ks)) for ks, pl, gr, hv in cases]
    try:
        outs = common.lean_run('C08', lines)
    except Exception as e:
        chk.oblige('corr:uselimit', 'correspondence', False, 'driver failed: %s' % e)
        return
    diverged, first, dist = 0, None, {}
    for (ks, pl, gr, hv), o in zip(cases, outs):
        chk.count(('uselimit', ks, pl, gr, hv))
        try:
            sql, real = real_uselimit(ks, pl, gr, hv)
        except Exception as e:
            sql, real = ' '.join(ks), 'exc:%s:%s' % (type(e).__name__, str(e)[:80])
        k = 'tables=%d%s%s' % (len(ks) + 1, '' if all(pl) else '/subselect-operand', '/group' if gr else '')
        dist[k] = dist.get(k, 0) + 1
        dist[real] = dist.get(real, 0) + 1
        if real != o:
            diverged += 1
            first = first or dict(sql=sql, kinds=list(ks), plain=list(pl), model=o, real=real)
    chk.corr_result('uselimit(check_use_limit over 2-4 table sequences incl. sub-select operands and grouping, black box via '
                    'LIMIT in the first fetch)', len(cases), diverged, first, dist)


# ----------------------------------------------------------------------------- round 5: select lists with aggregates (Model/SemAgg.lean)
AGG6 = ['count', 'sum', 'min', 'max', 'avg', 'std']
AGG_SPELL = ['count', 'sum', 'min', 'max', 'COUNT', 'Sum', 'mIn', 'MAX', 'avg', 'AVG', 'std', 'Std']
FN1_SEM = ['abs']
FN1_ANY = ['abs', 'round', 'length', 'typeof', 'counter', 'summ', 'minimum', 'maxval', 'average', 'counts', 'std_dev']
FN2_SEM = ['coalesce', 'ifnull']
FN2_ANY = ['coalesce', 'ifnull', 'nullif', 'sum2', 'min_of', 'maxx']
AR = ['+', '-', '*']


def gen_tgt(rng, depth, sides, mode, sem):
    """a target tree as nested tuples; mode 'row' = no aggregate call, 'agg' = every column is under an aggregate call,
    'mix' = anything (a bare column may stand beside an aggregate: structure only); sem = only functions the model evaluates"""
    def leaf(row):
        if row and rng.random() < 0.75:
            return ('col', rng.choice(sides), rng.randrange(3))
        return ('k', rng.choice([0, 1, 2, 2, None]) if rng.random() < 0.9 else -1)

    def agg():
        names = [n for n in AGG_SPELL if n.lower() in ('count', 'sum', 'min', 'max')] if sem else AGG_SPELL
        f = rng.choice(names)
        if f.lower() == 'count' and rng.random() < 0.5:
            return ('f', f, [('*',)])
        return ('f', f, [go(rng.choice([0, 0, 1]), 'row')])

    def go(d, m):
        r = rng.random()
        if m == 'row':
            if d <= 0 or r < 0.35:
                return leaf(True)
        elif m == 'agg':
            if d <= 0 or r < 0.35:
                return agg() if rng.random() < 0.85 else leaf(False)
        else:
            if d <= 0 or r < 0.3:
                return agg() if rng.random() < 0.4 else leaf(True)
        r = rng.random()
        if r < 0.3:
            return ('ar', rng.choice(AR), go(d - 1, m), go(d - 1, m))
        if r < 0.42:
            return ('cmp', rng.choice(g.CMP), go(d - 1, m), go(d - 1, m))
        if r < 0.56:
            return ('cast', go(d - 1, m))
        if r < 0.7:
            return ('f', rng.choice(FN1_SEM if sem else FN1_ANY), [go(d - 1, m)])
        if r < 0.82:
            return ('f', rng.choice(FN2_SEM if sem else FN2_ANY), [go(d - 1, m), go(d - 1, m)])
        return ('case', go(d - 1, m), go(d - 1, m), go(d - 1, m))
    return go(depth, mode)


def tgt_has_agg(t):
    """the oracle's own reading of the select list (independent of the library and of the Lean model)"""
    if t[0] == 'f':
        return t[1].lower() in AGG6 or any(tgt_has_agg(a) for a in t[2])
    return any(tgt_has_agg(a) for a in t[1:] if isinstance(a, tuple))


def tgt_sql(t, names):
    k = t[0]
    if k == '*':
        return '*'
    if k == 'col':
        return '%s%s' % (names[t[1]], g.COLS[t[2]])
    if k == 'k':
        return 'NULL' if t[1] is None else ('(%d)' % t[1] if t[1] < 0 else str(t[1]))
    if k == 'f':
        return '%s(%s)' % (t[1], ', '.join(tgt_sql(a, names) for a in t[2]))
    if k == 'ar':
        return '(%s %s %s)' % (tgt_sql(t[2], names), t[1], tgt_sql(t[3], names))
    if k == 'cmp':
        return '(%s %s %s)' % (tgt_sql(t[2], names), t[1], tgt_sql(t[3], names))
    if k == 'cast':
        return 'CAST(%s AS integer)' % tgt_sql(t[1], names)
    return 'CASE WHEN %s THEN %s ELSE %s END' % tuple(tgt_sql(a, names) for a in t[1:])


def tgt_tokens(t):
    k = t[0]
    if k == '*':
        return '*'
    if k == 'col':
        return 'col %d %d' % (t[1], t[2])
    if k == 'k':
        return 'k %s' % ('N' if t[1] is None else t[1])
    if k == 'f':
        return 'f %s %d %s' % (t[1], len(t[2]), ' '.join(tgt_tokens(a) for a in t[2]))
    if k in ('ar', 'cmp'):
        return '%s %s %s %s' % (k, t[1], tgt_tokens(t[2]), tgt_tokens(t[3]))
    if k == 'cast':
        return 'cast ' + tgt_tokens(t[1])
    return 'case %s %s %s' % tuple(tgt_tokens(a) for a in t[1:])


def gen_contents_agg(rng, tables, maxrows):
    out = {}
    for it in tables:
        n = rng.choice([maxrows, maxrows, maxrows - 1, 1, 0])
        out[it] = [(rng.choice([1, 1, 1, 2, None]), rng.choice([0, 1, 2, 2, None]), rng.choice([0, 1, 2, None])) for _ in range(max(n, 0))]
    return out


def corr_agg(chk, world, n):
    """stream `agg-select`: Sem.selHasAgg / Sem.planA / Sem.apiPushLimit and the select-list semantics vs the real planner"""
    from mindsdb_sql.planner import steps as S
    from mindsdb_sql.parser import ast
    rng = common.rng_for(chk.seed, 'C08/agg')
    lines, metas, dist = [], [], {}
    for i in range(n):
        api = rng.random() < 0.3
        sem = rng.random() < 0.6
        mode = rng.choice(['row', 'agg', 'agg', 'mix'] if not sem else ['row', 'agg', 'agg'])
        sides = [0] if api else [0, 1]
        nt = rng.choice([1, 1, 2, 3])
        ts = [gen_tgt(rng, rng.choice([0, 1, 2, 2, 3]), sides, mode, sem) for _ in range(nt)]
        if mode == 'agg' and not any(tgt_has_agg(t) for t in ts):
            ts[0] = ('ar', '+', ('f', 'count', [('*',)]), ts[0])
        lim = rng.choice([0, 1, 1, 2, 3]) if rng.random() < 0.8 else None
        maxrows = 3 if not chk.deep else 4
        if api:
            names = ['', '']
            sel = ', '.join('%s AS k%d' % (tgt_sql(t, names), j) for j, t in enumerate(ts))
            q = g.Q('aggapi', 'api3', 'SELECT %s FROM int3.te' % sel, limit=lim, tables=[('int3', 'te')])
            contents = gen_contents_agg(rng, q.tables, maxrows)
            lines.append('aggapi %s ; %s ; %s' % ('-' if lim is None else lim, ' , '.join(tgt_tokens(t) for t in ts),
                                                  rows_tok(contents[('int3', 'te')])))
            kind_sql = 'api'
        else:
            kind_sql = rng.choice(list(KINDS) + ['LEFT JOIN', 'LEFT JOIN'])
            c0, c1 = rng.choice([0, 0, 1]), rng.choice([0, 0, 1])
            r = rng.random()
            e = None
            if r < 0.25:
                e = ('c', rng.choice(g.CMP), 0, rng.randrange(3), rng.randrange(3))
                if rng.random() < 0.3:
                    e = ('&', e, ('c', rng.choice(g.CMP), 0, rng.randrange(3), rng.randrange(3)))
            elif r < 0.35:
                e = ('c', rng.choice(g.CMP), 1, rng.randrange(3), rng.randrange(3))
            names = ['ta.', 'tc.']
            sel = ', '.join('%s AS k%d' % (tgt_sql(t, names), j) for j, t in enumerate(ts))
            body = 'SELECT %s FROM int1.ta %s int2.tc ON ta.%s = tc.%s%s' % (sel, kind_sql, g.COLS[c0], g.COLS[c1],
                                                                           (' WHERE ' + expr_sql(e)) if e else '')
            q = g.Q('agg', 'names', body, limit=lim, tables=[('int1', 'ta'), ('int2', 'tc')])
            contents = gen_contents_agg(rng, q.tables, maxrows)
            lines.append('agg %s %d %d %s %s ; %s ; %s ; %s' % (
                KINDS[kind_sql], c0, c1, '-' if lim is None else lim, expr_tokens(e) if e else '-',
                ' , '.join(tgt_tokens(t) for t in ts), rows_tok(contents[('int1', 'ta')]), rows_tok(contents[('int2', 'tc')])))
        metas.append((q, contents, api, sem, mode, ts, lim))
        k = '%s/%s%s%s' % ('api' if api else KINDS[kind_sql], mode, '/sem' if sem else '', '/limit' if lim is not None else '')
        dist[k] = dist.get(k, 0) + 1
    try:
        outs = common.lean_run('C08b', lines)
    except Exception as e:
        chk.oblige('corr:agg-select', 'correspondence', False, 'driver failed: %s' % e)
        return
    dec_div = sem_cases = sem_div = thm_cases = thm_div = 0
    dec_first = sem_first = thm_first = None
    for (q, contents, api, sem, mode, ts, lim), line, o in zip(metas, lines, outs):
        chk.count(('agg', line))
        oracle_agg = any(tgt_has_agg(t) for t in ts)
        why = None
        steps = None
        m = re.match(r'agg=([01]) (limit0|push)=(\S+) \| plan=(.*) \| query=(.*?)( \| sound=([01]))?$', o)
        if not m:
            why = 'driver output: ' + o
        elif (m.group(1) == '1') != oracle_agg:
            why = 'model selHasAgg=%s, the select list %s an aggregate call' % (m.group(1), 'has' if oracle_agg else 'has not')
        else:
            try:
                steps = plan_for(q).steps
                fetches = [s_ for s_ in steps if isinstance(s_, S.FetchDataframeStep)]
                if api:
                    f = fetches[0].query
                    star = len(f.targets) == 1 and isinstance(f.targets[0], ast.Star)
                    real = 'star=%d push=%s' % (int(star), '-' if lim is None else int(f.limit is not None))
                    model = 'star=%s push=%s' % (m.group(1), '-' if lim is None else m.group(3))
                else:
                    f0 = [f for f in fetches if px.table_alias_of(f.query) == 'ta']
                    real = 'limit0=%s' % ('-' if f0[0].query.limit is None else f0[0].query.limit.value) if len(f0) == 1 \
                        else 'fetches(ta)=%d' % len(f0)
                    model = 'limit0=%s' % m.group(3)
            except Exception as e:
                real, model, steps = 'exc:%s:%s' % (type(e).__name__, str(e)[:80]), '', None
            if real != model:
                why = 'decision: model %r real %r' % (model, real)
        if why:
            dec_div += 1
            dec_first = dec_first or dict(sql=q.sql, line=line, why=why)
            continue
        if steps is None or not sem:
            continue
        agg = m.group(1) == '1'
        world.load(contents)
        ref = world.reference(q.nolimit_sql)
        sem_cases += 1
        w2 = g.compare(q, ref, parse_rows(m.group(5)))
        if w2:
            w2 = 'model query rows %s are not an answer of the engine (%s): %s' % (m.group(5), ref, w2)
        runnable = (not api) or agg or cz.plain_targets(steps[-1].query.targets)
        got = None
        if not w2 and runnable:
            try:
                got = px.exec_plan(world, steps).rows
                if (agg or lim is None) and g.multiset(parse_rows(m.group(4))) != g.multiset(got):
                    w2 = 'model plan rows %s, executor on the REAL plan %s' % (m.group(4), got)
            except px.ExecError as e:
                w2 = 'executor error %s' % e
        if w2:
            sem_div += 1
            sem_first = sem_first or dict(sql=q.sql, line=line, why=w2)
        if got is not None and (api or m.group(7) == '1'):
            # hypothesis of C08_agg_partial_model / C08_agg_api holds: the REAL plan must return what the query returns
            thm_cases += 1
            bad = g.compare(q, ref, got)
            if bad:
                thm_div += 1
                thm_first = thm_first or dict(sql=q.sql, line=line, why=bad, contents=str(contents))
    chk.corr_result('agg-select-decision(aggregate anywhere in the select list: LIMIT in the first fetch / api fetch, model vs real planner)',
                    len(lines), dec_div, dec_first, dist)
    chk.corr_result('agg-select-semantics(select-list model vs sqlite, model plan vs executor on the real plan)',
                    sem_cases, sem_div, sem_first)
    chk.corr_result('agg-select-theorem(planSound q.toQ2 / api split => real plan == query on the engine)', thm_cases, thm_div, thm_first)
    for (q, _, _, _, _, _, _), line, o in list(zip(metas, lines, outs))[:2]:
        chk.samples.append(dict(corr='agg-select', sql=q.sql, driver_in=line, driver_out=o[:300]))


# ----------------------------------------------------------------------------- round 5: set operations (Model/SemSet.lean)
SET_TABLES = [('int1', 'ta'), ('int2', 'tc'), ('int3', 'te')]
SET_OPS = {'union': 'UNION', 'unionAll': 'UNION ALL', 'intersect': 'INTERSECT', 'except': 'EXCEPT'}


def gen_opnd(rng, tbl, k):
    group = k >= 2 and rng.random() < 0.15
    cols = rng.sample(range(3), k - 1 if group else k)
    nout = k
    distinct = rng.random() < (0.05 if group else 0.3)
    r = rng.random()
    order, lim, off = [], None, None
    total = list(range(nout if not group else k - 1)) if not group else list(range(k - 1))
    if group and rng.random() < 0.5:
        total = total + [k - 1]

    def perm():
        idx = list(range(nout)) if not group else list(total)
        rng.shuffle(idx)
        return [(i, rng.random() < 0.35) for i in idx]
    if r < 0.25:
        pass
    elif r < 0.35:
        order = perm()[:rng.choice([1, nout])]
    elif r < 0.42:
        lim, off = rng.choice([(7, None), (0, None), (None, 0), (7, 0)])
    else:
        order = perm()
        r2 = rng.random()
        if r2 < 0.4:
            off = rng.choice([1, 1, 2, 2, 3])
        elif r2 < 0.7:
            lim, off = rng.choice([1, 2, 2, 3]), rng.choice([1, 1, 2])
        else:
            lim = rng.choice([1, 2, 2, 3])
    return dict(tbl=tbl, cols=cols, distinct=distinct, group=group, order=order, limit=lim, offset=off)


def opnd_names(o):
    return [g.COLS[c] for c in o['cols']] + (['n'] if o['group'] else [])


def opnd_sql(o, for_sqlite):
    i, t = SET_TABLES[o['tbl']]
    cols = [g.COLS[c] for c in o['cols']]
    if o['group']:
        s = 'SELECT %s%s, count(*) AS n FROM %s.%s GROUP BY %s' % ('DISTINCT ' if o['distinct'] else '', ', '.join(cols), i, t, ', '.join(cols))
    else:
        s = 'SELECT %s%s FROM %s.%s' % ('DISTINCT ' if o['distinct'] else '', ', '.join(cols), i, t)
    names = opnd_names(o)
    if o['order']:
        s += ' ORDER BY ' + ', '.join(names[i_] + (' DESC' if d else '') for i_, d in o['order'])
    lim = o['limit']
    if lim is None and o['offset'] is not None and for_sqlite:
        lim = -1
    if lim is not None:
        s += ' LIMIT %d' % lim
    if o['offset'] is not None:
        s += ' OFFSET %d' % o['offset']
    par = bool(o['order']) or o['limit'] is not None or o['offset'] is not None
    if for_sqlite:
        return 'SELECT * FROM (%s)' % s if par else s
    return '(%s)' % s if par else s


def setq_sql(q, for_sqlite, top=True):
    if q[0] == 'sel':
        return opnd_sql(q[1], for_sqlite)
    l, r = setq_sql(q[2], for_sqlite, False), setq_sql(q[3], for_sqlite, False)
    s = '%s %s %s' % (l, SET_OPS[q[1]], r)
    if top:
        return s
    return 'SELECT * FROM (%s)' % s if for_sqlite else '(%s)' % s


def opnd_tok(o):
    return '%d;%s;%d;%d;%s;%s;%s' % (o['tbl'], ','.join(str(c) for c in o['cols']), int(o['distinct']), int(o['group']),
                                     ','.join('%d%s' % (i, 'd' if d else 'a') for i, d in o['order']) or '-',
                                     '-' if o['limit'] is None else o['limit'], '-' if o['offset'] is None else o['offset'])


def setq_tokens(q):
    if q[0] == 'sel':
        return 'sel ' + opnd_tok(q[1]).replace(';', ' ')
    return 'op %s %s %s' % (q[1], setq_tokens(q[2]), setq_tokens(q[3]))


def setq_tables(q):
    return [q[1]['tbl']] if q[0] == 'sel' else setq_tables(q[2]) + setq_tables(q[3])


def abstract_setplan(steps):
    """real plan -> `F(tbl;cols;d;g;order;limit;offset) … U(k;l;r)` as the driver prints Sem.planSet"""
    from mindsdb_sql.planner import steps as S
    from mindsdb_sql.parser import ast
    out = []
    for st in steps:
        if isinstance(st, S.FetchDataframeStep) and isinstance(st.query, ast.Select) and isinstance(st.query.from_table, ast.Identifier):
            fq = st.query
            tb = [i for i, (n_, t_) in enumerate(SET_TABLES) if n_ == st.integration and t_ == str(fq.from_table.parts[-1]).lower()]
            cols, names, group = [], [], False
            bad = fq.where is not None or fq.having is not None or not tb
            for t in fq.targets:
                if isinstance(t, ast.Identifier) and str(t.parts[-1]).lower() in COLIDX:
                    cols.append(COLIDX[str(t.parts[-1]).lower()])
                    names.append(str(t.parts[-1]).lower())
                elif isinstance(t, ast.Function) and t.op.lower() == 'count':
                    names.append('n')
                else:
                    bad = True
            if fq.group_by is not None:
                group = True
                if [str(x.parts[-1]).lower() for x in fq.group_by] != names[:len(cols)]:
                    bad = True
            order = []
            for ob in fq.order_by or []:
                nm = str(ob.field.parts[-1]).lower() if isinstance(ob.field, ast.Identifier) else None
                if nm not in names:
                    bad = True
                    continue
                order.append('%d%s' % (names.index(nm), 'd' if str(ob.direction).upper() == 'DESC' else 'a'))
            if bad:
                out.append('F?(%s)' % str(fq))
                continue
            out.append('F(%d;%s;%d;%d;%s;%s;%s)' % (tb[0], ','.join(str(c) for c in cols), int(bool(fq.distinct)), int(group),
                                                    ','.join(order) or '-', '-' if fq.limit is None else fq.limit.value,
                                                    '-' if fq.offset is None else fq.offset.value))
        elif isinstance(st, S.UnionStep):
            k = {'union': 'union', 'intersect': 'intersect', 'except': 'except'}.get(st.operation, '?' + str(st.operation))
            if not st.unique:
                k = 'unionAll' if k == 'union' else k + 'All'
            out.append('U(%s;%s;%s)' % (k, st.left.step_num, st.right.step_num))
        else:
            out.append('X(%s)' % type(st).__name__)
    return ' '.join(out) + ' result=%s' % steps[-1].step_num


def corr_setop(chk, world, n):
    """stream `setop-plan`: Sem.planSet / SetQ.eval / execSetPlan vs plan_union on trees of set operations whose operands
    carry every combination of DISTINCT / GROUP BY / ORDER BY / LIMIT / OFFSET, on contents with duplicates"""
    rng = common.rng_for(chk.seed, 'C08/setop')
    lines, metas, dist = [], [], {}
    for i in range(n):
        k = rng.choice([1, 1, 2, 2, 3])
        shape = rng.choice(['2', '2', '2', '3l', '3r'])
        nop = 2 if shape == '2' else 3
        while True:
            tbls = [rng.randrange(3) for _ in range(nop)]
            if len(set(tbls)) > 1:
                break
        ops = [('sel', gen_opnd(rng, t, k)) for t in tbls]
        o1, o2 = rng.choice(list(SET_OPS)), rng.choice(list(SET_OPS))
        if shape == '2':
            q = ('op', o1, ops[0], ops[1])
        elif shape == '3l':
            q = ('op', o2, ('op', o1, ops[0], ops[1]), ops[2])
        else:
            q = ('op', o1, ops[0], ('op', o2, ops[1], ops[2]))
        maxrows = 4 if not chk.deep else 5
        contents = g.gen_contents_dups(rng, SET_TABLES, maxrows)
        Q = g.Q('setq', 'names', setq_sql(q, False), tables=SET_TABLES, ref_body=setq_sql(q, True))
        lines.append('setq %s ; %s' % (setq_tokens(q), ' ; '.join(rows_tok(contents[t]) for t in SET_TABLES)))
        metas.append((Q, contents))
        for o in ops:
            o = o[1]
            kk = 'operand/%s%s%s%s' % ('group' if o['group'] else ('distinct' if o['distinct'] else 'plain'),
                                       '/order' if o['order'] else '', '/limit' if o['limit'] is not None else '',
                                       '/offset' if o['offset'] is not None else '')
            dist[kk] = dist.get(kk, 0) + 1
        dist['shape/' + shape] = dist.get('shape/' + shape, 0) + 1
    try:
        outs = common.lean_run('C08b', lines)
    except Exception as e:
        chk.oblige('corr:setop-plan', 'correspondence', False, 'driver failed: %s' % e)
        return
    sk_div = sem_div = 0
    sk_first = sem_first = None
    for (Q, contents), line, o in zip(metas, lines, outs):
        chk.count(('setq', line))
        m = re.match(r'steps=(.*) \| plan=(.*) \| query=(.*)$', o)
        if not m:
            sk_div += 1
            sk_first = sk_first or dict(sql=Q.sql, line=line, why='driver output: ' + o)
            continue
        try:
            steps = plan_for(Q).steps
            real = abstract_setplan(steps)
        except Exception as e:
            steps, real = None, 'exc:%s:%s' % (type(e).__name__, str(e)[:80])
        if real != m.group(1):
            sk_div += 1
            sk_first = sk_first or dict(sql=Q.sql, line=line, why='step skeleton: model %r real %r' % (m.group(1), real))
        world.load(contents)
        ref = world.reference(Q.nolimit_sql)
        w2 = None
        if g.multiset(parse_rows(m.group(3))) != g.multiset(ref):
            w2 = 'SetQ.eval: model %s sqlite %s' % (m.group(3), ref)
        elif steps is not None:
            try:
                got = px.exec_plan(world, steps).rows
                if g.multiset(parse_rows(m.group(2))) != g.multiset(got):
                    w2 = 'execSetPlan: model %s executor(real plan) %s' % (m.group(2), got)
            except px.ExecError as e:
                w2 = 'executor error %s' % e
        if w2:
            sem_div += 1
            sem_first = sem_first or dict(sql=Q.sql, ref_sql=Q.nolimit_sql, line=line, why=w2)
    chk.corr_result('setop-plan-skeleton(operands as written + UnionStep wiring, model planSet vs real plan_union)',
                    len(lines), sk_div, sk_first, dist)
    chk.corr_result('setop-plan-semantics(model SetQ.eval vs sqlite, model execSetPlan vs executor on the real plan)',
                    len(lines), sem_div, sem_first)
    for (Q, _), line, o in list(zip(metas, lines, outs))[:2]:
        chk.samples.append(dict(corr='setop-plan', sql=Q.sql, driver_in=line, driver_out=o[:300]))


# ----------------------------------------------------------------------------- round 6: names that need quoting (Model/SemNames.lean)
NAME_ATOMS = ['id', 'x', 'y', 'a', 'b', 'p', 'q', 'ta', 'tc', 'order', 'select', 'group', 'from', 'Key', 'My', 'COL', '1st', '2', 'user',
              'orders', 'total', 'é', 'k0', 'n']
NAME_SEPS = ['.', '.', '.', ' ', ' ', '-', '_', '..', ' . ', '$', '#', ':', '/', '(', ')', ',', "'", '"']


def gen_name(rng):
    r = rng.random()
    if r < 0.15:
        return rng.choice(['order', 'select', 'group', 'from', 'limit', 'Upper', 'UPPER', 'index', 'join', 'on', 'null', 'count'])
    n = rng.choice([2, 2, 2, 3])
    out = rng.choice(NAME_ATOMS)
    for _ in range(n - 1):
        out += rng.choice(NAME_SEPS) + rng.choice(NAME_ATOMS)
    return out


def corr_names(chk, n):
    """stream `name-rebuild`: wherever the planner rebuilds a column identifier (DISTINCT key of the semi-join, the IN filter,
    a pushed ORDER BY) its parts must be Sem.bareColumn of the original, for names with dots, spaces, keywords, upper case …;
    and the REAL plan, run on tables that really have such names, must return what the query returns"""
    from mindsdb_sql.planner import steps as S
    from mindsdb_sql.parser import ast
    rng = common.rng_for(chk.seed, 'C08/names')
    lines, metas, dist = [], [], {}
    for i in range(n):
        while True:
            nm = {c: gen_name(rng) for c in g.COLS}
            if len({v.lower() for v in nm.values()}) == 3:
                break
        r = rng.random()
        if r < 0.3:
            nm['p'] = rng.choice(['a b', 'p.q', 'Select', 'P', nm['id'].split('.')[0] or 'p'])
        if nm.get('p', 'p').lower() in ('q', 'ta', 'tc', 'int1', 'int2'):
            nm.pop('p')            # the other alias / a table or integration name: not a name of its own
        if r > 0.8:
            nm['ta'] = rng.choice(['my tab', 'ta.x', 'Order', nm['x']])
            if nm['ta'].lower() in ('tc', 'q', nm.get('p', 'p').lower()):
                nm.pop('ta')
        # a dotted name whose prefix is the alias and whose suffix is a sibling column: the silent variant
        if rng.random() < 0.25:
            al = nm.get('p', 'p')
            sib = rng.choice(['x', 'y'])
            nm['id'] = '%s.%s' % (al, nm[sib])
        c0, c1 = rng.choice(g.COLS), rng.choice(g.COLS)
        kind = rng.choice(['LEFT JOIN', 'LEFT JOIN', 'JOIN', 'RIGHT JOIN', 'LEFT OUTER JOIN'])
        where = ' WHERE p.%s %s %d' % (rng.choice(g.COLS), rng.choice(g.CMP), rng.randrange(3)) if rng.random() < 0.3 else ''
        sel = rng.sample(['p.id', 'p.x', 'p.y', 'q.id', 'q.x', 'q.y'], rng.choice([1, 2, 3]))
        body = 'SELECT %s FROM int1.ta AS p %s int2.tc AS q ON p.%s = q.%s%s' % (', '.join(sel), kind, c0, c1, where)
        order_pos, order_sql, lim = [], '', None
        oc = None
        if kind == 'LEFT JOIN' and rng.random() < 0.6:
            oc = rng.choice(g.COLS)
            if 'p.' + oc not in sel:
                sel.append('p.' + oc)
                body = 'SELECT %s FROM int1.ta AS p %s int2.tc AS q ON p.%s = q.%s%s' % (', '.join(sel), kind, c0, c1, where)
            desc = rng.random() < 0.4
            order_pos, order_sql, lim = [sel.index('p.' + oc)], ' ORDER BY p.%s%s' % (oc, ' DESC' if desc else ''), rng.choice([1, 2, 3])
        lq = g.Q('names', 'names', body, order_pos, order_sql, lim, None, [('int1', 'ta'), ('int2', 'tc')])
        q = g.Q('names', 'names', g.rename(body, nm), order_pos, g.rename(order_sql, nm), lim, None, lq.tables)
        contents = g.gen_contents_match(rng, q.tables, 3)
        al = nm.get('p', 'p')
        lines.append('names|%s|%s|%s' % (al, nm[c0], '|'.join(nm[c] for c in g.COLS)))
        lines.append('names|q|%s|%s' % (nm[c1], '|'.join(nm[c] for c in g.COLS)))
        if oc is not None:
            lines.append('names|%s|%s|%s' % (al, nm[oc], '|'.join(nm[c] for c in g.COLS)))
        metas.append((q, nm, contents, c0, c1, oc, kind))
        for v in (nm[c0], nm[c1]):
            k = 'key/' + ('dot' if '.' in v else 'space' if ' ' in v else 'other')
            dist[k] = dist.get(k, 0) + 1
    try:
        outs = common.lean_run('C08b', lines)
    except Exception as e:
        chk.oblige('corr:name-rebuild', 'correspondence', False, 'driver failed: %s' % e)
        return
    pos = 0
    div = ex_div = ex_cases = 0
    first = ex_first = None
    for q, nm, contents, c0, c1, oc, kind in metas:
        k = 3 if oc is not None else 2
        mo = outs[pos: pos + k]
        pos += k
        chk.count(('names', q.sql))
        model = []
        for o in mo:
            m = re.match(r'bare=(.*) idx=(\S+) dotted=(.*) didx=(\S+)$', o)
            model.append(m.group(1) if m else 'driver:' + o)
        why = None
        steps = None
        try:
            steps = plan_for(q).steps
            fetches = [s_ for s_ in steps if isinstance(s_, S.FetchDataframeStep)]
            subs = [s_ for s_ in steps if isinstance(s_, S.SubSelectStep) and s_.query.distinct]
            real = []
            if kind == 'RIGHT JOIN':
                # no semi-join filter for the right table of a RIGHT join: nothing is rebuilt
                real = model[:2] if not subs else ['unexpected DISTINCT sub-select']
            else:
                real.append('|'.join(str(x) for x in subs[0].query.targets[0].parts) if len(subs) == 1 else 'subselects=%d' % len(subs))
                ins = [c for c in cz.conjuncts(fetches[1].query.where) if cz.is_semi(c, {s_.step_num: s_ for s_ in steps})]
                real.append('|'.join(str(x) for x in ins[0].args[0].parts) if len(ins) == 1 else 'in-filters=%d' % len(ins))
            if oc is not None:
                ob = fetches[0].query.order_by
                real.append('|'.join(str(x) for x in ob[0].field.parts) if ob else 'no ORDER BY in the first fetch')
        except Exception as e:
            real = ['exc:%s:%s' % (type(e).__name__, str(e)[:80])]
            steps = None
        if real != model:
            div += 1
            first = first or dict(sql=q.sql, names=nm, why='rebuilt identifiers (DISTINCT key, IN column, pushed ORDER BY): model %r real %r' % (model, real))
        if steps is not None:
            ex_cases += 1
            w = px.World(g.SCHEMA, nm)
            w.load(contents)
            try:
                bad = g.compare(q, w.reference(q.nolimit_sql), px.exec_plan(w, steps).rows)
            except px.ExecError as e:
                bad = 'the plan cannot be carried out: %s' % str(e)[:160]
            except Exception as e:
                bad = 'reference failed: %s' % str(e)[:160]
            if bad:
                ex_div += 1
                ex_first = ex_first or dict(sql=q.sql, names=nm, contents=str(sorted(contents.items())), why=bad)
    chk.corr_result('name-rebuild(parts of the rebuilt DISTINCT key / IN column / pushed ORDER BY vs Sem.bareColumn, names that need quoting)',
                    len(metas), div, first, dist)
    chk.corr_result('name-rebuild-exec(real plan on tables that really carry such names == query on the engine)', ex_cases, ex_div, ex_first)
    for (q, nm, _, _, _, _, _), o in list(zip(metas, outs))[:2]:
        chk.samples.append(dict(corr='name-rebuild', sql=q.sql, names=nm))


# ----------------------------------------------------------------------------- round 6 (old escapes): planner state between statements
def fresh_plan_text(q):
    """plan q with a FRESHLY imported copy of the package mindsdb_sql.planner (new module objects, new class objects: every
    module-level and class-level default is in its initial state), then put the long-lived modules back"""
    import sys, importlib, copy
    saved = {k: v for k, v in sys.modules.items() if k == 'mindsdb_sql.planner' or k.startswith('mindsdb_sql.planner.')}
    import mindsdb_sql
    saved_attr = getattr(mindsdb_sql, 'planner', None)
    for k in saved:
        del sys.modules[k]
    try:
        fresh = importlib.import_module('mindsdb_sql.planner')
        from mindsdb_sql import parse_sql
        plan = fresh.plan_query(parse_sql(q.sql, 'mindsdb'), **copy.deepcopy(g.CATALOGS[q.catalog]))
        return steps_text(plan.steps)
    finally:
        for k in [k for k in sys.modules if k == 'mindsdb_sql.planner' or k.startswith('mindsdb_sql.planner.')]:
            del sys.modules[k]
        sys.modules.update(saved)
        if saved_attr is not None:
            mindsdb_sql.planner = saved_attr


def corr_isolation(chk, world, n):
    """stream `plan-isolation`: a statement planned in THIS process — after thousands of other statements, nested join planners
    included — must get the plan it gets from a freshly imported planner package that has planned nothing else; on a difference
    both plans are executed to find the failing input"""
    rng = common.rng_for(chk.seed, 'C08/isolation')
    div, first, dist = 0, None, {}
    # history: statements with derived-table operands planned by nested join planners leave state behind, if anything does
    history = [g.gen_derived_join(rng, 'names') for _ in range(12)] + [g.gen_join(rng, 'names') for _ in range(12)]
    for h in history:
        try:
            plan_for(h)
        except Exception:
            pass
    for i in range(n):
        r = rng.random()
        q = g.gen_derived_join(rng, rng.choice(['names', 'default'])) if r < 0.45 else \
            (g.gen_nested(rng, 'names') if r < 0.65 else g.gen_query_plain(rng))
        chk.count(('isolation', q.sql))
        dist[q.kind] = dist.get(q.kind, 0) + 1
        try:
            here = steps_text(plan_for(q).steps)
        except Exception as e:
            here = ['exc:%s' % type(e).__name__]
        try:
            alone = fresh_plan_text(q)
        except Exception as e:
            alone = ['exc:%s' % type(e).__name__]
        if here != alone:
            div += 1
            if first is None:
                k = next((j for j, (a, b) in enumerate(zip(here, alone)) if a != b), min(len(here), len(alone)))
                first = dict(sql=q.sql, why='plan depends on what was planned before: step %d here %r alone %r' % (
                    k, (here + ['-'])[k][:300], (alone + ['-'])[k][:300]))
            # the impl-level oracle on the plan as planned here
            probe_query(chk, world, q, (g.gen_contents_match(rng, q.tables, 3) for _ in range(8)), {})
    chk.corr_result('plan-isolation(statement planned after a history of other statements vs planned by a freshly imported planner package)',
                    n, div, first, dist)


# ----------------------------------------------------------------------------- seeds (exhaustive tiny databases)
SEEDS = [
    ('names', 'SELECT * FROM int1.ta JOIN int2.tc ON ta.id = tc.id', None),
    ('names', 'SELECT * FROM int1.ta LEFT JOIN int2.tc ON ta.id = tc.id WHERE tc.y = 1', None),
    ('names', 'SELECT * FROM int1.ta RIGHT JOIN int2.tc ON ta.id = tc.id', None),
    ('names', 'SELECT * FROM int1.ta JOIN int2.tc ON ta.id = tc.id WHERE NOT tc.y = 1', None),
    ('names', 'SELECT * FROM int1.ta LEFT JOIN int2.tc ON ta.id = tc.id WHERE tc.y IS NULL', None),
    ('names', 'SELECT * FROM int1.ta JOIN int2.tc ON ta.id = tc.id', 1),
    ('names', 'SELECT * FROM int1.ta WHERE x IN (SELECT y FROM int2.tc)', None),
    ('names', 'SELECT * FROM int1.ta WHERE x NOT IN (SELECT y FROM int2.tc)', None),
    ('names', 'SELECT x, y FROM int1.ta UNION SELECT x, y FROM int2.tc', None),
]


# fixed regression cases with hand-made contents: (catalog, body, order_pos, order_sql, limit, contents)
CASES = [
    # CTE named like a real table of ANOTHER integration that is used (qualified) in the same statement
    ('default', 'WITH tc AS (SELECT id, x, y FROM int1.ta) SELECT tc.x, b.y FROM tc JOIN int2.tc AS b ON tc.id = b.id', [], '', None,
     {('int1', 'ta'): [(1, 0, 0)], ('int2', 'tc'): [(1, 2, 2)]}),
    ('project', 'WITH tc AS (SELECT id, x, y FROM int1.ta) SELECT tc.x, b.y FROM int2.tc AS b JOIN tc ON tc.id = b.id', [], '', None,
     {('int1', 'ta'): [(1, 0, 0)], ('int2', 'tc'): [(1, 2, 2), (2, 1, 1)]}),
    ('default', 'WITH ta AS (SELECT id, x, y FROM int1.ta WHERE x = 0) SELECT ta.x, ta.y FROM ta', [], '', None,
     {('int1', 'ta'): [(1, 0, 0), (2, 1, 1)]}),
    ('project', 'WITH ta AS (SELECT id, x, y FROM int1.tb) SELECT ta.x, p.y FROM ta LEFT JOIN int1.ta AS p ON ta.id = p.id', [], '', None,
     {('int1', 'ta'): [(1, 0, 1)], ('int1', 'tb'): [(1, 2, 2)]}),
    # … and the qualified real table in a plain FROM / a nested FROM / an IN sub-query / a UNION side (the CTE is used too)
    ('default', 'WITH tc AS (SELECT id, x, y FROM int1.ta) SELECT tc.x, tc.y FROM int2.tc WHERE tc.x IN (SELECT x FROM tc)', [], '', None,
     {('int1', 'ta'): [(1, 0, 0)], ('int2', 'tc'): [(1, 0, 2)]}),
    ('project', 'WITH tc AS (SELECT id, x, y FROM int1.ta) SELECT s.x, s.y FROM (SELECT id, x, y FROM int2.tc) AS s WHERE s.x IN (SELECT x FROM tc)', [], '', None,
     {('int1', 'ta'): [(1, 0, 0)], ('int2', 'tc'): [(1, 0, 2)]}),
    ('default', 'WITH tc AS (SELECT id, x, y FROM int1.ta) SELECT a.x, a.y FROM int3.te AS a WHERE a.x IN (SELECT x FROM int2.tc) AND a.y IN (SELECT y FROM tc)', [], '', None,
     {('int1', 'ta'): [(1, 0, 0)], ('int2', 'tc'): [(1, 1, 2)], ('int3', 'te'): [(1, 1, 0)]}),
    ('project', 'WITH tc AS (SELECT id, x, y FROM int1.ta) SELECT x, y FROM tc UNION ALL SELECT x, y FROM int2.tc', [], '', None,
     {('int1', 'ta'): [(1, 0, 0)], ('int2', 'tc'): [(1, 1, 2)]}),
    # chains whose joins point at same-named columns of DIFFERENT earlier tables (a.id, then b.id): every semi-join filter
    # takes its values from the fetch of the table its ON column belongs to
    ('names', 'SELECT a.id, b.id, c.y FROM int1.ta AS a JOIN int2.tc AS b ON b.x = a.id JOIN int3.te AS c ON c.y = b.id', [], '', None,
     {('int1', 'ta'): [(1, 0, 0)], ('int2', 'tc'): [(2, 1, 0)], ('int3', 'te'): [(5, 0, 2), (6, 0, 1)]}),
    ('names', 'SELECT a.x, c.id FROM int2.td AS a LEFT JOIN int1.tb AS b ON b.y = a.x LEFT JOIN int3.tf AS c ON c.id = b.x', [], '', None,
     {('int2', 'td'): [(1, 0, 0)], ('int1', 'tb'): [(1, 2, 0)], ('int3', 'tf'): [(2, 1, 1), (0, 1, 1)]}),
    # multi-key ORDER BY + LIMIT over a LEFT JOIN, ties in the leading key across the limit boundary
    ('names', 'SELECT p.x, q.y FROM int1.ta AS p LEFT JOIN int2.tc AS q ON p.id = q.id', [0, 1], ' ORDER BY p.x, q.y', 1,
     {('int1', 'ta'): [(1, 0, 0), (2, 0, 0)], ('int2', 'tc'): [(1, 0, 2), (2, 0, 1)]}),
    ('names', 'SELECT p.x, q.y FROM int1.ta AS p LEFT JOIN int2.tc AS q ON p.id = q.id', [0, 1], ' ORDER BY p.x, q.y', 1,
     {('int1', 'ta'): [(2, 0, 0), (1, 0, 0)], ('int2', 'tc'): [(1, 0, 2), (2, 0, 1)]}),
    ('names', 'SELECT p.x, q.y FROM int1.ta AS p LEFT JOIN int2.tc AS q ON p.id = q.id', [0, 1], ' ORDER BY p.x DESC, q.y DESC', 2,
     {('int1', 'ta'): [(1, 1, 0), (2, 1, 0), (3, 1, 0)], ('int2', 'tc'): [(1, 0, 0), (2, 0, 1), (3, 0, 2)]}),
    ('names', 'SELECT p.x, q.y FROM int1.ta AS p LEFT JOIN int2.tc AS q ON p.id = q.id', [0, 1], ' ORDER BY p.x DESC, q.y DESC', 2,
     {('int1', 'ta'): [(3, 1, 0), (2, 1, 0), (1, 1, 0)], ('int2', 'tc'): [(1, 0, 0), (2, 0, 1), (3, 0, 2)]}),
]


# round 5: an aggregate call below the top node of a select-list entry (scalar function, CASE condition, CAST) x the paths that
# push LIMIT down; windowed operands of non-ALL set operations on contents with duplicate rows.  (…, ref_body) = sqlite reading
CASES5 = [
    ('names', 'SELECT 1 AS k0, abs(min(p.y)) AS k1 FROM int1.ta AS p LEFT JOIN int2.tc AS q ON p.id = q.id', [], '', 1,
     {('int1', 'ta'): [(1, 0, 2), (2, 0, 1)], ('int2', 'tc'): []}, None),
    ('names', 'SELECT CASE WHEN count(*) > 1 THEN 1 ELSE 0 END AS k0 FROM int2.tc AS p LEFT JOIN int3.te AS q ON p.id = q.id WHERE p.x = 0', [], '', 1,
     {('int2', 'tc'): [(1, 0, 0), (2, 0, 0)], ('int3', 'te'): [(1, 1, 1)]}, None),
    ('api3', 'SELECT CAST(max(y) AS integer) AS k0, 2 - count(x) AS k1 FROM int3.te', [], '', 2,
     {('int3', 'te'): [(1, 0, 0), (2, 1, 2), (3, None, 1)]}, None),
    ('names', '(SELECT y FROM int1.ta ORDER BY y DESC OFFSET 1) INTERSECT SELECT y FROM int2.tc', [], '', None,
     {('int1', 'ta'): [(1, 0, 2), (2, 0, 2), (3, 0, 1)], ('int2', 'tc'): [(1, 0, 1), (2, 0, 2)]},
     'SELECT * FROM (SELECT y FROM int1.ta ORDER BY y DESC LIMIT -1 OFFSET 1) INTERSECT SELECT y FROM int2.tc'),
    ('default', 'SELECT x FROM int2.tc EXCEPT (SELECT x FROM int3.te ORDER BY x LIMIT 2)', [], '', None,
     {('int2', 'tc'): [(1, 1, 0), (2, 2, 0)], ('int3', 'te'): [(1, 0, 0), (2, 0, 0), (3, 1, 0)]},
     'SELECT x FROM int2.tc EXCEPT SELECT * FROM (SELECT x FROM int3.te ORDER BY x LIMIT 2)'),
]


# round 6: names that need quoting, in the positions where the planner rebuilds identifiers (logical text, naming index of
# c08gen.NAMINGS): ON key -> DISTINCT / IN filter, pushed ORDER BY + LIMIT, pushed WHERE, renamed tables, renamed aliases
CASES6 = [
    (1, 'names', 'SELECT p.x, q.y FROM int1.ta AS p JOIN int2.tc AS q ON p.id = q.id', [], '', None,
     {('int1', 'ta'): [(1, 5, 0), (2, 7, 0)], ('int2', 'tc'): [(1, 0, 1), (2, 0, 2), (5, 0, 3)]}),
    (2, 'names', 'SELECT ta.x, ta.y, tc.id FROM int1.ta LEFT JOIN int2.tc ON ta.y = tc.x', [0], ' ORDER BY ta.x DESC', 1,
     {('int1', 'ta'): [(1, 1, 0), (2, 2, 1)], ('int2', 'tc'): [(7, 1, 2)]}),
    (3, 'default', 'SELECT u.id, v.y FROM ta AS u LEFT JOIN int3.te AS v ON u.y = v.x WHERE u.x > 0', [], '', None,
     {('int1', 'ta'): [(1, 1, 2), (2, 0, 2)], ('int3', 'te'): [(1, 2, 0), (2, 1, 1)]}),
    (5, 'names', 'SELECT td.x, tf.y FROM int2.td JOIN int3.tf ON td.id = tf.id WHERE tf.y = 1', [], '', None,
     {('int2', 'td'): [(1, 0, 0), (2, 1, 0)], ('int3', 'tf'): [(1, 0, 1), (2, 0, 0)]}),
    (6, 'names', 'SELECT p.x, q.y FROM int1.ta AS p LEFT JOIN int2.tc AS q ON p.id = q.id', [0], ' ORDER BY p.x', 2,
     {('int1', 'ta'): [(1, 2, 0), (2, 1, 0), (3, 0, 0)], ('int2', 'tc'): [(2, 0, 5)]}),
]


def case_queries():
    for cat, body, op, osql, lim, contents in CASES:
        yield g.Q('case', cat, body, op, osql, lim, None, sorted(contents), feats=['case']), contents
    for cat, body, op, osql, lim, contents, ref in CASES5:
        yield g.Q('case', cat, body, op, osql, lim, None, sorted(contents), feats=['case'], ref_body=ref), contents
    for naming, cat, body, op, osql, lim, contents in CASES6:
        yield g.renamed(g.Q('case', cat, body, op, osql, lim, None, sorted(contents), feats=['case']), naming), contents


def seed_queries():
    for cat, body, lim in SEEDS:
        tabs = [(i, t) for (i, t) in g.TABLES if '%s.%s' % (i, t) in body]
        yield g.Q('seed', cat, body, limit=lim, tables=tabs, feats=['seed'])


# ----------------------------------------------------------------------------- the probe
def probe_query(chk, world, q, contents_iter, dist, max_fail_per_query=3):
    world = world_for(q, world)
    try:
        steps = plan_for(q).steps
    except Exception as e:
        k = 'planner-exception/%s/%s' % (q.kind, type(e).__name__)
        dist[k] = dist.get(k, 0) + 1
        return
    seen = set()
    for contents in contents_iter:
        chk.count((q.sql, sorted(contents.items())))
        try:
            f = run_case(world, q, steps, contents)
        except Exception as e:        # the reference itself failed: generator problem, not a verdict
            k = 'reference-error/%s' % q.kind
            dist[k] = dist.get(k, 0) + 1
            chk.notes.append('reference error on %s: %s' % (q.sql, e))
            return
        if f is None:
            continue
        sigs = attribute(world, q, steps, f)
        key = tuple(sigs)
        if key in seen:
            continue
        seen.add(key)
        # shrink the contents keeping the same attribution
        small = shrink(world, q, steps, contents, lambda ff: tuple(attribute(world, q, steps, ff)) == key)
        f2 = run_case(world, q, steps, small)
        if f2 is not None:
            attribute(world, q, steps, f2)
            f = f2
        f['plan'] = steps_text(steps)
        classify(chk, f)
        chk.fail(clean(f))
        k = 'fail/' + ('|'.join(sigs) or 'unattributed')
        dist[k] = dist.get(k, 0) + 1
        if len(seen) >= max_fail_per_query:
            break
    dist['queries/' + q.kind] = dist.get('queries/' + q.kind, 0) + 1


def replay_kf(chk, world):
    """every open known finding's witness must still fail, with the same attribution; the witness of a FIXED finding is
    replayed as a regression case: if it fails again it is classified like any other failure (its class is not open any
    more, so that is a VIOLATION)"""
    for k in current_kf(chk):
        if k.get('status') not in ('open', 'fixed'):
            continue
        wit = k['witness']
        q = g.Q.from_json(wit['query'])
        contents = {(i, t): [tuple(r) for r in rows] for i, t, rows in wit['contents']}
        world = world_for(q, world)
        try:
            steps = plan_for(q).steps
            f = run_case(world, q, steps, contents)
        except Exception as e:
            chk.notes.append('KF witness %s could not be run: %s' % (k['id'], e))
            continue
        if f is None:
            if k.get('status') == 'open':
                chk.notes.append('KF witness %s no longer fails' % k['id'])
            continue
        attribute(world, q, steps, f)
        f['plan'] = steps_text(steps)
        classify(chk, f)
        chk.fail(clean(f))


def run(chk):
    quick = chk.tier == 'quick'
    world = px.World(g.SCHEMA)
    # 1. Lean fragment: skeleton + semantics correspondence
    corr_plan2(chk, world, 600 if quick else 6000)
    corr_chain(chk)
    corr_uselimit(chk)
    corr_agg(chk, world, 300 if quick else 3000)
    corr_setop(chk, world, 240 if quick else 2500)
    corr_names(chk, 160 if quick else 1500)
    corr_isolation(chk, world, 80 if quick else 1000)
    deep = (not quick) or bool(chk.broken())
    # 2. impl-level probe
    dist = {}
    t0 = time.time()
    for q in seed_queries():
        probe_query(chk, world, q, g.all_contents_small(q.tables), dist, max_fail_per_query=2)
    for q, contents in case_queries():
        probe_query(chk, world, q, [contents], dist)
    replay_kf(chk, world)
    rng = common.rng_for(chk.seed, 'C08/probe')
    nq, nc, maxrows = (2400, 8, 2) if not deep else ((12000, 24, 3) if not quick else (4000, 16, 3))
    budget = 55 if quick and not deep else (110 if quick else 780)
    done = 0
    for i in range(nq):
        q = g.gen_query(rng)
        if 'chain' in q.feats:
            cs = (g.gen_contents_match(rng, q.tables, maxrows) for _ in range(nc + 4))
        elif 'aggnest' in q.feats:
            cs = (g.gen_contents_match(rng, q.tables, maxrows + 1) for _ in range(nc))
        elif 'dups' in q.feats:
            cs = (g.gen_contents_dups(rng, q.tables, maxrows + 2) for _ in range(nc + 4))
        elif 'ties' in q.feats:
            cs = (g.gen_contents_ties(rng, q.tables, maxrows + 1) for _ in range(nc + 4))
        else:
            cs = (g.gen_contents(rng, q.tables, maxrows if rng.random() < 0.8 else maxrows - 1) for _ in range(nc))
        probe_query(chk, world, q, cs, dist)
        done += 1
        if time.time() - t0 > budget:
            chk.notes.append('probe stopped by its time budget after %d of %d queries' % (done, nq))
            break
    dist['probe_queries'] = done
    dist['probe_seconds'] = round(time.time() - t0, 1)
    chk.corr_result('probe-distribution(real plans through the reference executor)', done, 0, None, dist)
    for k in chk.kf:
        if k.get('_reproduced'):
            pass
    for f in chk.failures[:4]:
        chk.samples.append(dict(probe='failure', sql=f['sql'], contents=f['contents'], expected=f['expected'],
                                actual=f['actual'], sigs=f.get('sigs'), kf=f.get('kf')))
    chk.samples.append(dict(theorem='C08_partial (rows are pairs, ON = t0.c0 = t1.c1): (innerJoin (L.filter pL) ((R.filter pR).filter '
                                    '(key IN distinct keys of L.filter pL))).filter w = (innerJoin L R).filter w  given w (l, r) => pL l and '
                                    'w (l, r) => pR r; instantiated with real column comparisons in Props/C08.lean'))
    chk.samples.append(dict(theorem='C08_partial_model: planSound q = true -> execPlan (plan q) db = evalQuery q db   (planSound q = (plan q).limit0.isNone || q.kind.isLeft)'))
    chk.samples.append(dict(theorem='C08_agg_partial_model: planSound q.toQ2 = true -> execPlanA (planA q) q.targets db = evalQueryA q db   (select list row-wise or aggregated at any depth)'))
    chk.samples.append(dict(theorem='C08_set: execSetPlan (planSet q []) db = q.eval db   (every tree of UNION [ALL] / INTERSECT / EXCEPT, operands with DISTINCT / GROUP BY / ORDER BY / LIMIT / OFFSET)'))
    chk.samples.append(dict(theorem='C08_witness_limit_inner: execPlan (plan limQ) limDB != evalQuery limQ limDB  (inner join LIMIT 1)'))
    return chk.finish(assumptions=ASSUME, extra=dict(notes=chk.notes[:20]))


def replay(path):
    data = json.load(open(path))
    f = data.get('failure')
    if not f:
        print(json.dumps(data, indent=1)[:3000])
        return 1
    q = g.Q.from_json(f['query'])
    world = world_for(q, px.World(g.SCHEMA))
    contents = {(i, t): [tuple(r) for r in rows] for i, t, rows in f['contents']}
    steps = plan_for(q).steps
    r = run_case(world, q, steps, contents)
    if r is not None:
        attribute(world, q, steps, r)
        print('REPRODUCED', q.sql)
        print(' contents', f['contents'])
        print(' expected', r['expected'], ' actual', r['actual'], ' why:', r['why'])
        print(' attribution', r['sigs'])
        for s in steps_text(steps):
            print('   ', s)
        return 1
    print('not reproduced', q.sql)
    return 0
