"""C08 — executing a federated plan returns what the original query returns."""
import json, os, re, time

from tools.harness import common
from tools.harness import planexec as px, c08gen as g, c08cause as cz

ID = 'C08'
TARGETS = ['MindsVerif.Props.C08']
_T = 'MindsVerif.Props.C08.'
THEOREMS = [_T + n for n in (
    'C08_T81_inner', 'C08_T81_left', 'C08_witness_semi_right', 'C08_witness_semi_full',
    'C08_regression_semi_kinds', 'C08_regression_semi_right', 'C08_regression_semi_full',
    'C08_T82_inner_right', 'C08_T82_inner_left', 'C08_T82_left_left', 'C08_T82_left_right',
    'C08_T82_collected', 'C08_T82_pushed', 'C08_regression_not_pushes_nothing', 'C08_regression_not', 'C08_T82_pushedK', 'C08_regression_isnull_not_pushed', 'C08_regression_isnull',
    'C08_witness_isnull',
    'C08_T83_limit_left', 'C08_useLimit_two_tables', 'C08_useLimit_group_by', 'C08_useLimit_third',
    'C08_witness_limit_inner', 'C08_plan_limit_inner', 'C08_witness_limit_group',
    'C08_partial', 'C08_partial_left', 'C08_partial_limit', 'C08_partial_model', 'C08_partial_model_nolimit', 'C08_partial_model_inner', 'C08_partial_model_left', 'C08_partial_model_left_limit',
    'C08_witness_limit_where', 'C08_regression_limit_where', 'C08_limit_pushed_when_where_applied',
    'C08_limit_inner_sound_if_total', 'C08_limit_inner_sound_if_one_to_one', 'C08_offset_left_sound_if_at_most_one',
    'C08_witness_offset_left', 'C08_markNullable_spec', 'C08_nullableSide_eq_chain', 'C08_chain3_push_first',
    'C08_chain3_flag', 'C08_witness_chain3_isnull', 'C08_T83_limit_left_left', 'C08_T81_third_table', 'C08_union_all_compositional', 'C08_union_distinct_compositional',
    'C08_cte_compositional', 'C08_not_full')]
ASSUME = [
    'SQL semantics of the theorems = MindsVerif.Sem (Int|Str|Null, 3-valued logic, list-of-rows tables, joins of every '
    'kind); validated against sqlite3 3.40 by the plan2 correspondence streams of this run (model evalQuery vs sqlite, '
    'model execPlan vs the reference executor running the REAL plan)',
    'PlanJoinTablesQuery (check_query_conditions, mark_nullable_tables / filter_accepts_null, check_use_limit, '
    'where_is_applied_before_join, get_filters_from_join_conditions, process_table) is hand-modelled for the two-table '
    'fragment (Sem.plan) and, for mark_nullable_tables, for chains of any length (Sem.markNullable); ties = skeleton '
    'correspondence on generated fragment queries and the exhaustive black-box chain-nullable correspondence (all 2-4 table '
    'chains of join spellings)',
    'C08_partial_model (execPlan (plan q) db = evalQuery q db for all databases) covers every two-table query satisfying '
    'the decidable condition Sem.planSound q = (plan q).limit0.isNone || q.kind.isLeft, i.e. every query without LIMIT (all '
    'join kinds, any WHERE tree) and every LEFT-join query; the driver reports planSound per case and this run checks that '
    'the REAL plan is right on every such case (plan2-theorem)',
    'step meaning = docstrings of planner/steps.py as implemented by tools/harness/planexec.py (dataframes keep '
    '(table alias, column); SubSelectStep resolves by column name, QueryStep/JoinStep by alias+name; `OFFSET n` alone skips n '
    'rows); fetch queries are printed with the library\'s own str(query) and executed by sqlite3',
    'the impl-level probe (typed query generator x small table contents) is search, not proof; everything beyond the Lean '
    'fragment (pushdown into later tables of 3-4 table chains, sub-selects / CTEs as operands, CTE names colliding with real '
    'table names in every table position, IN / NOT IN / scalar sub-queries, UNION / INTERSECT / EXCEPT, nested selects, GROUP '
    'BY, ORDER BY + LIMIT / OFFSET with ties, api-type integrations) is covered by the probe only; EXISTS over a planned '
    'sub-query, window functions, predictors and raw_query fetches are not generated',
    'a failing case counts as a known finding only if executing the same real plan without one kind of pushdown repairs it '
    'AND the plan shape violates the side condition of the corresponding theorem AND that signature is an OPEN entry '
    '(currently only limit/nonleft-join and limit/offset-below-join, both pinned by the library\'s tests); fixed entries are '
    'replayed as regression cases',
]

COLIDX = {'id': 0, 'x': 1, 'y': 2}
KINDS = {'JOIN': 'inner', 'INNER JOIN': 'inner', 'LEFT JOIN': 'left', 'RIGHT JOIN': 'right', 'FULL JOIN': 'full',
         'LEFT OUTER JOIN': 'leftOuter'}


# ----------------------------------------------------------------------------- running one query
def plan_for(q):
    from mindsdb_sql import parse_sql
    from mindsdb_sql.planner import plan_query
    import copy
    return plan_query(parse_sql(q.sql, 'mindsdb'), **copy.deepcopy(g.CATALOGS[q.catalog]))


def steps_text(steps):
    out = []
    for s in steps:
        d = {k: re.sub(r'\bt_\d+\b', 't_N', str(v)) for k, v in vars(s).items() if k not in ('step_num', 'result_data')}
        out.append('%s %s %s' % (s.step_num, type(s).__name__, d))
    return out


def run_case(world, q, steps, contents):
    """returns None | failure dict (without classification)"""
    world.load(contents)
    F = world.reference(q.nolimit_sql)
    err = None
    rows = None
    try:
        df = px.exec_plan(world, steps)
        rows = df.rows
        why = g.compare(q, F, rows)
    except px.ExecError as e:
        why = 'the plan cannot be carried out per the step docstrings: %s' % str(e)[:200]
        err = str(e)
    if why is None:
        return None
    off = q.offset or 0
    exp = F if q.limit is None else F[off: off + q.limit]
    return dict(desc='plan result differs from the original query on one engine: ' + why, sql=q.sql, catalog=q.catalog,
                query=q.to_json(), contents=[[i, t, [list(r) for r in rows_]] for (i, t), rows_ in sorted(contents.items())],
                expected=[list(r) for r in exp], expected_without_limit=[list(r) for r in F] if q.limit is not None else None,
                actual=[list(r) for r in rows] if rows is not None else None, exec_error=err, why=why, _F=F)


def shrink(world, q, steps, contents, same):
    """greedy row removal while `same(failure)` still holds"""
    cur = {k: list(v) for k, v in contents.items()}
    changed = True
    while changed:
        changed = False
        for k in list(cur):
            i = 0
            while i < len(cur[k]):
                trial = dict(cur)
                trial[k] = cur[k][:i] + cur[k][i + 1:]
                f = run_case(world, q, steps, trial)
                if f is not None and same(f):
                    cur = trial
                    changed = True
                else:
                    i += 1
    return cur


CTE_RE = re.compile(r'^WITH (\w+) AS \(SELECT .*? FROM (\w+)\.(\w+)', re.I)


def cte_sigs(q, steps, f):
    """two narrow classes around a CTE whose name equals the name of a real table (static predicates on query + plan)"""
    from mindsdb_sql.planner import steps as S
    m = CTE_RE.match(q.body)
    if not m:
        return []
    name, src_int, src_tab = m.group(1).lower(), m.group(2).lower(), m.group(3).lower()
    dn = g.CATALOGS[q.catalog].get('default_namespace')
    fetches = [s for s in steps if isinstance(s, S.FetchDataframeStep)]
    # (a) whole statement sent to one integration with the qualifiers stripped: a real table named like the CTE (its own
    #     source table -> circular reference, or another table of that integration) is now read as the CTE
    if len(steps) == 1 and fetches and fetches[0].query is not None and getattr(fetches[0].query, 'cte', None) \
            and re.search(r'\b%s\.%s\b' % (re.escape(fetches[0].integration), re.escape(name)), q.body, re.I):
        return ['cte-shadow/pushdown-strips-qualifier']
    # (b) a QUALIFIED table `<default_namespace>.<cte name>` is taken for the CTE
    if dn and re.search(r'\b%s\.%s\b' % (re.escape(dn), re.escape(name)), q.body[m.end(1):], re.I) \
            and not any(s.integration == dn and re.search(r'\bFROM %s\b' % re.escape(name), str(s.query), re.I) for s in fetches):
        return ['cte-shadow/qualified-table-in-default-namespace']
    return []


def attribute(world, q, steps, f):
    sigs, a = cz.analyse(world, q, steps, g.CATALOGS[q.catalog], f['_F'], g.compare)
    if not sigs:
        sigs = cte_sigs(q, steps, f)
    f['sigs'] = sigs
    f['pushdowns_in_plan'] = a.kinds()
    return sigs


def current_kf(chk):
    """entries by id; a proposal (kf_proposed_C08.json, loaded after known_findings.json) overrides the merged entry"""
    byid = {}
    for k in chk.kf:
        byid[k['id']] = k
    return list(byid.values())


def classify(chk, f):
    """a failure is covered iff some alternative signature consists only of open known findings"""
    known = {k['sig']: k for k in current_kf(chk) if k.get('status') == 'open' and k.get('sig')}
    f['attributed'] = None
    for alt in f.get('sigs', []):
        parts = alt.split('+')
        if all(p in known for p in parts):
            f['attributed'] = parts[0]
            for p in parts:
                known[p]['_reproduced'] = True
            break
    f['class'] = '|'.join(f.get('sigs', [])) or 'unattributed:' + f['query']['kind']
    cur = {id(k) for k in current_kf(chk)}
    chk.classify(f, lambda k, ff: id(k) in cur and k.get('sig') is not None and k['sig'] == ff['attributed'])


def clean(f):
    return {k: v for k, v in f.items() if not k.startswith('_')}


# ----------------------------------------------------------------------------- plan2 correspondence (Lean fragment)
def gen_expr(rng, depth):
    r = rng.random()
    if depth <= 0 or r < 0.4:
        r2 = rng.random()
        if r2 < 0.6:
            return ('c', rng.choice(g.CMP), rng.randrange(2), rng.randrange(3), rng.randrange(3))
        if r2 < 0.8:
            return ('cc', rng.choice(g.CMP), rng.randrange(3), rng.randrange(3))
        return ('n', rng.randrange(2), rng.randrange(3))
    if r < 0.7:
        return ('&', gen_expr(rng, depth - 1), gen_expr(rng, depth - 1))
    if r < 0.85:
        return ('|', gen_expr(rng, depth - 1), gen_expr(rng, depth - 1))
    return ('!', gen_expr(rng, depth - 1))


T2 = ['ta', 'tc']


def expr_sql(e):
    if e[0] == 'c':
        return '%s.%s %s %d' % (T2[e[2]], g.COLS[e[3]], e[1], e[4])
    if e[0] == 'cc':
        return 'ta.%s %s tc.%s' % (g.COLS[e[2]], e[1], g.COLS[e[3]])
    if e[0] == 'n':
        return '%s.%s IS NULL' % (T2[e[1]], g.COLS[e[2]])
    if e[0] == '&':
        return '(%s AND %s)' % (expr_sql(e[1]), expr_sql(e[2]))
    if e[0] == '|':
        return '(%s OR %s)' % (expr_sql(e[1]), expr_sql(e[2]))
    return 'NOT (%s)' % expr_sql(e[1])


def expr_tokens(e):
    if e[0] in ('&', '|'):
        return '%s %s %s' % (e[0], expr_tokens(e[1]), expr_tokens(e[2]))
    if e[0] == '!':
        return '! ' + expr_tokens(e[1])
    return ' '.join(str(x) for x in e)


def abstract_conj(c, side_of):
    """fetch conjunct -> model token string, or None"""
    from mindsdb_sql.parser import ast
    if isinstance(c, ast.BinaryOperation) and len(c.args) == 2 and isinstance(c.args[0], ast.Identifier):
        col = COLIDX.get(str(c.args[0].parts[-1]).lower())
        if col is None:
            return None
        if c.op.lower() == 'is' and isinstance(c.args[1], ast.NullConstant):
            return 'n %d %d' % (side_of, col)
        if isinstance(c.args[1], ast.Constant) and isinstance(c.args[1].value, int) and c.op in g.CMP:
            return 'c %s %d %d %d' % (c.op, side_of, col, c.args[1].value)
    return None


def abstract_plan2(steps):
    """real plan of a fragment query -> skeleton string comparable with the driver output"""
    from mindsdb_sql.planner import steps as S
    fetches = [s for s in steps if isinstance(s, S.FetchDataframeStep)]
    if len(fetches) != 2 or not any(isinstance(s, S.JoinStep) for s in steps):
        return 'shape:' + ','.join(type(s).__name__ for s in steps)
    by = {s.step_num: s for s in steps}
    out = []
    semi = 0
    for side, f in enumerate(fetches):
        toks = []
        for c in cz.conjuncts(f.query.where):
            if cz.is_semi(c, by):
                semi += 1
                continue
            t = abstract_conj(c, side)
            toks.append(t if t is not None else '?' + str(c))
        out.append('push%d=[%s]' % (side, '; '.join(toks)))
    lim0 = fetches[0].query.limit
    out.append('limit0=%s' % ('-' if lim0 is None else lim0.value))
    if fetches[1].query.limit is not None:
        out.append('limit1=%s' % fetches[1].query.limit.value)
    out.append('semi=%d' % semi)
    return ' '.join(out)


def rows_tok(rows):
    return '/'.join(','.join('N' if v is None else str(v) for v in r) for r in rows) if rows else '.'


def parse_rows(tok):
    tok = tok.strip()
    if tok == '.':
        return []
    return [tuple(None if v == 'N' else int(v) for v in r.split(',')) for r in tok.split('/')]


def corr_plan2(chk, world, n):
    rng = common.rng_for(chk.seed, 'C08/plan2')
    lines, metas = [], []
    dist = {}
    for i in range(n):
        kind_sql = rng.choice(list(KINDS))
        c0, c1 = rng.randrange(3), rng.randrange(3)
        e = gen_expr(rng, rng.choice([0, 1, 2, 2, 3])) if rng.random() < 0.75 else None
        lim = rng.choice([0, 1, 2]) if rng.random() < 0.4 else None
        grp = rng.random() < 0.15
        hav = grp and rng.random() < 0.4
        where = (' WHERE ' + expr_sql(e)) if e else ''
        frm = 'int1.ta %s int2.tc ON ta.%s = tc.%s' % (kind_sql, g.COLS[c0], g.COLS[c1])
        if grp:
            body = 'SELECT ta.x, count(*) AS n0 FROM %s%s GROUP BY ta.x%s' % (frm, where, ' HAVING count(*) > 0' if hav else '')
        else:
            body = 'SELECT * FROM %s%s' % (frm, where)
        q = g.Q('plan2', 'names', body, limit=lim, tables=[('int1', 'ta'), ('int2', 'tc')])
        contents = g.gen_contents(rng, q.tables, 2 if not chk.deep else 3)
        t0, t1 = contents[('int1', 'ta')], contents[('int2', 'tc')]
        lines.append('%s %d %d %s %d %d %s ; %s ; %s' % (KINDS[kind_sql], c0, c1, '-' if lim is None else lim, int(grp), int(hav),
                                                       expr_tokens(e) if e else '-', rows_tok(t0), rows_tok(t1)))
        metas.append((q, contents, grp, lim))
        k = '%s/%s%s%s' % (KINDS[kind_sql], 'where' if e else 'nowhere', '/limit' if lim is not None else '', '/group' if grp else '')
        dist[k] = dist.get(k, 0) + 1
    try:
        outs = common.lean_run('C08', lines)
    except Exception as e:
        chk.oblige('corr:plan2', 'correspondence', False, 'driver failed: %s' % e)
        return
    diverged, first = 0, None
    sem_cases = sem_div = 0
    sem_first = None
    thm_cases = thm_div = 0
    thm_first = None
    for (q, contents, grp, lim), line, o in zip(metas, lines, outs):
        chk.count(('plan2', line))
        m = re.match(r'(.*) \| plan=(.*) \| query=(.*) \| sound=([01])$', o)
        why = None
        if not m:
            why = 'driver output: ' + o
        else:
            try:
                steps = plan_for(q).steps
                real = abstract_plan2(steps)
            except Exception as e:
                real = 'exc:%s' % type(e).__name__
                steps = None
            if real != m.group(1):
                why = 'skeleton: model %r real %r' % (m.group(1), real)
            elif m.group(4) == '1' and steps is not None:
                # the hypothesis of C08_partial_model holds: the REAL plan must return what the query returns
                thm_cases += 1
                world.load(contents)
                try:
                    bad = g.compare(q, world.reference(q.nolimit_sql), px.exec_plan(world, steps).rows)
                except px.ExecError as e:
                    bad = 'executor error %s' % e
                if bad:
                    thm_div += 1
                    thm_first = thm_first or dict(sql=q.sql, line=line, why=bad)
            if why is None and not grp and lim is None and steps is not None:
                # semantics: model evalQuery vs sqlite, model execPlan vs the executor on the real plan
                sem_cases += 1
                world.load(contents)
                ref = world.reference(q.nolimit_sql)
                w2 = None
                if g.multiset(parse_rows(m.group(3))) != g.multiset(ref):
                    w2 = 'evalQuery: model %s sqlite %s' % (m.group(3), ref)
                else:
                    try:
                        got = px.exec_plan(world, steps).rows
                        if g.multiset(parse_rows(m.group(2))) != g.multiset(got):
                            w2 = 'execPlan: model %s executor(real plan) %s' % (m.group(2), got)
                    except px.ExecError as e:
                        w2 = 'executor error %s' % e
                if w2:
                    sem_div += 1
                    sem_first = sem_first or dict(sql=q.sql, line=line, why=w2)
        if why:
            diverged += 1
            first = first or dict(sql=q.sql, line=line, why=why)
    chk.corr_result('plan2-skeleton', len(lines), diverged, first, dist)
    chk.corr_result('plan2-semantics(model vs sqlite, model vs executor on real plan)', sem_cases, sem_div, sem_first)
    chk.corr_result('plan2-theorem(planSound q => real plan == query on the engine)', thm_cases, thm_div, thm_first)
    for (q, _, _, _), line, o in list(zip(metas, lines, outs))[:3]:
        chk.samples.append(dict(corr='plan2', sql=q.sql, driver_in=line, driver_out=o[:300]))


# ----------------------------------------------------------------------------- chain correspondence (mark_nullable_tables)
CHAIN_KINDS = {'JOIN': 'inner', 'INNER JOIN': 'inner', 'LEFT JOIN': 'left', 'LEFT OUTER JOIN': 'leftOuter',
               'RIGHT JOIN': 'right', 'FULL JOIN': 'full', 'FULL OUTER JOIN': 'full'}
CHAIN_TABLES = [('int1.ta', 'a'), ('int2.tc', 'b'), ('int3.te', 'c'), ('int1.tb', 'd'), ('int2.td', 'e')]


def real_nullable(kinds):
    """black box: `t.x IS NULL` is a top-level WHERE conjunct for every table of the chain; it is pushed into the fetch
    of a table iff the planner does not regard that table as null-supplying"""
    import itertools as it
    from mindsdb_sql import parse_sql
    from mindsdb_sql.planner import plan_query, steps as S
    tabs = CHAIN_TABLES[:len(kinds) + 1]
    frm = '%s AS %s' % tabs[0]
    for i, k in enumerate(kinds):
        # every table is joined to its predecessor or (alternating) to the first table
        other = tabs[i][1] if i % 2 == 0 else tabs[0][1]
        frm += ' %s %s AS %s ON %s.id = %s.id' % (k, tabs[i + 1][0], tabs[i + 1][1], tabs[i + 1][1], other)
    sql = 'SELECT * FROM %s WHERE %s' % (frm, ' AND '.join('%s.x IS NULL' % a for _, a in tabs))
    plan = plan_query(parse_sql(sql, 'mindsdb'), integrations=['int1', 'int2', 'int3'])
    flags = []
    for _, a in tabs:
        f = [s for s in plan.steps if isinstance(s, S.FetchDataframeStep) and px.table_alias_of(s.query) == a]
        if len(f) != 1:
            return sql, 'fetches(%s)=%d' % (a, len(f))
        pushed = any(str(c).replace('`', '').lower() == 'x is null' for c in cz.conjuncts(f[0].query.where))
        flags.append('0' if pushed else '1')
    return sql, 'nullable=' + ','.join(flags)


def corr_chain(chk):
    import itertools as it
    lens = (1, 2, 3) if not chk.deep else (1, 2, 3, 4)
    cases = [ks for n in lens for ks in it.product(sorted(CHAIN_KINDS), repeat=n)]
    if 4 in lens:
        rng = common.rng_for(chk.seed, 'C08/chain')
        cases = [ks for ks in cases if len(ks) < 4] + rng.sample([ks for ks in cases if len(ks) == 4], 600)
    lines = ['chain ' + ' '.join(CHAIN_KINDS[k] for k in ks) for ks in cases]
    try:
        outs = common.lean_run('C08', lines)
    except Exception as e:
        chk.oblige('corr:chain-nullable', 'correspondence', False, 'driver failed: %s' % e)
        return
    diverged, first = 0, None
    dist = {}
    for ks, o in zip(cases, outs):
        chk.count(('chain', ks))
        try:
            sql, real = real_nullable(ks)
        except Exception as e:
            sql, real = ' '.join(ks), 'exc:%s:%s' % (type(e).__name__, str(e)[:80])
        dist['tables=%d' % (len(ks) + 1)] = dist.get('tables=%d' % (len(ks) + 1), 0) + 1
        if real != o:
            diverged += 1
            first = first or dict(sql=sql, kinds=list(ks), model=o, real=real)
    chk.corr_result('chain-nullable(mark_nullable_tables over 2-5 table chains, black box via IS NULL pushdown)', len(cases),
                    diverged, first, dist)


# ----------------------------------------------------------------------------- seeds (exhaustive tiny databases)
SEEDS = [
    ('names', 'SELECT * FROM int1.ta JOIN int2.tc ON ta.id = tc.id', None),
    ('names', 'SELECT * FROM int1.ta LEFT JOIN int2.tc ON ta.id = tc.id WHERE tc.y = 1', None),
    ('names', 'SELECT * FROM int1.ta RIGHT JOIN int2.tc ON ta.id = tc.id', None),
    ('names', 'SELECT * FROM int1.ta JOIN int2.tc ON ta.id = tc.id WHERE NOT tc.y = 1', None),
    ('names', 'SELECT * FROM int1.ta LEFT JOIN int2.tc ON ta.id = tc.id WHERE tc.y IS NULL', None),
    ('names', 'SELECT * FROM int1.ta JOIN int2.tc ON ta.id = tc.id', 1),
    ('names', 'SELECT * FROM int1.ta WHERE x IN (SELECT y FROM int2.tc)', None),
    ('names', 'SELECT * FROM int1.ta WHERE x NOT IN (SELECT y FROM int2.tc)', None),
    ('names', 'SELECT x, y FROM int1.ta UNION SELECT x, y FROM int2.tc', None),
]


# fixed regression cases with hand-made contents: (catalog, body, order_pos, order_sql, limit, contents)
CASES = [
    # CTE named like a real table of ANOTHER integration that is used (qualified) in the same statement
    ('default', 'WITH tc AS (SELECT id, x, y FROM int1.ta) SELECT tc.x, b.y FROM tc JOIN int2.tc AS b ON tc.id = b.id', [], '', None,
     {('int1', 'ta'): [(1, 0, 0)], ('int2', 'tc'): [(1, 2, 2)]}),
    ('project', 'WITH tc AS (SELECT id, x, y FROM int1.ta) SELECT tc.x, b.y FROM int2.tc AS b JOIN tc ON tc.id = b.id', [], '', None,
     {('int1', 'ta'): [(1, 0, 0)], ('int2', 'tc'): [(1, 2, 2), (2, 1, 1)]}),
    ('default', 'WITH ta AS (SELECT id, x, y FROM int1.ta WHERE x = 0) SELECT ta.x, ta.y FROM ta', [], '', None,
     {('int1', 'ta'): [(1, 0, 0), (2, 1, 1)]}),
    ('project', 'WITH ta AS (SELECT id, x, y FROM int1.tb) SELECT ta.x, p.y FROM ta LEFT JOIN int1.ta AS p ON ta.id = p.id', [], '', None,
     {('int1', 'ta'): [(1, 0, 1)], ('int1', 'tb'): [(1, 2, 2)]}),
    # … and the qualified real table in a plain FROM / a nested FROM / an IN sub-query / a UNION side (the CTE is used too)
    ('default', 'WITH tc AS (SELECT id, x, y FROM int1.ta) SELECT tc.x, tc.y FROM int2.tc WHERE tc.x IN (SELECT x FROM tc)', [], '', None,
     {('int1', 'ta'): [(1, 0, 0)], ('int2', 'tc'): [(1, 0, 2)]}),
    ('project', 'WITH tc AS (SELECT id, x, y FROM int1.ta) SELECT s.x, s.y FROM (SELECT id, x, y FROM int2.tc) AS s WHERE s.x IN (SELECT x FROM tc)', [], '', None,
     {('int1', 'ta'): [(1, 0, 0)], ('int2', 'tc'): [(1, 0, 2)]}),
    ('default', 'WITH tc AS (SELECT id, x, y FROM int1.ta) SELECT a.x, a.y FROM int3.te AS a WHERE a.x IN (SELECT x FROM int2.tc) AND a.y IN (SELECT y FROM tc)', [], '', None,
     {('int1', 'ta'): [(1, 0, 0)], ('int2', 'tc'): [(1, 1, 2)], ('int3', 'te'): [(1, 1, 0)]}),
    ('project', 'WITH tc AS (SELECT id, x, y FROM int1.ta) SELECT x, y FROM tc UNION ALL SELECT x, y FROM int2.tc', [], '', None,
     {('int1', 'ta'): [(1, 0, 0)], ('int2', 'tc'): [(1, 1, 2)]}),
    # multi-key ORDER BY + LIMIT over a LEFT JOIN, ties in the leading key across the limit boundary
    ('names', 'SELECT p.x, q.y FROM int1.ta AS p LEFT JOIN int2.tc AS q ON p.id = q.id', [0, 1], ' ORDER BY p.x, q.y', 1,
     {('int1', 'ta'): [(1, 0, 0), (2, 0, 0)], ('int2', 'tc'): [(1, 0, 2), (2, 0, 1)]}),
    ('names', 'SELECT p.x, q.y FROM int1.ta AS p LEFT JOIN int2.tc AS q ON p.id = q.id', [0, 1], ' ORDER BY p.x, q.y', 1,
     {('int1', 'ta'): [(2, 0, 0), (1, 0, 0)], ('int2', 'tc'): [(1, 0, 2), (2, 0, 1)]}),
    ('names', 'SELECT p.x, q.y FROM int1.ta AS p LEFT JOIN int2.tc AS q ON p.id = q.id', [0, 1], ' ORDER BY p.x DESC, q.y DESC', 2,
     {('int1', 'ta'): [(1, 1, 0), (2, 1, 0), (3, 1, 0)], ('int2', 'tc'): [(1, 0, 0), (2, 0, 1), (3, 0, 2)]}),
    ('names', 'SELECT p.x, q.y FROM int1.ta AS p LEFT JOIN int2.tc AS q ON p.id = q.id', [0, 1], ' ORDER BY p.x DESC, q.y DESC', 2,
     {('int1', 'ta'): [(3, 1, 0), (2, 1, 0), (1, 1, 0)], ('int2', 'tc'): [(1, 0, 0), (2, 0, 1), (3, 0, 2)]}),
]


def case_queries():
    for cat, body, op, osql, lim, contents in CASES:
        yield g.Q('case', cat, body, op, osql, lim, None, sorted(contents), feats=['case']), contents


def seed_queries():
    for cat, body, lim in SEEDS:
        tabs = [(i, t) for (i, t) in g.TABLES if '%s.%s' % (i, t) in body]
        yield g.Q('seed', cat, body, limit=lim, tables=tabs, feats=['seed'])


# ----------------------------------------------------------------------------- the probe
def probe_query(chk, world, q, contents_iter, dist, max_fail_per_query=3):
    try:
        steps = plan_for(q).steps
    except Exception as e:
        k = 'planner-exception/%s/%s' % (q.kind, type(e).__name__)
        dist[k] = dist.get(k, 0) + 1
        return
    seen = set()
    for contents in contents_iter:
        chk.count((q.sql, sorted(contents.items())))
        try:
            f = run_case(world, q, steps, contents)
        except Exception as e:        # the reference itself failed: generator problem, not a verdict
            k = 'reference-error/%s' % q.kind
            dist[k] = dist.get(k, 0) + 1
            chk.notes.append('reference error on %s: %s' % (q.sql, e))
            return
        if f is None:
            continue
        sigs = attribute(world, q, steps, f)
        key = tuple(sigs)
        if key in seen:
            continue
        seen.add(key)
        # shrink the contents keeping the same attribution
        small = shrink(world, q, steps, contents, lambda ff: tuple(attribute(world, q, steps, ff)) == key)
        f2 = run_case(world, q, steps, small)
        if f2 is not None:
            attribute(world, q, steps, f2)
            f = f2
        f['plan'] = steps_text(steps)
        classify(chk, f)
        chk.fail(clean(f))
        k = 'fail/' + ('|'.join(sigs) or 'unattributed')
        dist[k] = dist.get(k, 0) + 1
        if len(seen) >= max_fail_per_query:
            break
    dist['queries/' + q.kind] = dist.get('queries/' + q.kind, 0) + 1


def replay_kf(chk, world):
    """every open known finding's witness must still fail, with the same attribution; the witness of a FIXED finding is
    replayed as a regression case: if it fails again it is classified like any other failure (its class is not open any
    more, so that is a VIOLATION)"""
    for k in current_kf(chk):
        if k.get('status') not in ('open', 'fixed'):
            continue
        wit = k['witness']
        q = g.Q.from_json(wit['query'])
        contents = {(i, t): [tuple(r) for r in rows] for i, t, rows in wit['contents']}
        try:
            steps = plan_for(q).steps
            f = run_case(world, q, steps, contents)
        except Exception as e:
            chk.notes.append('KF witness %s could not be run: %s' % (k['id'], e))
            continue
        if f is None:
            if k.get('status') == 'open':
                chk.notes.append('KF witness %s no longer fails' % k['id'])
            continue
        attribute(world, q, steps, f)
        f['plan'] = steps_text(steps)
        classify(chk, f)
        chk.fail(clean(f))


def run(chk):
    quick = chk.tier == 'quick'
    world = px.World(g.SCHEMA)
    # 1. Lean fragment: skeleton + semantics correspondence
    corr_plan2(chk, world, 600 if quick else 6000)
    corr_chain(chk)
    deep = (not quick) or bool(chk.broken())
    # 2. impl-level probe
    dist = {}
    t0 = time.time()
    for q in seed_queries():
        probe_query(chk, world, q, g.all_contents_small(q.tables), dist, max_fail_per_query=2)
    for q, contents in case_queries():
        probe_query(chk, world, q, [contents], dist)
    replay_kf(chk, world)
    rng = common.rng_for(chk.seed, 'C08/probe')
    nq, nc, maxrows = (2400, 8, 2) if not deep else ((12000, 24, 3) if not quick else (4000, 16, 3))
    budget = 55 if quick and not deep else (110 if quick else 780)
    done = 0
    for i in range(nq):
        q = g.gen_query(rng)
        if 'chain' in q.feats:
            cs = (g.gen_contents_match(rng, q.tables, maxrows) for _ in range(nc + 4))
        elif 'ties' in q.feats:
            cs = (g.gen_contents_ties(rng, q.tables, maxrows + 1) for _ in range(nc + 4))
        else:
            cs = (g.gen_contents(rng, q.tables, maxrows if rng.random() < 0.8 else maxrows - 1) for _ in range(nc))
        probe_query(chk, world, q, cs, dist)
        done += 1
        if time.time() - t0 > budget:
            chk.notes.append('probe stopped by its time budget after %d of %d queries' % (done, nq))
            break
    dist['probe_queries'] = done
    dist['probe_seconds'] = round(time.time() - t0, 1)
    chk.corr_result('probe-distribution(real plans through the reference executor)', done, 0, None, dist)
    for k in chk.kf:
        if k.get('_reproduced'):
            pass
    for f in chk.failures[:4]:
        chk.samples.append(dict(probe='failure', sql=f['sql'], contents=f['contents'], expected=f['expected'],
                                actual=f['actual'], sigs=f.get('sigs'), kf=f.get('kf')))
    chk.samples.append(dict(theorem='C08_partial: (innerJoin on (L.filter pL) ((R.filter pR).filter (semi cR (distinct '
                                    '((L.filter pL).map cL))))).filter w = (innerJoin on L R).filter w  given ON => NULL-aware key '
                                    'equality and w => pL, w => pR'))
    chk.samples.append(dict(theorem='C08_partial_model: planSound q = true -> execPlan (plan q) db = evalQuery q db   (planSound q = (plan q).limit0.isNone || q.kind.isLeft)'))
    chk.samples.append(dict(theorem='C08_witness_limit_inner: execPlan (plan limQ) limDB != evalQuery limQ limDB  (inner join LIMIT 1)'))
    return chk.finish(assumptions=ASSUME, extra=dict(notes=chk.notes[:20]))


def replay(path):
    data = json.load(open(path))
    f = data.get('failure')
    if not f:
        print(json.dumps(data, indent=1)[:3000])
        return 1
    world = px.World(g.SCHEMA)
    q = g.Q.from_json(f['query'])
    contents = {(i, t): [tuple(r) for r in rows] for i, t, rows in f['contents']}
    steps = plan_for(q).steps
    r = run_case(world, q, steps, contents)
    if r is not None:
        attribute(world, q, steps, r)
        print('REPRODUCED', q.sql)
        print(' contents', f['contents'])
        print(' expected', r['expected'], ' actual', r['actual'], ' why:', r['why'])
        print(' attribution', r['sigs'])
        for s in steps_text(steps):
            print('   ', s)
        return 1
    print('not reproduced', q.sql)
    return 0
