"""C09 — every emitted plan is a well-formed, forward-only dataflow program."""
import copy, json, re
from tools.harness import common, planwalk as pw, plangen, catshape

ID = 'C09'
TARGETS = ['MindsVerif.Props.C09']
P = 'MindsVerif.Props.C09.'
THEOREMS = [P + 'C09_partial', P + 'C09_plan_select', P + 'C09_add_step', P + 'C09_join', P + 'C09_error_class',
            P + 'C09_cte_lookup', P + 'C09_cte_keys_necessary',
            # history / regression: the former add_plan_step (fixed = false) and the live one on the same inputs
            P + 'C09_join_unrepaired', P + 'C09_regress_unrepaired_plan', P + 'C09_regress_unrepaired_1',
            P + 'C09_regress_unrepaired_2', P + 'C09_regress_unrepaired_3', P + 'C09_regress_repaired_plan',
            P + 'C09_regress_repaired_1', P + 'C09_regress_repaired_3',
            # round 5 / 6: catalog record shapes (Model/Catalog.lean); live code = CatFix.live, history = CatFix.former
            P + 'C09_catalog', P + 'C09_catalog_total', P + 'C09_integration', P + 'C09_integration_total',
            P + 'C09_catalog_former', P + 'C09_regress_catalog_former_not_full', P + 'C09_regress_r5_1', P + 'C09_regress_r5_1b',
            P + 'C09_regress_r5_1c', P + 'C09_regress_r5_1d', P + 'C09_regress_r5_2', P + 'C09_regress_r5_3',
            P + 'C09_regress_r5_3b', P + 'C09_regress_r5_4', P + 'C09_regress_r5_live',
            # round 6: per-model USING partition sizes (Model/PlanSizes.lean)
            P + 'C09_sizes_not_consulted', P + 'C09_join_sizes', P + 'C09_split_stale_plan', P + 'C09_split_stale_witness']
ASSUME = [
    'theorems cover QueryPlan.add_step, the step-stack / partition bookkeeping of PlanJoinTablesQuery (live variant: '
    'close_partition before a step that cannot be partitioned; pinned by the obligation pin:add_plan_step-variant-repaired), '
    'the name dictionary of plan_cte / get_integration_select_step, and the step emission of plan_select dispatch, plan_union, '
    'plan_cte, nested selects (Parameter(Result)), plan_integration_select, plan_api_db_select, '
    'plan_integration_select_with_functions, plan_select_from_predictor / plan_project, plan_nested_select, native / data FROM, '
    'plan_sub_select, the time-series planner and from_query with the DML planners, over a skeleton language '
    '(hand models Model/Plan.lean, Model/PlanQ.lean; tie = skeleton-first correspondence streams plan_join and cte_lookup; '
    'every constructor of the skeleton language occurs in the stream)',
    'WHICH branch a real query x catalog takes (get_query_info, check_single_integration, clause presence, which conditions '
    'become filters) is NOT modelled: it is chosen by the generator of the correspondence stream; outside that stream the '
    'invariant and the exception class are checked directly on real plans by the impl-level probe',
    'abstraction of a real step to (class, step_num, referenced results) walks every attribute of the step '
    '(ASTs, dicts, lists, sub-steps); "the answer" = the step returned by the outermost plan_select / '
    'check_single_integration call, observed by wrapping those two methods on the planner instance',
    'C09_error_class (from any plan) assumes that the planners of sub-select operands raise user-level errors only; '
    'C09_join_unrepaired and the C09_regress_unrepaired_* theorems describe the FORMER add_plan_step, not live code',
    'catalogs: the look-ups into predictor-metadata / integration records are modelled over every value shape '
    '(Model/Catalog.lean: absent, None, booleans, numbers, strings, lists of strings, {}) for the keys the planner reads today '
    '(integration_name, timeseries, order_by_column, group_by_columns, window, to_predict; integration type) and three '
    'statement families (table JOIN model in either order with a WHERE on one or two columns / LIMIT, table JOIN model JOIN '
    'table, SELECT FROM model); tie = correspondence stream `catalog` against the model of the code as it is (CatFix.live), '
    'with the obligation pin:catalog-lookups-variant-live (the model of the former code is run to tell them apart).  The '
    'documented domain assumes that integration_name, when a string, names the project under which the query addresses the '
    'model, and that `name` keys are strings.  Keys that the planner starts to read are found by scanning its sources at run '
    'time (catshape.scan_keys) and varied by the probe, but are `other` keys (ignored) in the Lean model until it is extended',
    'per-model USING options: C09_sizes_not_consulted / C09_join_sizes say that the join planner does not consult the partition '
    'size a model asks for beyond its presence (Model/PlanSizes.lean, policy joinOpen); tie = stream `partition_sizes` (tables, '
    'two to four models with own / global / no sizes, equal or different, tables / sub-selects in between) with the obligation '
    'pin:partition-sizes-not-consulted; C09_split_stale_* describe a HYPOTHETICAL variant (seeded change C09_11), not live code',
    'a QueryPlanner object that plans several statements in a row is checked by the probe only (sequence probe: every plan of '
    'the sequence must satisfy the invariant on its own); the model plans one statement from the empty plan',
]


def standalone(sql, cat):
    """plan a select on its own (planner.plan_select, as the join planner calls it); abstract steps + answer index"""
    from mindsdb_sql.planner import query_planner as qp
    try:
        q = pw.parse(sql)
        planner = qp.QueryPlanner(q, **copy.deepcopy(cat))
        ans = planner.plan_select(q)
        steps = list(planner.plan.steps)
        a = pw.abstract_plan(steps)
        idx = [i for i, s in enumerate(steps) if s is ans]
        if not idx:
            return None, None
        return a, idx[0]
    except Exception:
        return None, None


def impl_line(case, cat):
    """canonical line for the real planner on a case (SQL text, or text + an AST edit) and a catalog"""
    sql = case['sql'] if isinstance(case, dict) else case
    try:
        q = pw.parse(sql)
        if isinstance(case, dict) and case.get('inject_data'):
            from mindsdb_sql.parser.ast import Data
            q.from_table = Data([{'x': 1, 'id': 1}, {'x': 2, 'id': 2}])   # FROM <injected data>
    except Exception as e:
        return 'parse-fail %s' % str(e)[:80], None
    r = pw.run_planner(q, cat)
    if r['kind'] == 'plan':
        ans = r['answer']
        if type(q).__name__ not in ('Select', 'Union', 'Except', 'Intersect') and r['steps']:
            ans = r['steps'][-1]      # DML: from_query's answer is the DML step it appended last
        return pw.canon(pw.abstract_plan(r['steps']), pw.num_of(getattr(ans, 'step_num', None))), r
    if r['kind'] == 'user-error':
        return 'err ' + {'PlanningException': 'planning', 'NotImplementedError': 'notimpl'}[r['exc']], r
    return 'err internal', r


def cte_impl(c):
    """real plan_cte + get_integration_select_step on a bare table name: 'cte t<k>' | 'table' | 'err …'"""
    from mindsdb_sql.planner import query_planner as qp
    from mindsdb_sql.parser.ast import Select, Star, Identifier
    from mindsdb_sql.exceptions import PlanningException
    try:
        q = pw.parse('with ' + ', '.join('%s as (select * from int1.tab1)' % d for d in c['defs']) + ' select 1 from int2.tab3')
        planner = qp.QueryPlanner(q, **copy.deepcopy(plangen.catalogs()[c['cat']]))
        planner.plan_cte(q)
        step = planner.get_integration_select_step(Select(targets=[Star()], from_table=Identifier(parts=[c['ref']])))
        if type(step).__name__ == 'SubSelectStep':
            return 'cte ' + pw.num_of(step.dataframe.step_num)
        return 'table'
    except (PlanningException, NotImplementedError):
        return 'err planning'
    except Exception:
        return 'err internal'


def kf_match(k, f):
    sig = k.get('signature', {})
    if sig.get('code') != f.get('code'):
        return False
    if f.get('code') == 'inv':
        return (set(f.get('details', [])) <= set(sig.get('details', [])) and bool(f.get('details'))
                and bool(f.get('fallthrough_shape')))
    if f.get('code') == 'internal':
        # `fact`: causal attribution — an alternative is only recognised on a catalog that has the shape it is about
        alts = sig.get('any_of') or [dict(site=sig.get('site'), msg_re=sig.get('msg_re', '^$'))]
        return any(a.get('site') == f.get('site') and re.search(a.get('msg_re', '^$'), pw.norm_msg(f.get('msg', ''))) is not None
                   and (not a.get('fact') or a['fact'] in f.get('shape_facts', []))
                   for a in alts)
    return False


def cat_impl_line(case):
    """the real planner on a case of the stream `catalog`; internal errors carry their exception class"""
    try:
        q = pw.parse(case['sql'])
    except Exception as e:
        return 'parse-fail %s' % str(e)[:80]
    r = pw.run_planner(q, case['catalog'])
    if r['kind'] == 'plan':
        return pw.canon(pw.abstract_plan(r['steps']), pw.num_of(getattr(r['answer'], 'step_num', None)))
    if r['kind'] == 'user-error':
        return 'err ' + {'PlanningException': 'planning', 'NotImplementedError': 'notimpl'}[r['exc']]
    return 'err internal ' + r['site']['exc']


def run(chk):
    quick = chk.tier == 'quick'
    deep = (not quick) or bool(chk.broken())
    n_corr = 1200 if quick else 20000
    n_probe = 8000 if not deep else 150000
    cats = plangen.probe_catalogs()
    # ---- known findings: do the witnesses still fail on the real code?
    for k in chk.kf:
        if k['status'] == 'open':
            w = k['witness']
            _, f = pw.probe(w['sql'], cats[w['catalog']])
            if f and f.get('code') == 'inv':
                f['fallthrough_shape'] = pw.fallthrough_shape(w['sql'], cats[w['catalog']])
            if f:
                f['shape_facts'] = catshape.facts(cats[w['catalog']])
            k['_reproduced'] = bool(f and kf_match(k, f))
    # ---- correspondence: model vs real planner on skeleton-generated join queries
    rng = common.rng_for(chk.seed, 'C09/corr')
    cases, lines, dist = [], [], {}
    size_cases, sz_outs = [], []
    tries = 0
    while len(cases) < n_corr and tries < n_corr * 3:
        tries += 1
        c = plangen.corr_case(rng, standalone)
        if c is None or isinstance(c, str):
            key = 'generator/' + (c or 'block-unavailable') + ' (outside the fragment, skipped)'
            dist[key] = dist.get(key, 0) + 1
            continue
        cases.append(c)
        lines.append(c['line'])
    try:
        # the model of the live code is the REPAIRED add_plan_step ('1 …': close_partition on the fall-through path,
        # theorems C09_partial / C09_plan_select / C09_join).  The variant without it ('0 …', C09_join_unrepaired) is run
        # only to pin which of the two the implementation follows on the cases where they differ.
        outs0 = common.lean_run('Plan', lines) if lines else []
        # (the `sz` lines of the stream partition_sizes ride along in this driver run)
        srng = common.rng_for(chk.seed, 'C09/sizes')
        size_cases = [plangen.sizes_case(srng) for _ in range(300 if quick else 5000)]
        sz_lines = [l for c in size_cases for l in c['lines']]
        outs1 = common.lean_run('Plan', ['1' + l[1:] for l in lines] + sz_lines)
        sz_outs, outs1 = outs1[len(lines):], outs1[:len(lines)]
        ccat = plangen.probe_catalogs()
        impl = []
        for c in cases:
            i, r = impl_line(c, ccat[c['cat']])
            impl.append(i)
            chk.count(('corr', c['sql'], c['cat']))
            key = 'corr/%s/%s' % (c['shape'].split(':')[0], (i.split(' ')[0] + ' ' + i.split(' ')[1]) if i.startswith('err') else 'plan')
            dist[key] = dist.get(key, 0) + 1
        diverged, first = 0, None
        for c, o, i in zip(cases, outs1, impl):
            m = pw.canon_model_line(o)
            if m != i:
                diverged += 1
                if first is None:
                    first = dict(sql=c['sql'], catalog=c['cat'], model_input='1' + c['line'][1:], model=m, impl=i,
                                 model_variant='repaired')
        differ = [(c, pw.canon_model_line(a), pw.canon_model_line(b), i) for c, a, b, i in zip(cases, outs0, outs1, impl)
                  if pw.canon_model_line(a) != pw.canon_model_line(b)]
        as_unrepaired = [d for d in differ if d[3] == d[1]]
        as_repaired = [d for d in differ if d[3] == d[2]]
        dist['cases_where_variants_differ'] = len(differ)
        dist['of_these_impl_like_repaired'] = len(as_repaired)
        dist['of_these_impl_like_unrepaired'] = len(as_unrepaired)
        outs = outs1
        chk.corr_result('plan_join', len(cases), diverged, first, dist)
        # live-variant pin: on the cases that tell the two variants apart the implementation follows the repaired one
        chk.oblige('pin:add_plan_step-variant-repaired', 'correspondence',
                   # (a case where the implementation equals neither variant is a divergence of corr:plan_join, not of this pin)
                   len(differ) > 0 and len(as_repaired) > 0 and len(as_unrepaired) == 0,
                   'variants differ on %d cases; implementation like repaired on %d, like unrepaired on %d%s' % (
                       len(differ), len(as_repaired), len(as_unrepaired),
                       '' if not as_unrepaired else '; e.g. %s' % json.dumps(dict(sql=as_unrepaired[0][0]['sql'],
                                                                                 catalog=as_unrepaired[0][0]['cat'],
                                                                                 impl=as_unrepaired[0][3]))[:600]))
        for c, o in list(zip(cases, outs))[:3]:
            chk.samples.append(dict(sql=c['sql'], catalog=c['cat'], model=pw.canon_model_line(o)))
    except Exception as e:
        chk.oblige('corr:plan_join', 'correspondence', False, 'driver failed: %s' % e)
    # ---- correspondence: the CTE dictionary (plan_cte stores, get_integration_select_step tests and fetches)
    cte_cases = []
    try:
        rng = common.rng_for(chk.seed, 'C09/cte')
        cte_cases = [plangen.cte_case(rng) for _ in range(300 if quick else 3000)]
        oe = common.lean_run('Plan', ['cte e ' + c['line'] for c in cte_cases])
        of = common.lean_run('Plan', ['cte f ' + c['line'] for c in cte_cases])
        impl = [cte_impl(c) for c in cte_cases]
        res = {}
        for mode, outs in (('as-written', oe), ('case-folded', of)):
            bad = [(c, o, i) for c, o, i in zip(cte_cases, outs, impl) if o != i]
            res[mode] = bad
        mode = 'as-written' if len(res['as-written']) <= len(res['case-folded']) else 'case-folded'
        bad = res[mode]
        first = dict(defs=bad[0][0]['defs'], ref=bad[0][0]['ref'], model=bad[0][1], impl=bad[0][2], keys=mode,
                     sql=bad[0][0]['sql']) if bad else None
        d = {'keys_matched': mode}
        for i in impl:
            d['cte/' + i.split(' ')[0]] = d.get('cte/' + i.split(' ')[0], 0) + 1
        chk.corr_result('cte_lookup', len(cte_cases), len(bad), first, d)
    except Exception as e:
        chk.oblige('corr:cte_lookup', 'correspondence', False, 'driver failed: %s' % e)
    # ---- correspondence: the catalog look-ups (Model/Catalog.lean) on record shapes x metadata forms x statements, against
    # the model of the code as it is (CatFix.live: theorems C09_catalog_total / C09_integration_total).  The model of the
    # FORMER code (before e4d7787, 08911cf, d8a610a, 88dbd1a; C09_catalog_former, C09_regress_r5_*) is run only to pin the
    # variant: on the cases that tell the two apart the implementation follows the live one.
    shape_cases = []
    try:
        rng = common.rng_for(chk.seed, 'C09/catalog')
        shape_cases = [catshape.cat_case(rng) for _ in range(600 if quick else 12000)]
        lines = [l for c in shape_cases for l in catshape.cat_lines(c)]
        outs = common.lean_run('Catalog', lines)
        live = [pw.canon_model_line(o) for o in outs[0::2]]
        former = [pw.canon_model_line(o) for o in outs[1::2]]
        impl = [cat_impl_line(c) for c in shape_cases]
        d = {}
        diverged, first = 0, None
        for c, m, i in zip(shape_cases, live, impl):
            chk.count(('catalog', c['sql'], c['rest']))
            if m != i:
                diverged += 1
                if first is None:
                    first = dict(sql=c['sql'], catalog=c['catalog'], model_input='%s %s %s' % (c['kind'], catshape.LIVE, c['rest']),
                                 model=m, impl=i, model_variant='live')
            key = 'catalog/%s/%s' % (c['shape'], ' '.join(i.split(' ')[:3]) if i.startswith('err') else 'plan')
            d[key] = d.get(key, 0) + 1
        differ = [(c, m, f, i) for c, m, f, i in zip(shape_cases, live, former, impl) if m != f]
        like_live = [x for x in differ if x[3] == x[1]]
        like_former = [x for x in differ if x[3] == x[2]]
        d['cases_where_variants_differ'] = len(differ)
        d['of_these_impl_like_live'] = len(like_live)
        d['of_these_impl_like_former'] = len(like_former)
        d['keys_scanned'] = json.dumps(catshape.keys()['scanned'])
        chk.corr_result('catalog', len(shape_cases), diverged, first, d)
        chk.oblige('pin:catalog-lookups-variant-live', 'correspondence',
                   len(differ) > 0 and len(like_live) > 0 and len(like_former) == 0,
                   'variants differ on %d cases; implementation like live on %d, like former on %d%s' % (
                       len(differ), len(like_live), len(like_former),
                       '' if not like_former else '; e.g. %s' % json.dumps(dict(sql=like_former[0][0]['sql'],
                                                                                catalog=like_former[0][0]['catalog'],
                                                                                impl=like_former[0][3]), default=str)[:600]))
        c0 = shape_cases[0]
        chk.samples.append(dict(sql=c0['sql'], catalog=c0['catalog'], model=live[0], stream='catalog'))
    except Exception as e:
        chk.oblige('corr:catalog', 'correspondence', False, 'driver failed: %s' % e)
    # ---- correspondence: several models with per-model USING <alias>.partition_size (Model/PlanSizes.lean).  The model of the
    # code as it is (`joinOpen`: sizes are not consulted, C09_sizes_not_consulted / C09_join_sizes) vs the real planner; the
    # hypothetical variant that opens a new partition for another size (`splitStale`, C09_split_stale_witness) is run only to
    # pin that the implementation does not follow it.
    try:
        outs = sz_outs
        mj = [pw.canon_model_line(o) for o in outs[0::2]]
        ms = [pw.canon_model_line(o) for o in outs[1::2]]
        ccat = plangen.probe_catalogs()
        impl = []
        d = {}
        for c in size_cases:
            i, _ = impl_line(c['sql'], ccat[c['cat']])
            impl.append(i)
            chk.count(('sizes', c['sql'], c['cat']))
            key = 'sizes/%s/%s' % (c['shape'], ' '.join(i.split(' ')[:2]) if i.startswith('err') else 'plan')
            d[key] = d.get(key, 0) + 1
        bad = [(c, m, i) for c, m, i in zip(size_cases, mj, impl) if m != i]
        first = dict(sql=bad[0][0]['sql'], catalog=bad[0][0]['cat'], model_input=bad[0][0]['lines'][0], model=bad[0][1],
                     impl=bad[0][2], model_variant='joinOpen') if bad else None
        differ = [(c, a, b, i) for c, a, b, i in zip(size_cases, mj, ms, impl) if a != b]
        like_split = [x for x in differ if x[3] == x[2]]
        d['cases_where_policies_differ'] = len(differ)
        d['of_these_impl_like_splitStale'] = len(like_split)
        chk.corr_result('partition_sizes', len(size_cases), len(bad), first, d)
        chk.oblige('pin:partition-sizes-not-consulted', 'correspondence',
                   len(differ) > 0 and len(like_split) == 0 and all(x[3] == x[1] for x in differ),
                   'policies differ on %d cases; implementation like joinOpen on %d, like splitStale on %d%s' % (
                       len(differ), sum(1 for x in differ if x[3] == x[1]), len(like_split),
                       '' if not like_split else '; e.g. %s' % json.dumps(dict(sql=like_split[0][0]['sql'], impl=like_split[0][3]))[:600]))
        chk.samples.append(dict(sql=size_cases[0]['sql'], catalog=size_cases[0]['cat'], model=mj[0], stream='partition_sizes'))
    except Exception as e:
        chk.oblige('corr:partition_sizes', 'correspondence', False, 'driver failed: %s' % e)
    # ---- impl-level probe: invariant + exception class on every real plan of the broad stream
    rng = common.rng_for(chk.seed, 'C09/probe')
    pdist = {}
    stream = [(s, c) for (s, c) in plangen.FIXED] + [(c['sql'], c['cat']) for c in cases] + \
        [(c['sql'], c['cat']) for c in cte_cases] + \
        list(plangen.probe_stream(rng, n_probe, shapes=True)) + \
        list(catshape.systematic(chk.seed if isinstance(chk.seed, int) else 0))     # (single-key edit) x (statement skeleton)
    cats.update({'#%d' % i: c['catalog'] for i, c in enumerate(shape_cases)})
    stream += [(c['sql'], '#%d' % i) for i, c in enumerate(shape_cases)]
    stream += [(c['sql'], c['cat']) for c in size_cases]
    for sql, cname in stream:
        out, f = pw.probe(sql, cats[cname])
        chk.count(('probe', sql, cname))
        if out['kind'] == 'plan':
            key = 'probe/plan/%d-steps' % min(len(out['steps']), 9)
        elif out['kind'] == 'user-error':
            key = 'probe/' + out['exc']
        else:
            key = 'probe/' + out['kind']
        pdist[key] = pdist.get(key, 0) + 1
        if f:
            f['catalog_name'] = cname
            if f.get('code') == 'inv':
                f['fallthrough_shape'] = pw.fallthrough_shape(sql, cats[cname])
            f['shape_facts'] = catshape.facts(cats[cname])
            if not cname.startswith('#'):
                f.pop('catalog', None)      # rebuilt from its name on replay; catalogs of the stream `catalog` are kept
            chk.classify(f, kf_match)
            chk.fail(f)
    # ---- sequence probe: one planner object, several statements in a row; every plan must be well formed on its own
    srng = common.rng_for(chk.seed, 'C09/sequences')
    for sqls, cname in plangen.sequence_stream(srng, stream[:len(plangen.FIXED) + len(cases) + len(cte_cases) + 3000],
                                               300 if quick else 8000):
        kinds, f = pw.probe_sequence(sqls, cats[cname])
        chk.count(('sequence', tuple(sqls), cname))
        key = 'sequence/' + '+'.join(kinds)
        pdist[key] = pdist.get(key, 0) + 1
        if f:
            f['catalog_name'] = cname
            chk.classify(f, kf_match)
            chk.fail(f)
    chk.corr.setdefault('plan_join', {}).setdefault('distribution', {}).update(pdist)
    chk.samples.append(dict(theorem='C09_partial : ∀ q : Stmt, match fromQuery true q [] with | ok (plan, x) => stepsOK 0 plan ∧ '
                                    '[] <+: plan ∧ 0 < plan.length ∧ x = top (plan.length - 1) | error e => IsUserErr e'))
    chk.samples.append(dict(theorem='C09_plan_select : stepsOK 0 plan → env.all (refOKTop plan.length) → the same for (den true s env).1 plan; '
                                    'C09_join : stepsOK 0 plan → TreeOK plan.length t → params ok → the same for planJoin true t wrap params plan; '
                                    'C09_cte_lookup : (∀ m, k.test m = k.fetch m) → … → the same for planTableRef k dict name params plan; '
                                    'C09_error_class : leavesAll OperandNoInt t → planJoinTables fixed t plan is ok or a user-level error; C09_add_step'))
    chk.samples.append(dict(theorem='C09_catalog : lowerName pns = lowerName proj → NsOK proj r → ShapeOK fx form r → stepsOK 0 plan → '
                                    'C09_body (planCat fx form proj pns r q) plan;  C09_catalog_total : C09_catalog_full CatFix.repaired;  '
                                    'C09_catalog_not_full_live : ¬ C09_catalog_full CatFix.live (witnesses C09_witness_r5_*)'))
    chk.samples.append(dict(theorem='history: C09_join_unrepaired (former add_plan_step, under noFallThrough), C09_regress_unrepaired_plan / _1 / _2 / _3 '
                                    '(what it emitted in the excluded class), C09_regress_repaired_plan / _1 / _3 (the live variant on the same inputs)'))
    return chk.finish(assumptions=ASSUME)


def replay(path):
    data = json.load(open(path))
    f = data.get('failure')
    if not f:
        print(json.dumps(data, indent=1)[:3000])
        return 1
    cats = plangen.probe_catalogs()
    cat = f['catalog'] if f.get('catalog_name', '').startswith('#') else cats[f['catalog_name']]
    if f.get('sqls'):
        _, r = pw.probe_sequence(f['sqls'], cat)
    else:
        _, r = pw.probe(f['sql'], cat)
    print('REPRODUCED' if r else 'not reproduced', json.dumps({k: v for k, v in (r or f).items() if k != 'catalog'}, default=str)[:900])
    return 1 if r else 0
