"""C10 — every table and model in a query is routed to the place its name resolves to."""
import copy, json, re
from tools.harness import common, route as R

ID = 'C10'
TARGETS = ['MindsVerif.Props.C10']
THEOREMS = ['MindsVerif.Props.C10.' + n for n in (
    # T10.1 catalog normal form, case-insensitivity
    'C10_case_insensitive', 'C10_catalog_names_dicts', 'C10_catalog_case', 'C10_catalog_default_case', 'C10_catalog_none',
    'C10_catalog_legacy_list',
    # T10.2 the two resolvers (independent transcriptions) and the join operand's route
    'C10_resolvers', 'C10_resolvers_same', 'C10_resolvers_catalog', 'C10_resolve_table_bare', 'C10_resolve_table_aliases',
    'C10_resolve_table_sub',
    # the data source of a time-series model inside CREATE TABLE / INSERT / UPDATE..FROM
    'C10_partial_dbt', 'C10_dbt_project_source', 'C10_dbt_plain', 'C10_witness_dbt', 'C10_dbt_full_false',
    'C10_regression_dbt',
    # T10.3 stripping and whole-query pushdown
    'C10_partial_stripped', 'C10_partial_stripped_no_names', 'C10_stripped_exact', 'C10_partial_pushdown',
    'C10_pushdown_full_false', 'C10_witness_5', 'C10_stripped_full_false',
    # T10.4 models
    'C10_model_version', 'C10_model_noversion', 'C10_model_step_simple', 'C10_model_case', 'C10_model_join',
    'C10_model_join_project', 'C10_model_join_project_default', 'C10_model_no_hidden_state', 'C10_model_versions_independent',
    'C10_main',
    # regression examples about older variants of the code (every finding they document is repaired)
    'C10_regression_1', 'C10_regression_2', 'C10_regression_3', 'C10_regression_4', 'C10_regression_6',
    'C10_old_resolver_partial',
    # round 6: the join planner's own pushdown site; a visit log that stops at some node kind; the case-mapping as a parameter
    'C10_pushdown_join', 'C10_partial_pushdown_join', 'C10_witness_udf_stop', 'C10_pushdown_needs_complete_log',
    'C10_norm_route', 'C10_norm_instance', 'C10_witness_norm', 'C10_norm_route_needs_same')]
ASSUME = [
    'QueryPlanner.__init__, resolve_database_table, adapt_dbt_query (source qualification), PlanJoinTablesQuery.resolve_table (own transcription: integration, rest, '
    'aliases, bare-name flag) / process_table, get_predictor, get_query_info, both check_single_integration with the '
    'CTE-capture guard, prepare_integration_select are hand-modelled (Model/Route.lean); tie = the cat / route / predseq / '
    'plan / strip correspondence streams of this run; the planner must follow the live model variant (corr:route-variant)',
    'the walker is modelled only for callbacks that never replace a node; which children a node has and in which role is '
    'transcribed in tools/harness/route.py:walker_children, which clauses of Select / Join / Update / Case are visited and in '
    'which order is probed from the live query_traversal; both are checked by the plan / strip streams (visit log with the real walker)',
    'hypothesis skipLeafOnly of C10_partial_pushdown is checked on every generated tree (hyp:skipLeafOnly)',
    'C10_model_no_hidden_state holds by construction of the model (a map); the predseq stream (one real planner, a sequence '
    'of model references) is what ties it to the code',
    'names are ASCII in Model/Route.lean (str.isdigit on non-ASCII text is not modelled); Model/RouteNorm.lean has the case-mapping of '
    'every site (constructor, resolver, cut) as a parameter: the norm stream instantiates it with Python str.lower (a code-point table '
    'per case, character-wise; capital sigma is not generated) on catalogs / statements with non-ASCII and case-variant names',
    'PlanJoin.check_single_integration is tied by the plan stream (field PlanJoin.check_single_integration / stripped-identifiers '
    '(join site)) on every generated select whose FROM is a join; C10_pushdown_join is about the complete visit log, which the '
    'plan stream (query_info, visit-log) ties to what the live find_objects collects',
    'theorems cover catalog normalisation, the resolvers, model look-up, the pushdown decision and the stripping; the rest of '
    'plan_select (sub-select / CTE / nested-select planning, join planner bookkeeping) is covered by the impl-level routing oracle only',
]

VOCAB = ['int1', 'INT1', 'Int1', 'int2', 'INT2', 'mindsdb', 'MINDSDB', 'MindsDB', 'proj', 'PROJ', 'Proj', 'files', 'views',
         'mlflow', 't', 'T', 'tbl1', 's', 'pred', 'PRED', 'Pred', 'm2', '3', '12', '0', 'v1', '1a', 'a.b', 'proj.dotted',
         'x', '']


def canon_catalog(c):
    return json.dumps(c, sort_keys=True)


# ------------------------------------------------------------------ impl-level oracle
def databases_of(sp):
    return set(sp['integrations']) | set(sp['projects'])


def classify_ref(sp, ident, path):
    """narrow class of an original table reference, for known-finding attribution"""
    parts = [p for p in ident.parts if isinstance(p, str)]
    in_join = any(c == 'Join' and a in ('left', 'right') for c, a in path)
    tags = []
    if in_join and len(parts) > 1 and parts[0] != parts[0].lower() and parts[0].lower() in databases_of(sp):
        tags.append('join-operand-qualifier-case')
    if in_join and len(parts) == 1 and parts[0] in databases_of(sp):
        tags.append('join-operand-single-part-database')
    if ('Case', 'arg') in path:
        tags.append('case-operand')
    if ('Function', 'from_arg') in path:
        tags.append('function-from-arg')
    # a sub-query written in GROUP BY / HAVING / ORDER BY (the innermost select the reference belongs to is such a sub-query)
    for i, el in enumerate(path):
        if el in (('Select', 'order_by'), ('Select', 'having'), ('Select', 'group_by')) and ('Select', 'from_table') in path[i + 1:]:
            tags.append('sub-query-in-' + el[1].replace('_', '-'))
    return tags


def lower_qualifiers(ast, sp, only_join=False):
    """copy of the tree with database qualifiers written in lower case"""
    q = copy.deepcopy(ast)
    dbs = databases_of(sp)
    if only_join:
        targets = [i for i, path in R.table_refs(q) if any(c == 'Join' and a in ('left', 'right') for c, a in path)]
    else:
        targets = [i for i, _ in R.all_identifiers(q)]
    for i in targets:
        if len(i.parts) > 1 and isinstance(i.parts[0], str) and i.parts[0].lower() in dbs:
            i.parts[0] = i.parts[0].lower()
    return q


def run_plan(cat, ast):
    from mindsdb_sql.planner import plan_query
    try:
        return plan_query(copy.deepcopy(ast), **copy.deepcopy(cat.kwargs())), None
    except Exception as e:
        return None, e


def probe_case(cat, sql, deep=True):
    """all C10 oracles on the real planner; returns a list of failure dicts"""
    from mindsdb_sql import parse_sql
    try:
        ast = parse_sql(sql, 'mindsdb')
    except Exception:
        return [], 'unparsed'
    return probe_ast(cat, ast, sql, deep)


def fkey(f):
    what = f.get('table') or f.get('identifier') or f.get('model') or ['']
    return (f['class'].split('/')[0], str(f.get('step_integration')).lower(), tuple(str(x).lower() for x in what),
            'cte-definition' in f.get('tags', []))


def probe_ast(cat, ast, sql, deep=True, counterfactual=True):
    from mindsdb_sql.parser import ast as A
    fails = []
    sp = cat.spec()
    ctes = set()
    for n, _ in all_nodes(ast):
        if isinstance(n, A.Select) and n.cte:
            ctes |= {str(c.name.parts[-1]) for c in n.cte}
    # table references inside WHERE / targets of a select whose FROM is a derived table (anywhere in the statement)
    derived_outer = set()
    for n, _ in all_nodes(ast):
        if isinstance(n, A.Select) and isinstance(n.from_table, A.Select):
            for part in (n.where, n.targets):
                if part is not None:
                    derived_outer |= {id(i) for i, _ in R.table_refs(part if not isinstance(part, list) else A.Tuple(items=part))}
    # table references inside sub-queries of the targets / WHERE of a select that joins a table with a TIME-SERIES model
    ts_names = {n.lower() for n in cat.extras}
    ts_outer = set()
    for n, _ in all_nodes(ast):
        if isinstance(n, A.Select) and isinstance(n.from_table, A.Join):
            ops = [n.from_table.left, n.from_table.right]
            if any(isinstance(o, A.Identifier) and (R.spec_model(sp, [p for p in o.parts if isinstance(p, str)]) or (None, '', None))[1].lower() in ts_names
                   for o in ops):
                for part in (n.where, n.targets):
                    if part is not None:
                        ts_outer |= {id(i) for i, _ in R.table_refs(part if not isinstance(part, list) else A.Tuple(items=part))}
    # the 'dbt' context of plan_join_ts.adapt_dbt_query: CREATE TABLE / INSERT / UPDATE..FROM whose select joins a
    # sub-select `(select … from SRC)` with a time-series model; there SRC gets the statement's target integration
    dbt_tags = {}
    dbt_target = None
    dml_sel = getattr(ast, 'from_select', None) if isinstance(ast, (A.CreateTable, A.Insert, A.Update)) else None
    if isinstance(dml_sel, A.Select) and isinstance(dml_sel.from_table, A.Join):
        jn = dml_sel.from_table
        ops = [jn.left, jn.right]
        subs = [o for o in ops if isinstance(o, A.Select) and isinstance(o.from_table, A.Identifier)]
        mods = [o for o in ops if isinstance(o, A.Identifier) and (R.spec_model(sp, [p for p in o.parts if isinstance(p, str)]) or (None, '', None))[1].lower() in
                {n.lower() for n in cat.extras}]
        if subs and mods:
            src = subs[0].from_table
            sparts = [p for p in src.parts if isinstance(p, str)]
            dbs = databases_of(sp)
            if len(sparts) > 1 and sparts[0] != sparts[0].lower() and sparts[0].lower() in dbs:
                dbt_tags[id(src)] = ['dbt-source-qualifier-case']
            elif sparts and sparts[0].lower() not in dbs:
                dbt_tags[id(src)] = ['dbt-source-unqualified']
            tgt = ast.name if isinstance(ast, A.CreateTable) else ast.table
            if len(tgt.parts) == 1:
                dbt_tags[id(src)] = dbt_tags.get(id(src), []) + ['dml-target-unqualified']
                dbt_target = str(tgt.parts[0])
    refs = []
    for ident, path in R.table_refs(ast):
        parts = [p for p in ident.parts if isinstance(p, str)]
        kind = 'table'
        if len(parts) == 1 and parts[0] in ctes:
            kind = 'cte'
        elif R.spec_model(sp, parts) is not None:
            kind = 'model'
        elif path and path[-1][0] in ('Insert', 'Update', 'Delete', 'CreateTable') and path[-1][1] in ('table', 'name'):
            kind = 'dml-target'
        db, rest = R.spec_resolve(sp, parts)
        tags = classify_ref(sp, ident, path)
        if id(ident) in derived_outer:
            tags.append('subquery-of-select-from-derived-table')
        if id(ident) in ts_outer:
            tags.append('sub-query-of-ts-model-join')
        tags += dbt_tags.get(id(ident), [])
        refs.append(dict(parts=parts, kind=kind, db=db, rest=rest, path=path, tags=tags))
    base = dict(sql=sql, catalog=cat.kwargs())

    def fail(cls, desc, **kw):
        f = dict(base, desc=desc, **kw)
        f['class'] = cls
        fails.append(f)
    plan, err = run_plan(cat, ast)
    status = 'planned'
    if err is not None:
        ec = R.exc_class(err)
        status = ec
        if ec.startswith('crash') and 'Either path_str or parts' in str(err):
            tags = sorted({t for r in refs for t in r['tags']})
            fail('crash-empty-identifier/' + ','.join(tags),
                 'planning %r crashes with AssertionError (identifier emptied by the join resolver); the table is never fetched' % sql,
                 error=str(err)[:200], tags=tags)
    else:
        steps = R.all_steps(plan)
        fetched = []
        aliases = R.all_aliases(ast) | {c.lower() for c in ctes} \
            | {str(i.parts[-1]).lower() for i, _ in R.table_refs(ast) if i.alias is None and len(i.parts) > 1}
        sent = []          # (integration, tree sent there)
        for st in steps:
            if type(st).__name__ == 'FetchDataframeStep' and st.query is not None:
                sent.append((st.integration, st.query))
            elif type(st).__name__ == 'DeleteStep' and st.where is not None:
                # the WHERE clause is executed by the integration of the target table
                sent.append((R.spec_resolve(sp, [p for p in st.table.parts if isinstance(p, str)])[0], st.where))
        for integ, sent_query in sent:
            st_query = sent_query
            # O1: every table of the fetched query belongs to this integration
            for t, tpath in R.table_refs(st_query):
                tp = [p for p in t.parts if isinstance(p, str)]
                fetched.append((str(integ).lower(), tp))
                cut = lambda rest: rest[1:] if len(rest) > 1 and rest[0].lower() == str(integ).lower() else rest
                same_db = lambda r: r['db'] is not None and str(r['db']).lower() == str(integ).lower()
                ok = any(r['kind'] in ('table',) and same_db(r) and (r['rest'] == tp or cut(r['rest']) == tp) for r in refs)
                if not ok and len(tp) == 1 and tp[0] in ctes:
                    ok = True
                if ok:
                    continue
                cands = [r for r in refs if r['parts'] == tp or r['rest'] == tp]
                tags = sorted({t for r in cands for t in r['tags']} | ({'case-operand'} if ('Case', 'arg') in tpath else set())
                              | ({'cte-definition'} if ('CommonTableExpression', 'query') in tpath else set())
                              | ({'cte-body-join'} if cte_body_join(tpath) else set())
                              | ({'dml-target-unqualified'} if dbt_target is not None and len(tp) > 1 and tp[0] == dbt_target else set())
                              | ({'default-namespace-case'} if cat.dns and cat.dns != cat.dns.lower() and (tp[0] == cat.dns or str(integ) == cat.dns) else set()))
                exp = sorted({str(r['db']) for r in cands})
                kinds = sorted({r['kind'] for r in cands})
                fail('foreign-table/%s/%s' % (','.join(kinds), ','.join(tags)),
                     'fetch step for integration %r contains table %s which resolves to %s' % (integ, '.'.join(tp), exp),
                     step_integration=integ, table=tp, expected=exp, step_query=str(st_query), tags=tags)
            # O2: no identifier still carries the integration qualifier
            for i, ipath in R.all_identifiers(st_query):
                ip = [p for p in i.parts]
                if len(ip) > 1 and isinstance(ip[0], str) and ip[0].lower() == str(integ).lower() \
                        and ip[0].lower() not in aliases \
                        and not any(r['db'] is not None and str(r['db']).lower() == str(integ).lower() and r['rest'] == ip for r in refs):
                    where = '%s.%s' % ipath[-1] if ipath else ''
                    tags = ['case-operand'] if ('Case', 'arg') in ipath else (['function-from-arg'] if ('Function', 'from_arg') in ipath else [])
                    tags = sorted(set(tags) | {t for r in refs if r['parts'] == [str(p) for p in ip] for t in r['tags']}
                                  | ({'cte-definition'} if ('CommonTableExpression', 'query') in ipath else set())
                                  | ({'default-namespace-case'} if cat.dns and cat.dns != cat.dns.lower() and ip[0] == cat.dns else set()))
                    fail('unstripped/%s/%s' % (where, ','.join(tags)),
                         'identifier %s in the query sent to %r still carries the integration qualifier (at %s)' % (
                             '.'.join(str(p) for p in ip), integ, where),
                         step_integration=integ, identifier=[str(p) for p in ip], step_query=str(st_query), tags=tags)
        # O1b: every data table is fetched from the integration its name resolves to
        for r in refs:
            if r['kind'] == 'table' and (r['db'] in sp['integrations'] or r['db'] in sp['projects']):
                cut = r['rest'][1:] if len(r['rest']) > 1 and r['rest'][0].lower() == r['db'] else r['rest']
                if (r['db'], r['rest']) not in fetched and (r['db'], cut) not in fetched:
                    if len(r['parts']) > 1 and r['rest'] and r['rest'][-1] in ctes and sp['dns'] == r['db']:
                        r['tags'] = sorted(set(r['tags']) | {'cte-shadows-qualified-table-of-default-namespace'})
                    fail('not-fetched/%s' % ','.join(r['tags']),
                         'table %s resolves to integration %r but no fetch step for %r contains it' % (
                             '.'.join(r['parts']), r['db'], r['db']),
                         table=r['parts'], expected=r['db'], tags=r['tags'],
                         plan=[str(x) for x in R.plan_summary(plan)][:8])
        # O3: models become apply steps in their own project, version kept
        applies = [(type(st).__name__, str(st.namespace), [str(p) for p in st.predictor.parts]) for st in steps
                   if type(st).__name__ in ('ApplyPredictorStep', 'ApplyPredictorRowStep', 'ApplyTimeseriesPredictorStep',
                                            'GetPredictorColumns')]
        for r in refs:
            if r['kind'] != 'model':
                continue
            proj, name, version = R.spec_model(sp, r['parts'])
            want = [name] + ([version] if version else [])
            if not any(ns.lower() == proj.lower() and pp == want for _, ns, pp in applies):
                if cat.dns and cat.dns != cat.dns.lower() and r['db'] == cat.dns:
                    r['tags'] = sorted(set(r['tags']) | {'default-namespace-case'})
                fail('model-step/%s' % ','.join(r['tags']),
                     'model reference %s: expected an apply step in project %r for predictor %s, got %s' % (
                         '.'.join(r['parts']), proj, '.'.join(want), applies),
                     model=r['parts'], expected=[proj, want], got=applies, tags=r['tags'])
    # attribution to "qualifier not lower case in a join operand" is counterfactual: the failure must
    # disappear when only the join operands' qualifiers are re-spelled in lower case
    TAG = 'join-operand-qualifier-case'
    if counterfactual and any(TAG in f.get('tags', []) for f in fails):
        again, _ = probe_ast(cat, lower_qualifiers(ast, sp, only_join=True), sql, deep=False, counterfactual=False)
        still = {fkey(f) for f in again}
        for f in fails:
            if TAG in f.get('tags', []) and fkey(f) in still:
                f['tags'] = [t for t in f['tags'] if t != TAG]
                segs = f['class'].split('/')
                segs[-1] = ','.join(t for t in segs[-1].split(',') if t != TAG)
                f['class'] = '/'.join(segs)
    if not deep:
        return fails, status
    # O4a: routing does not depend on the letter case of qualifiers
    summ = lambda p, e: ('exc', R.exc_class(e)) if e is not None else [tuple(str(x).lower() for x in s) for s in R.plan_summary(p)]
    mine = summ(plan, err)
    low = lower_qualifiers(ast, sp)
    p2, e2 = run_plan(cat, low)
    other = summ(p2, e2)
    if mine != other:
        p3, e3 = run_plan(cat, lower_qualifiers(ast, sp, only_join=True))
        tags = sorted({t for r in refs for t in r['tags'] if t.startswith('join-operand') or t == 'dbt-source-qualifier-case'})
        attributed = bool(tags) and summ(p3, e3) == other
        fail('variance-qualifier-case/%s' % (','.join(tags) if attributed else 'unattributed'),
             'the plan changes when database qualifiers are written in lower case', with_as_written=mine[:6] if isinstance(mine, list) else mine,
             with_lower=other[:6] if isinstance(other, list) else other, tags=tags if attributed else [])
    # O4b: ... nor on how the catalog was supplied
    exact = lambda p, e: ('exc', R.exc_class(e)) if e is not None else [tuple(str(x) for x in s) for s in R.plan_summary(p)]
    mine = exact(plan, err)
    for vname, vc in R.variants(cat):
        pv, ev = run_plan(vc, ast)
        if exact(pv, ev) != mine:
            fail('variance-catalog/%s' % vname, 'the plan changes with the catalog representation (%s)' % vname,
                 variant=vc.kwargs(), got=exact(pv, ev)[:6], want=mine[:6], tags=[])
    return fails, status


def all_nodes(node):
    from mindsdb_sql.parser.ast.base import ASTNode
    out = []

    def rec(n, path):
        if isinstance(n, ASTNode):
            out.append((n, path))
            for k, v in vars(n).items():
                rec(v, path + ((type(n).__name__, k),))
        elif isinstance(n, (list, tuple)):
            for x in n:
                rec(x, path)
        elif isinstance(n, dict):
            for x in n.values():
                rec(x, path)
    rec(node, ())
    return out


def cte_body_join(path):
    """the path runs through a CTE definition whose body is a join"""
    for i, el in enumerate(path):
        if el == ('CommonTableExpression', 'query'):
            rest = path[i + 1:i + 3]
            if len(rest) == 2 and rest[0] == ('Select', 'from_table') and rest[1][0] == 'Join':
                return True
    return False


def kf_match(k, f):
    sig = k.get('signature', {})
    if 'class_re' in sig and not re.fullmatch(sig['class_re'], f.get('class', '')):
        return False
    if 'tags_any' in sig and not (set(sig['tags_any']) & set(f.get('tags', []))):
        return False
    if 'tags_none' in sig and (set(sig['tags_none']) & set(f.get('tags', []))):
        return False
    return True


def cat_from_kwargs(kw):
    ints = None
    if 'integrations' in kw:
        ints = [('n', i) if isinstance(i, str) else ('d', i['name'], i['type'], i.get('class_type')) for i in kw['integrations']]
    pm = None
    md = kw.get('predictor_metadata')
    extra = lambda p: {k: v for k, v in p.items() if k not in ('name', 'integration_name')}
    extras = {}
    if isinstance(md, list):
        pm = ('list', [(p['name'], p.get('integration_name')) for p in md])
        extras = {p['name']: extra(p) for p in md if extra(p)}
    elif isinstance(md, dict):
        pm = ('legacy', [(n, p.get('integration_name')) for n, p in md.items()])
        extras = {n: extra(p) for n, p in md.items() if extra(p)}
    return R.Cat(ints, kw.get('predictor_namespace'), pm, kw.get('default_namespace'), extras)


JOIN_OPERANDS = ['int1.t', 'INT1.t', 'Int1.s', '`INT1`.t', 'int2.t2', 'INT2.s2', 'int1', 'int2', 'mindsdb', 't',
                 'mindsdb.pred', 'MINDSDB.pred', 'mindsdb.pred.3', 'MINDSDB.pred.3', 'pred', 'pred.7', 'proj.pred', 'PROJ.pred.2',
                 'Mindsdb.PRED', 'proj.t', 'files.f1']


def run(chk):
    quick = chk.tier == 'quick'
    broken = bool(chk.broken())
    deep = (not quick) or broken
    n_cat = 60 if quick else 600
    n_route = 1500 if quick else 30000
    n_q = (1200 if not broken else 3000) if quick else 12000
    from mindsdb_sql import parse_sql
    from mindsdb_sql.parser import ast as A
    # ---- known findings: do the witnesses still fail?
    for k in chk.kf:
        if k['status'] == 'open':
            w = k['witness']
            fs, _ = probe_case(cat_from_kwargs(w['catalog']), w['sql'])
            k['_reproduced'] = any(kf_match(k, f) for f in fs)
    rng = common.rng_for(chk.seed, 'C10')
    cats = [R.gen_catalog(rng) for _ in range(n_cat)]
    fixed = [R.Cat([('n', 'int1'), ('n', 'int2')], None, None, 'mindsdb'),
             R.Cat([('n', 'int1'), ('n', 'int2')], None, ('list', [('pred', 'mindsdb')]), 'proj'),
             R.Cat([('d', 'int1', 'data', 'sql'), ('d', 'proj', 'project', None), ('n', 'int2')], 'mindsdb',
                   ('legacy', [('pred', None)]), 'mindsdb'),
             R.Cat([('n', 'int')], 'mindsdb', ('legacy', [('pred', None)]), None)]
    cats = fixed + cats
    # catalogs with several models, one of them a time-series model
    mcats = [R.Cat([('n', 'int1'), ('n', 'int2')], None, ('list', [('pred', 'mindsdb'), ('tp', 'mindsdb'), ('m2', 'proj')]), dns,
                   {'tp': R.Cat.TS}) for dns in ('mindsdb', 'int1', 'proj')]
    mcats.append(R.Cat([('d', 'int1', 'data', 'sql'), ('n', 'INT2')], 'mindsdb', ('legacy', [('pred', None), ('tp', None)]), 'mindsdb',
                       {'tp': R.Cat.TS}))
    lines, metas, dist = [], [], {}

    def bump(k):
        dist[k] = dist.get(k, 0) + 1
    # ---- correspondence a: catalogs
    for c in cats:
        lines.append(json.dumps(dict(op='cat', cat=c.model())))
        metas.append(('cat', c, None))
    # ---- correspondence b: resolvers / predictors on part lists
    for i in range(n_route):
        c = cats[i % len(cats)] if i % 3 else rng.choice(fixed)
        n = rng.choice([1, 1, 2, 2, 2, 3, 3, 4])
        parts = [rng.choice(VOCAB) for _ in range(n)]
        if any(p == '' for p in parts) and rng.random() < 0.8:
            parts = [p or 'e' for p in parts]
        alias = [rng.choice(['a', 'B', 'Int1'])] if rng.random() < 0.3 else None
        dbt_int = rng.choice([None, 'int1', 'int2', 'INT1', 's'])
        lines.append(json.dumps(dict(op='route', cat=c.model(), parts=[R.enc(p) for p in parts],
                                     alias=None if alias is None else [R.enc(a) for a in alias], dbtInt=R.enc_opt(dbt_int))))
        metas.append(('route', c, (parts, alias, dbt_int)))
    # ---- correspondence b2: ONE planner resolves a sequence of model references; each answer must be what the
    # (stateless) model gives for that reference alone — no hidden state between references
    seqs = {}
    for si in range(60 if quick else 1500):
        c = rng.choice(mcats + fixed[:3])
        seq = []
        for _ in range(rng.randint(2, 5)):
            parts = [rng.choice(['mindsdb', 'MINDSDB', 'proj', 'int1']), rng.choice(['pred', 'PRED', 'tp', 'm2'])]
            if rng.random() < 0.3:
                parts = parts[1:]
            if rng.random() < 0.6:
                parts.append(rng.choice(['1', '2', '3', '12']))
            seq.append(parts)
        seqs[si] = (c, seq)
        for k, parts in enumerate(seq):
            lines.append(json.dumps(dict(op='route', cat=c.model(), parts=[R.enc(p) for p in parts])))
            metas.append(('predseq', c, (si, k, parts)))
    seq_real = {}
    # ---- correspondence c/d + probe: statements
    stmts = []
    for i in range(n_q):
        c = cats[i % len(cats)] if i % 2 else rng.choice(fixed)
        g = R.QGen(rng, c, adversarial=0.03)
        try:
            sql, kind = g.statement()
        except Exception as e:                       # generator bug: infrastructure, not a verdict
            raise
        stmts.append((c, sql, kind, sorted(g.features)))
    for a in JOIN_OPERANDS:
        for b in JOIN_OPERANDS[:8]:
            for c in fixed[:3]:
                stmts.append((c, 'SELECT * FROM %s AS a JOIN %s AS b ON a.id = b.id' % (a, b), 'select', ['join-operands']))
    # model references in every spelling, against catalogs whose model project is given with capital letters
    capcats = [R.Cat([('n', 'int1'), ('n', 'int2')], None, ('list', [('model', 'Proj')]), 'int1'),
               R.Cat([('d', 'int1', 'data', 'sql')], 'mindsdb', ('list', [('model', 'MLflow'), ('pred', None)]), 'int1'),
               R.Cat([('n', 'int1'), ('n', 'int2')], None, ('legacy', [('model', 'Proj')]), 'int2')]
    for c in capcats:
        proj = c.pm[1][0][1]
        for q in (proj, proj.lower(), proj.upper(), '`%s`' % proj.lower()):
            for m in ('model', 'MODEL', 'model.3'):
                stmts.append((c, 'SELECT * FROM %s.%s WHERE x = 1' % (q, m), 'select', ['model-select-cap']))
                stmts.append((c, 'SELECT * FROM int1.t AS a JOIN %s.%s AS m' % (q, m), 'select', ['model-join-cap']))
    # several model references in ONE statement (versions / spellings differ): every reference is resolved on its own
    for i in range(240 if quick else 3000):
        c = mcats[i % len(mcats)]
        g = R.QGen(rng, c, adversarial=0.0)
        sql = g.multi_model()
        if sql:
            stmts.append((c, sql, 'select', sorted(g.features)))
    # DML statements whose SELECT part joins a data source (integration / project / default namespace / schema-qualified)
    # with a model, incl. time-series models over sub-selects: the routing oracle holds for the SELECT part of every form
    dcats = mcats + [R.Cat([('d', 'int1', 'data', 'sql'), ('d', 'int2', 'data', 'sql'), ('d', 'proj', 'project', None)], None,
                           ('list', [('tp', 'mindsdb'), ('pred', 'proj')]), dns, {'tp': R.Cat.TS}) for dns in (None, 'mindsdb', 'int1')]
    for i in range(300 if quick else 4000):
        c = dcats[i % len(dcats)]
        g = R.QGen(rng, c, adversarial=0.0)
        sql, kind = g.dml_model()
        if sql:
            stmts.append((c, sql, kind, sorted(g.features)))
    # a table written with the default-namespace integration explicitly, followed by a schema called like another database
    for c in (R.Cat([('n', 'int1'), ('n', 'int2')], None, None, 'int1'), R.Cat([('n', 'int1'), ('n', 'int2')], None, None, 'int2'),
              R.Cat([('n', 'int1'), ('n', 'int2')], None, ('list', [('pred', 'mindsdb')]), 'int1')):
        for a in ('int1.int2.t2', 'INT1.int2.s2', 'int1.mindsdb.t', 'int2.int1.t', 'int2.mindsdb.s2', 'int1.files.t', 'int1.sch.t'):
            for b in ('int2.t2', 'int1.s', 'mindsdb.pred', 'int2.int1.s'):
                stmts.append((c, 'SELECT * FROM %s AS a JOIN %s AS b ON a.id = b.id' % (a, b), 'select', ['schema=database']))
                stmts.append((c, 'SELECT * FROM %s AS b JOIN %s AS a ON a.id = b.id' % (b, a), 'select', ['schema=database']))
    # CTE names that collide with the last part of a qualified table; DELETE with qualified columns at top level
    for c in (fixed[0], R.Cat([('n', 'int1'), ('n', 'int2')], None, None, 'int1'), R.Cat([('n', 'INT1'), ('n', 'int2')], None, None, 'int2')):
        for q1, q2 in (('int1', 'int2'), ('INT1', 'Int2'), ('`int1`', 'INT2')):
            stmts.append((c, 'WITH t AS (SELECT * FROM %s.t2) SELECT * FROM t JOIN %s.t AS u ON t.id = u.id' % (q2, q1), 'select', ['cte-name=table']))
            stmts.append((c, 'WITH s2 AS (SELECT * FROM %s.s) SELECT * FROM %s.s2 AS u JOIN s2 ON s2.id = u.id' % (q1, q2), 'select', ['cte-name=table']))
            stmts.append((c, 'WITH t AS (SELECT * FROM %s.t2) SELECT * FROM %s.t WHERE id IN (SELECT id FROM t)' % (q2, q1), 'select', ['cte-name=table']))
            for q3 in (q1, q1.swapcase() if '`' not in q1 else 'Int1'):
                stmts.append((c, 'DELETE FROM %s.t WHERE %s.t.x = 1' % (q1, q3), 'delete', ['delete-qualified']))
                stmts.append((c, 'DELETE FROM %s.t WHERE %s.t.x = 1 AND (%s.t.y > 0 OR t.id IN (SELECT id FROM %s.t2))' % (q1, q3, q3, q2), 'delete', ['delete-qualified']))
    # ---- round 6 (a): a sub-query on another integration / on a model nested at every expression position (argument of a
    # user-defined function or llm(), CASE operand / branches, cast, window specification, BETWEEN, IN list, NOT, …) x every
    # place where the planner decides what is sent whole (plain select, join of one / two integrations, join with a model,
    # derived table, CTE body, UNION operand, nested select, INSERT..SELECT, CREATE TABLE AS); every (position, clause, site)
    # triple occurs in every run, the catalogs rotate
    hcats = [fixed[0], fixed[1], fixed[2], mcats[0]]
    k = int(chk.seed)
    for site in R.HIDDEN_SITES:
        cands = [hc for hc in hcats if (hc.pm is not None or site != 'join-model') and (hc.dns is not None or site != 'cte')]
        for clause in ('target', 'where'):
            for pname, _ in R.HIDDEN_VALUE + (R.HIDDEN_PRED if clause == 'where' else []):
                k += 1
                for hc in (cands if (broken or not quick) else [cands[k % len(cands)]]):
                    for sql, kind, feats in R.hidden_statements(rng, hc, clauses=(clause,), sites=[site], positions=[pname]):
                        stmts.append((hc, sql, kind, feats))
    # the same inside GROUP BY / HAVING / ORDER BY (no planner path looks for sub-queries there: KF-C10-13)
    for ci, hc in enumerate(hcats[:2]):
        for sql, kind, feats in R.hidden_statements(rng, hc, clauses=('order', 'having', 'group'), sites=['table', 'join1', 'join2', 'derived'],
                                                    positions=['udf', 'fn', 'case-when', 'binop', 'in-sub']):
            stmts.append((hc, sql, kind, feats))
    # ---- round 6 (b): tables / columns / aliases with dots, spaces, back-quotes, capitals, reserved words
    ocats = [R.Cat([('n', 'int1'), ('n', 'int2')], None, None, 'mindsdb'), R.Cat([('d', 'int1', 'data', 'sql'), ('n', 'INT2')], None, None, 'int1')]
    for i in range(120 if quick else 1500):
        oc = ocats[i % 2]
        og = R.OddGen(rng, dbs=('int1', 'int2') if i % 3 else ('int1',), spell_db=lambda db: R.spell(rng, db))
        stmts.append((oc, og.select(two=bool(i % 3)), 'select', sorted(og.features) + ['odd-names']))
    # ---- round 6 (c): non-ASCII / case-variant integration and project names (lower() != casefold(), lower() != ASCII lower,
    # lower() changing the length): generated statements with the database names replaced, whatever their spelling
    norm_stmts = set()
    for i in range(160 if quick else 2500):
        base = rng.choice([fixed[0], fixed[2], R.Cat([('n', 'int1'), ('n', 'int2')], None, ('list', [('pred', 'proj')]), rng.choice(['int1', 'proj', 'mindsdb']))])
        names = rng.sample(R.NONASCII_NAMES, 3)
        mapping = dict(int1=names[0], int2=names[1], proj=names[2])
        if i % 4 == 0:
            del mapping['int2']
        g = R.QGen(rng, base, adversarial=0.03)
        if i % 5 == 0:
            sql, kind = rng.choice(R.hidden_statements(rng, base, sites=['join1', 'table', 'join2'], positions=['udf', 'fn', 'case-when']))[:2]
        else:
            sql, kind = g.statement()
        nc = R.rename_cat(rng, base, mapping)
        nsql = R.rename_dbs(rng, sql, mapping)
        stmts.append((nc, nsql, kind, sorted(g.features) + ['non-ascii-names']))
        norm_stmts.add((nc.key(), nsql))
    n_probe_fail = 0
    for c, sql, kind, feats in stmts:
        chk.count((c.key(), sql))
        for f in feats:
            bump('feature/' + f)
        bump('kind/' + kind)
        try:
            ast = parse_sql(sql, 'mindsdb')
        except Exception as e:
            bump('status/unparsed')
            continue
        node = R.abstract(ast)
        if (c.key(), sql) in norm_stmts:
            # the ASCII model does not apply: the generic model with Python's str.lower as THE normaliser of every site
            if isinstance(ast, (A.Select, A.Union, A.Intersect, A.Except)):
                lines.append(R.norm_line(c, ast, sql))
                metas.append(('norm', c, (sql, ast)))
        elif isinstance(ast, (A.Select, A.Union, A.Intersect, A.Except)):
            names = [R.enc(x) for x in R.local_names(ast)]
            lines.append(json.dumps(dict(op='plan', cat=c.model(), ctes=[R.enc(x) for x in R.cte_names(ast)], names=names, node=node)))
            metas.append(('plan', c, (sql, ast)))
        for db in ('int1', 'mindsdb'):
            if (c.key(), sql) in norm_stmts:
                break
            lines.append(json.dumps(dict(op='strip', db=R.enc(db), par='n', slot='a', names=[R.enc(x) for x in R.local_names(ast)], node=node)))
            metas.append(('strip', db, (sql, ast)))
        fs, status = probe_case(c, sql, deep=True)
        bump('status/' + status.split(':')[0])
        for f in fs:
            chk.classify(f, kf_match)
            chk.fail(f)
            bump('probe-fail/' + f['class'].split('/')[0])
    # ---- the model side
    try:
        outs = [json.loads(o) for o in common.lean_run('Route', lines)]
    except Exception as e:
        outs = None
        chk.oblige('corr:route-driver', 'correspondence', False, 'driver failed: %s' % e)
    if outs is not None:
        res = {k: [0, 0, None] for k in ('cat', 'route', 'predseq', 'plan', 'strip', 'norm')}
        skipped_big = []
        variants = R.Variants()
        for (op, c, arg), o in zip(metas, outs):
            r = res[op]
            r[0] += 1
            why = None
            if 'error' in o:
                why = dict(model_error=o['error'])
            elif op == 'cat':
                real, mod = R.real_catalog(c), R.model_catalog(o)
                if canon_catalog(real) != canon_catalog(mod):
                    why = dict(catalog=c.kwargs(), impl=real, model=mod)
            elif op == 'route':
                arg, alias, dbt_int = arg
                real, mod = R.real_route(c, arg), R.model_route(o)
                # the dbt workaround of adapt_dbt_query on a data source with these parts
                if arg and all(arg):
                    rdbt, mdbt = R.real_dbt_source(c, arg, dbt_int), [R.dec(p) for p in o['dbt']]
                    if rdbt != mdbt:
                        older = rdbt == [R.dec(p) for p in o['dbtOld']]
                        why = dict(catalog=c.kwargs(), parts=arg, integration=dbt_int, impl=rdbt, model=mdbt,
                                   field='adapt_dbt_query (source)' + (' — the planner follows the variant BEFORE 18f6c71 '
                                                                       '(qualifier compared as written): regression' if older else ''))
                # resolve_table is transcribed on its own (Model.resolveTable): integration, rest, aliases, bare-name flag
                rti, mti = R.real_table_info(c, arg, alias), R.model_table_info(o['tableInfo'])
                if rti != mti and arg and all(arg):
                    why = dict(catalog=c.kwargs(), parts=arg, alias=alias, field='resolve_table (TableInfo)', impl=rti, model=mti)
                for key in ('simple', 'join', 'routeSimple', 'routeJoin', 'pred', 'predSimple', 'predJoin'):
                    if real[key] != mod[key]:
                        why = dict(catalog=c.kwargs(), parts=arg, field=key, impl=real[key], model=mod[key])
                        break
                bump('route/%s/%s' % ('agree' if o['agree'] else 'disagree-class', mod['routeJoin'][0]))
            elif op == 'predseq':
                si, k, parts = arg
                if si not in seq_real:
                    from mindsdb_sql.parser.ast import Identifier
                    pl = R.planner_for(c)
                    out = []
                    for ps in seqs[si][1]:
                        info = pl.get_predictor(Identifier(parts=list(ps)))
                        out.append(None if info is None else [info.get('integration_name'), info['name'], info['version']])
                    seq_real[si] = out
                mod = R.model_route(o)['pred']
                if seq_real[si][k] != mod:
                    why = dict(catalog=c.kwargs(), sequence=seqs[si][1], position=k, field='get_predictor (same planner)',
                               impl=seq_real[si][k], model=mod)
            elif op == 'plan':
                sql, ast = arg
                real = R.real_plan_top(c, ast)
                items = R.real_visit(c, copy.deepcopy(ast))
                mitems = [[i[0]] + ([[R.dec(p) for p in i[1]]] if i[0] == 't' else []) for i in o['items']]
                msingle = None if o['single'] is None else R.dec(o['single'])
                if items != mitems:
                    why = dict(sql=sql, field='visit-log', impl=items, model=mitems)
                variants.plan_case(real, o, dict(sql=sql, catalog=c.kwargs()))
                bump('plan/%s' % ('pushed' if msingle else 'not-pushed'))
                if not o['skipLeafOnly']:
                    skipped_big.append(sql)
                # the join planner's own pushdown site (no user-function test): same get_query_info, same cut
                why = why or R.join_site_compare(c, ast, sql, o)
                if isinstance(ast, A.Select) and isinstance(ast.from_table, A.Join):
                    bump('plan-join/%s' % ('pushed' if o['singleJoinN'] else 'not-pushed'))
            elif op == 'norm':
                sql, ast = arg
                why = R.norm_compare(c, ast, sql, o)
                bump('norm/%s' % ('pushed' if o['single'] else ('join-pushed' if o['singleJoin'] else 'not-pushed')))
            elif op == 'strip':
                sql, ast = arg
                q = copy.deepcopy(ast)
                R.planner_for(R.Cat(None, None, None, None)).prepare_integration_select(c, q)
                variants.strip_case(R.idents_of(q), o, dict(sql=sql, db=c))
            if why is not None:
                r[1] += 1
                r[2] = r[2] or why
        for k, (n, d, first) in res.items():
            chk.corr_result('route-' + k, n, d, first, dist if k == 'plan' else None)
        chk.oblige('probe:table-names-local', 'correspondence', R.table_names_are_local(),
                   'prepare_integration_select no longer treats the own name of an unaliased table as a local name (regression of bd15793)')
        okv, which, detail = variants.verdict()
        chk.oblige('corr:route-variant', 'correspondence', okv, detail)
        chk.notes.append('planner follows model variant: %s' % which)
        dist['model-variant'] = which
        # hypothesis of C10_partial_pushdown: whatever the live walker skips is a name or a constant
        chk.oblige('hyp:skipLeafOnly', 'hypothesis-check', not skipped_big,
                   'a generated tree holds a non-atomic node in a slot the walker skips: %s' % skipped_big[:2])
    for c, sql, kind, feats in stmts[:3]:
        chk.samples.append(dict(sql=sql, catalog=c.kwargs(), features=feats))
    chk.samples.append(dict(theorem='C10_pushdown_join : skipLeafOnly q → checkSingleJoinG n c ctes (visit q) = some i → ∀ parts ∈ allTables q, belongsG n c ctes i parts   -- every case-mapping n'))
    chk.samples.append(dict(theorem='C10_resolvers : ∀ c parts, defaultOk c → parts ≠ [] → routeJoinOperand c parts = routeSimple c parts'))
    chk.samples.append(dict(theorem='C10_partial_pushdown : skipLeafOnly q → planTop c ctes q = some steps → ∃ i, steps = [fetch i (strip i q)] ∧ ∀ parts ∈ allTables q, belongs c ctes i parts'))
    return chk.finish(assumptions=ASSUME)


def replay(path):
    data = json.load(open(path))
    f = data.get('failure')
    if not f:
        print(json.dumps(data, indent=1)[:3000])
        return 1
    fs, status = probe_case(cat_from_kwargs(f['catalog']), f['sql'])
    same = [x for x in fs if x['class'] == f['class']]
    print('REPRODUCED' if same else ('other failures' if fs else 'not reproduced'), json.dumps((same or fs or [f])[0], default=str)[:800])
    return 1 if (same or fs) else 0
