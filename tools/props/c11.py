"""C11 — a query on one SQL integration is pushed down whole and unchanged in meaning."""
import copy, json, re, sqlite3
from tools.harness import common, route as R

ID = 'C11'
TARGETS = ['MindsVerif.Props.C11']
THEOREMS = ['MindsVerif.Props.C11.' + n for n in (
    'C11_main', 'C11_partial_decision', 'C11_witness_2', 'C11_decision_cte', 'C11_decision_before_0e75382',
    'C11_decision_sound', 'C11_names', 'C11_resolution', 'C11_resolution_names', 'C11_resolution_exact',
    'C11_exactness_needs_hypothesis', 'C11_regression_1', 'C11_regression_2', 'C11_regression_3', 'C11_regression_4',
    # round 6: the case-mapping as a parameter of every site; planner-made identifiers keep names exactly
    'C11_norm_instance', 'C11_norm_consistent', 'C11_norm_consistent_join', 'C11_witness_norm_cut', 'C11_norm_needs_same',
    'C11_witness_norm_ctor', 'C11_alias_exact', 'C11_path_str_nodot', 'C11_witness_alias_path_str')]
ASSUME = [
    'get_query_info (bare CTE names skipped), check_single_integration with the CTE-capture guard, prepare_integration_select '
    '(alias-aware cut: aliases, CTE names, own names of unaliased tables are local names) and the walker view are hand-modelled '
    '(Model/Route.lean); tie = the plan stream of this run (decision + identifiers of the pushed query vs the real planner) and '
    'the obligations corr:route-variant / probe:table-names-local',
    'T11.1 (C11_resolution) is a theorem about NAME RESOLUTION (what every column reference denotes; scopes, CTE bodies and '
    'derived tables as scopes of their own) in a small semantics written for this property (Model/Route.lean: matchesCol / '
    'resolveCol / resolveAll); it is validated against sqlite3 in this run (sem stream, incl. references inside windows); '
    'evaluation of whole queries is not modelled: the end-to-end claim is probed by executing original and pushed query in sqlite3',
    'modelling boundary of the semantics: a CTE / derived table is read as a table of the integration, so a database-qualified '
    'reference to it would resolve in the model but not in sqlite3; such references are not generated',
    'the Sel abstraction of a query is not computed from the Node abstraction in Lean; both cuts call the same stripPartsN',
    'sqlite3 (ATTACHed database = integration) is the reference engine of the probe; column names of unaliased expression '
    'targets are engine-defined and not compared',
    'names are ASCII in Model/Route.lean; Model/RouteNorm.lean has the case-mapping of every site (constructor, resolver, cut) as '
    'a parameter; the norm stream instantiates it with Python str.lower (sent per case as a code-point table, character-wise: '
    'capital sigma is not generated) and compares catalog, get_query_info, both check_single_integration sites and the '
    'identifiers of the pushed query with the real planner on non-ASCII / case-variant integration and project names',
    'pathParts models path_str_to_parts on strings without back-quotes (pathstr stream)',
]
DB = 'int1'
TABLES = dict(R.SCHEMA[DB], int1=['id', 'x', 'y'])      # a table called like the integration (not used by the generator)


ALL_TABLES = dict(TABLES, **R.ODD_SCHEMA['int1'])       # + tables / columns with dots, spaces, back-quotes, capitals, reserved words


def make_data(rng):
    data = {}
    for t, cols in sorted(ALL_TABLES.items()):
        rows = []
        for _ in range(rng.randint(0, 3)):
            row = [rng.choice([None, 0, 1, 2]) for _ in cols]
            row[0] = rng.choice([0, 1, 2])
            rows.append(row)
        data[t] = rows
    return data


def build_db(data, schema=None):
    """tables of the integration in an ATTACHed database called `schema` (the federated view) or in main (the integration itself)"""
    conn = sqlite3.connect(':memory:')
    pre = ''
    if schema is not None:
        conn.execute("ATTACH ':memory:' AS %s" % R.qn(schema))
        pre = R.qn(schema) + '.'
    for t, cols in sorted(ALL_TABLES.items()):
        conn.execute('CREATE TABLE %s%s (%s)' % (pre, R.qn(t), ', '.join(R.qn(c) for c in cols)))
        for row in data[t]:
            conn.execute('INSERT INTO %s%s VALUES (%s)' % (pre, R.qn(t), ', '.join('?' for _ in cols)), row)
    return conn


class Dbs(list):
    """[(federated, local)] for the integration called int1, plus federated views under other names on demand"""

    def __init__(self, rng, n):
        self.data = [make_data(rng) for _ in range(n)]
        super().__init__((build_db(d, DB), build_db(d)) for d in self.data)
        self.other = {}

    def named(self, schema):
        if schema == DB:
            return list(self)
        if schema not in self.other:
            self.other[schema] = [(build_db(d, schema), loc) for d, (_, loc) in zip(self.data, self)]
        return self.other[schema]


def make_dbs(rng):
    """(federated connection: tables live in ATTACHed database int1, local connection: tables in main)"""
    d = make_data(rng)
    return build_db(d, DB), build_db(d)


def run_sql(conn, sql):
    try:
        cur = conn.execute(sql)
        rows = cur.fetchall()
        return [d[0] for d in cur.description], rows, None
    except sqlite3.Error as e:
        return None, None, str(e)


def cte_ref_tag(cat, ast):
    """the statement refers to one of its CTEs as a table while the default namespace is not a project"""
    names = {str(c) for c in all_cte_names(ast)}
    sp = cat.spec()
    used = any(len(i.parts) == 1 and str(i.parts[0]) in names for i, _ in R.table_refs(ast))
    return used and (sp['dns'] is None or sp['dns'] not in sp['projects'])


def tags_of(ast, pushed, DB=DB):
    tags = []
    if DB in R.all_aliases(ast) or any(str(c).lower() == DB for c in all_cte_names(ast)):
        tags.append('alias=integration')
    if any(i.alias is None and len(i.parts) > 1 and str(i.parts[-1]).lower() == DB for i, _ in R.table_refs(ast)):
        tags.append('table=integration')
    ctes = {str(c).lower() for c in all_cte_names(ast)}
    if any(len(i.parts) > 1 and str(i.parts[-1]).lower() in ctes for i, _ in R.table_refs(ast)):
        tags.append('cte-name=qualified-table')
    if pushed is not None:
        for i, path in R.all_identifiers(pushed):
            if ('Case', 'arg') in path and len(i.parts) > 1 and str(i.parts[0]).lower() == DB:
                tags.append('case-operand')
                break
    return tags


def all_cte_names(ast):
    out = []
    from mindsdb_sql.parser.ast.base import ASTNode

    def rec(n):
        if isinstance(n, ASTNode):
            if type(n).__name__ == 'CommonTableExpression':
                out.append(n.name.parts[-1])
            for k, v in vars(n).items():
                rec(v)
        elif isinstance(n, (list, tuple)):
            for x in n:
                rec(x)
    rec(ast)
    return out


def named_positions(ast):
    """positions of result columns whose NAME the property fixes (an identifier target keeps its column name, an aliased
    target its alias); None when a star makes positions unknown"""
    from mindsdb_sql.parser import ast as A
    sel = ast
    while isinstance(sel, (A.Union, A.Intersect, A.Except)):
        sel = sel.left
    if not isinstance(sel, A.Select):
        return None
    out = []
    for i, t in enumerate(sel.targets):
        if isinstance(t, A.Star) or (isinstance(t, A.Identifier) and any(not isinstance(p, str) for p in t.parts)):
            return None
        if getattr(t, 'alias', None) is not None or isinstance(t, A.Identifier):
            out.append(i)
    return out


def probe_case(cat, sql, dbs, db=DB, schema=None):
    """oracle: exactly one fetch step for the integration `db` whose query, run on the integration's own database, returns what
    the original returns on the federated database (`schema`: the name under which the original refers to the integration)"""
    from mindsdb_sql import parse_sql
    from mindsdb_sql.planner import plan_query
    DB = db.lower()
    if schema is not None:
        dbs = dbs.named(schema)
    try:
        ast = parse_sql(sql, 'mindsdb')
    except Exception:
        return [], 'unparsed'
    base = dict(sql=sql, catalog=cat.kwargs(), db=db, schema=schema)
    fails = []

    def fail(cls, desc, tags, **kw):
        f = dict(base, desc=desc, tags=tags, **kw)
        f['class'] = cls + '/' + ','.join(tags)
        fails.append(f)
    # is the original a meaningful query at all?  (reference engine, first database)
    names0, rows0, err0 = run_sql(dbs[0][0], sql)
    # (when sqlite3 cannot run the original, e.g. `int1.t.*`, only the structural oracles apply)
    try:
        plan = plan_query(copy.deepcopy(ast), **copy.deepcopy(cat.kwargs()))
    except Exception as e:
        fail('not-planned', 'single-integration query is not planned: %s: %s' % (type(e).__name__, str(e)[:150]), tags_of(ast, None, DB) + (['cte-ref-default-not-project'] if cte_ref_tag(cat, ast) else []))
        return fails, 'exception'
    steps = plan.steps
    if not (len(steps) == 1 and type(steps[0]).__name__ == 'FetchDataframeStep' and steps[0].integration == DB
            and steps[0].query is not None):
        fail('not-single-fetch', 'expected exactly one fetch step for %r, got %s' % (DB, [str(x) for x in R.plan_summary(plan)][:5]),
             tags_of(ast, None, DB) + (['cte-ref-default-not-project'] if cte_ref_tag(cat, ast) else []))
        return fails, 'not-single'
    pushed = steps[0].query
    ptext = str(pushed)
    tags = tags_of(ast, pushed, DB)
    aliases = R.all_aliases(ast) | {str(c).lower() for c in all_cte_names(ast)} \
        | {str(i.parts[-1]).lower() for i, _ in R.table_refs(ast) if i.alias is None}      # names a first part may denote locally
    for i, ipath in R.all_identifiers(pushed):
        if len(i.parts) > 1 and isinstance(i.parts[0], str) and i.parts[0].lower() == DB and DB not in aliases:
            fail('unstripped', 'identifier %s of the pushed query %r still starts with the integration name' % (
                '.'.join(str(p) for p in i.parts), ptext), tags, pushed=ptext, identifier=[str(p) for p in i.parts])
            break
    for fed, loc in (dbs if err0 is None else []):
        names, rows, err = run_sql(fed, sql)
        pn, pr, perr = run_sql(loc, ptext)
        if err is not None:
            continue
        if perr is not None:
            fail('exec-error', 'pushed query %r fails on the integration (%s) while the original runs' % (ptext, perr), tags,
                 pushed=ptext, error=perr)
            break
        ordered = ' ORDER BY ' in sql.upper() and ' UNION ' not in sql.upper()
        key = lambda r: tuple((0, '') if v is None else (1, str(v)) for v in r)
        if (rows != pr) if ordered else (sorted(rows, key=key) != sorted(pr, key=key)):
            fail('rows-differ', 'pushed query %r returns different rows' % ptext, tags, pushed=ptext,
                 expected=rows[:6], got=pr[:6])
            break
        pos = named_positions(ast) or []
        bad = [(a, b) for i, (a, b) in enumerate(zip(names, pn)) if (i in pos or re.fullmatch(r'[A-Za-z_][A-Za-z0-9_]*', a)) and a != b]
        if len(names) != len(pn) or bad:
            fail('names-differ', 'pushed query %r returns columns %s, the original %s' % (ptext, pn, names), tags,
                 pushed=ptext, expected=names, got=pn)
            break
    return fails, 'pushed' if err0 is None else 'pushed-not-executable-in-sqlite'


def kf_match(k, f):
    sig = k.get('signature', {})
    if 'class_re' in sig and not re.fullmatch(sig['class_re'], f.get('class', '')):
        return False
    if 'tags_any' in sig and not (set(sig['tags_any']) & set(f.get('tags', []))):
        return False
    return True


# ------------------------------------------------------------------ validation of the name-resolution semantics
VOC_Q = ['t', 's', 'u', 'a', 'b', 'int1', 'INT1', 'T', 'zz']
VOC_C = ['id', 'x', 'y', 'z', 'w', 'ID', 'q']


SEM_TABLES = sorted(t for t in TABLES if t != DB)      # the table called like the integration has its own stream


def gen_sel(rng, depth=0):
    tabs = []
    for _ in range(rng.choice([1, 2, 2, 3])):
        t = rng.choice(SEM_TABLES)
        parts = [t] if rng.random() < 0.3 else [rng.choice(['int1', 'INT1', 'Int1']), t]
        alias = None
        if rng.random() < 0.5:
            alias = rng.choice(['a', 'b', 'c', 't', 's', 'int1'] if rng.random() < 0.3 else ['a', 'b', 'c'])
        tabs.append((parts, alias))
    cols = []
    for _ in range(rng.choice([1, 2, 3])):
        n = rng.choice([1, 2, 2, 3, 3])
        c = rng.choice(VOC_C)
        if n == 1:
            cols.append([c])
        elif n == 2:
            cols.append([rng.choice(VOC_Q), c])
        else:
            cols.append([rng.choice(['int1', 'INT1', 'int1', 'int2', 'zz']), rng.choice(VOC_Q), c])
    subs = [gen_sel(rng, depth + 1)] if depth < 1 and rng.random() < 0.5 else []
    ctes = []
    if depth == 0 and rng.random() < 0.4:
        # one CTE `c0` = SELECT * FROM <one table>; its body is a scope of its own with its own references
        t = rng.choice(SEM_TABLES)
        bparts = [t] if rng.random() < 0.3 else [rng.choice(['int1', 'INT1']), t]
        balias = rng.choice([None, None, 'a', 'int1', 't'])
        bq = balias or t
        bcols = [[rng.choice(VOC_C)], [rng.choice([bq, bq, 'int1', 'zz']), rng.choice(VOC_C)]]
        if rng.random() < 0.5:
            bcols.append([rng.choice(['int1', 'INT1', 'zz']), rng.choice([t, bq]), rng.choice(VOC_C)])
        ctes = [[[(bparts, balias)], bcols, [], []]]
        if rng.random() < 0.8:
            calias = rng.choice([None, None, 'b', 'int1'])
            tabs[rng.randrange(len(tabs))] = (['c0'], calias)
            cols.append(['c0', rng.choice(VOC_C)])
            # modelling boundary: a CTE is read as a table of the integration, so `int1.<cte>.col` would resolve in
            # the model; sqlite3 does not accept a database-qualified reference to a CTE — such references are not generated
            e = (calias or 'c0').lower()

            def drop(sel):
                sel[1] = [c for c in sel[1] if not (len(c) == 3 and c[1].lower() == e)] or [['id']]
                for x in sel[2]:
                    drop(x)
            keep = [tabs, cols, subs, ctes]
            drop(keep)
            cols = keep[1]
    if depth == 0 and rng.random() < 0.35:
        # a derived table `(SELECT * FROM <table>) AS d`: for name resolution it is a CTE body plus a bare reference `d`;
        # its alias is a local name like any table alias, also when it spells the integration
        t = rng.choice(SEM_TABLES)
        bparts = [t] if rng.random() < 0.3 else [rng.choice(['int1', 'INT1']), t]
        d = rng.choice(['d', 'd', 'int1', 'INT1', 'dd'])       # not a real table's name: the schema is keyed by name
        tabs[rng.randrange(len(tabs))] = ([d], None, (bparts, rng.choice([None, 'a', 'int1'])))
        cols.append([d, rng.choice(TABLES[t])])
        cols.append([rng.choice(TABLES[t])])
        e = d.lower()

        def drop2(sel):
            sel[1] = [c for c in sel[1] if not (len(c) == 3 and c[1].lower() == e)] or [['id']]
            for x in sel[2]:
                drop2(x)
        keep = [tabs, cols, subs, ctes]
        drop2(keep)
        cols = keep[1]
    return [tabs, cols, subs, ctes]


def tab3(t):
    return t if len(t) == 3 else (t[0], t[1], None)


def under_map(sel):
    """names whose rows are rows of an underlying table: the CTE c0 and the derived tables of the top level"""
    m = {}
    if sel[3]:
        m['c0'] = tab3(sel[3][0][0][0])[0][-1]
    for t in sel[0]:
        p, a, body = tab3(t)
        if body is not None:
            m[p[0].lower()] = body[0][-1]
    return m


def sel_json(sel):
    tabs, cols, subs, ctes = sel
    bodies = [[[body], [], [], []] for _, _, body in map(tab3, tabs) if body is not None]
    return [[[[R.enc(p) for p in parts], R.enc_opt(a)] for parts, a, _ in map(tab3, tabs)], [[R.enc(p) for p in c] for c in cols],
            [sel_json(s) for s in subs], [sel_json(s) for s in ctes + bodies]]


def cut(parts, names=(), is_tab=True):
    if not is_tab and len(parts) == 2 and DB in names:      # alias-aware cut (fixes/C11_2.diff); names=() is the pinned cut
        return parts
    return parts[1:] if len(parts) > 1 and parts[0].lower() == DB else parts


def sel_aliases(sel):
    """the `names` of the live cut: alias or, without one, own name of every table reference (CTE bodies included)"""
    tabs, cols, subs, ctes = sel
    out = {(a or p[-1]).lower() for p, a, _ in map(tab3, tabs)}
    for _, _, body in map(tab3, tabs):
        if body is not None:
            out.add((body[1] or body[0][-1]).lower())
    for s in subs + ctes:
        out |= sel_aliases(s)
    return out


def from_clause(tabs, strip):
    def one(t):
        p, a, body = tab3(t)
        if body is not None:
            return '(SELECT * FROM %s) AS %s' % (from_clause([body], strip), p[0])
        return '.'.join(cut(p) if strip else p) + (' AS %s' % a if a else '')
    return ', '.join(one(t) for t in tabs)


def sqlite_resolutions(conn, sel, strip, outer=(), names=(), prefix=''):
    """what sqlite says about every column reference, in the model's order (CTE bodies first)"""
    tabs, cols, subs, ctes = sel
    out = []
    for body in ctes:
        out += sqlite_resolutions(conn, body, strip, (), names)
        prefix = 'WITH c0 AS (SELECT * FROM %s) ' % from_clause(body[0], strip)
    # (derived tables have bodies without column references of their own: nothing to list for them)
    for c in cols:
        r = '.'.join(cut(c, names, False) if strip else c)
        def run(expr):
            q = 'SELECT %s FROM %s LIMIT 1' % (expr, from_clause(tabs, strip))
            for otabs in outer:
                q = 'SELECT (%s) FROM %s LIMIT 1' % (q, from_clause(otabs, strip))
            try:
                row = conn.execute(prefix + q).fetchone()
                return ['ok'] + str(row[0]).split('.')
            except sqlite3.Error as e:
                m = str(e)
                return ['ambiguous'] if 'ambiguous' in m else (['notFound'] if 'no such column' in m else ['error', m])
        res = run(r)
        # the same reference inside a window: PARTITION BY only / ORDER BY only / both — must resolve the same way
        k = (len(r) + len(cols) + len(tabs)) % 3
        over = ['PARTITION BY %s' % r, 'ORDER BY %s DESC' % r, 'PARTITION BY %s ORDER BY %s' % (r, r)][k]
        wres = run('count(*) OVER (%s)' % over)
        if wres[0] != res[0]:
            res = ['window-mismatch', over, res, wres]
        out.append(res)
        continue
    for s in subs:
        out += sqlite_resolutions(conn, s, strip, (tabs,) + tuple(outer), names, prefix)
    return out


def marker_dbs():
    """one row per table, every value names its (table, column)"""
    fed = sqlite3.connect(':memory:')
    fed.execute("ATTACH ':memory:' AS %s" % DB)
    loc = sqlite3.connect(':memory:')
    for t, cols in sorted(TABLES.items()):
        vals = ', '.join("'%s.%s'" % (t, c) for c in cols)
        fed.execute('CREATE TABLE %s.%s (%s)' % (DB, t, ', '.join(cols)))
        fed.execute('INSERT INTO %s.%s VALUES (%s)' % (DB, t, vals))
        loc.execute('CREATE TABLE %s (%s)' % (t, ', '.join(cols)))
        loc.execute('INSERT INTO %s VALUES (%s)' % (t, vals))
    return fed, loc


def model_res(js):
    out = []
    for r in js:
        if r[0] == 'ok':
            out.append(['ok', R.dec(r[3]), R.dec(r[4])])
        else:
            out.append([r[0]])
    return out


def single_catalog(rng):
    form = rng.choice(['names', 'dicts', 'upper'])
    if form == 'names':
        ints = [('n', 'int1'), ('n', 'int2')]
    elif form == 'upper':
        ints = [('n', 'INT1'), ('n', 'int2')]
    else:
        ints = [('d', 'int1', 'data', rng.choice([None, 'sql'])), ('d', 'int2', 'data', 'sql')]
    pm = rng.choice([None, ('list', [('pred', 'mindsdb')]), ('legacy', [('pred', None)])])
    return R.Cat(ints, rng.choice([None, 'mindsdb']), pm, rng.choice(['mindsdb', 'mindsdb', 'mindsdb', 'int1', None, 'proj']))


def run(chk):
    quick = chk.tier == 'quick'
    broken = bool(chk.broken())
    n_q = (1500 if not broken else 3000) if quick else 15000
    n_sem = 1500 if quick else 12000
    n_db = 2 if quick else 4
    from mindsdb_sql import parse_sql
    from mindsdb_sql.parser import ast as A
    rng = common.rng_for(chk.seed, 'C11')
    dbs = Dbs(rng, n_db)
    for k in chk.kf:
        if k['status'] == 'open':
            w = k['witness']
            from tools.props.c10 import cat_from_kwargs
            fs, _ = probe_case(cat_from_kwargs(w['catalog']), w['sql'], dbs)
            k['_reproduced'] = any(kf_match(k, f) for f in fs)
    lines, metas, dist = [], [], {}

    def bump(k):
        dist[k] = dist.get(k, 0) + 1
    stmts = []
    for i in range(n_q):
        c = single_catalog(rng)
        g = R.QGen(rng, c, single=DB, adversarial=0.04, allow_models=False)
        sql, kind = g.statement()
        if kind != 'select':
            continue
        stmts.append((c, sql, sorted(g.features)))
    # an integration's schema.table that coincides with project.model; single-column ON with another default namespace
    for dns in ('mindsdb', 'int2', None):
        for pm in (('list', [('t', 'demo')]), ('legacy', [('t', 'demo')]), ('list', [('t', 'demo'), ('s', 'Demo')])):
            c = R.Cat([('n', 'int1'), ('n', 'int2')], None, pm, dns)
            for q in ('int1', 'INT1', '`int1`'):
                stmts.append((c, 'SELECT * FROM %s.demo.t' % q, ['schema.table=project.model']))
                stmts.append((c, 'SELECT x FROM %s.demo.t WHERE x > 0 ORDER BY x' % q, ['schema.table=project.model']))
                stmts.append((c, 'SELECT a.x FROM %s.demo.t AS a JOIN %s.DEMO.s AS b ON a.id = b.id' % (q, q), ['schema.table=project.model']))
                stmts.append((c, 'SELECT a.x FROM %s.t AS a JOIN %s.s AS b ON b.x' % (q, q), ['on-single-column']))
                stmts.append((c, 'SELECT a.x FROM %s.t AS a LEFT JOIN %s.s AS b ON b.x WHERE a.y > 0' % (q, q), ['on-single-column']))
    # a CTE called like a table of the integration that the query also uses, qualified
    for c in (R.Cat([('n', 'int1'), ('n', 'int2')], None, None, 'mindsdb'), R.Cat([('n', 'int1')], None, None, 'int1')):
        for q in ('int1', 'INT1'):
            stmts.append((c, 'WITH t AS (SELECT * FROM %s.s) SELECT t.id, u.x FROM t JOIN %s.t AS u ON t.id = u.id' % (q, q), ['cte-name=qualified-table']))
            stmts.append((c, 'WITH s AS (SELECT * FROM %s.t) SELECT * FROM %s.s WHERE id IN (SELECT id FROM s)' % (q, q), ['cte-name=qualified-table']))
    # an unaliased table whose own name is the integration name
    for c in (R.Cat([('n', 'int1'), ('n', 'int2')], None, None, 'mindsdb'), R.Cat([('n', 'INT1')], None, None, 'int1')):
        for q in ('int1', 'INT1'):
            stmts.append((c, 'SELECT %s.x FROM %s.int1 JOIN %s.s ON %s.id = s.id' % (q, q, q, q), ['table=integration']))
            stmts.append((c, 'SELECT int1.x, a.z FROM %s.int1 JOIN %s.s AS a ON int1.id = a.id WHERE int1.y > 0' % (q, q), ['table=integration']))
            stmts.append((c, 'SELECT x FROM %s.int1 WHERE int1.y > 0' % q, ['table=integration']))
    # ---- round 6 (b): tables / columns / aliases with dots, spaces, back-quotes, capitals, reserved words: whatever identifier the
    # planner makes for such a name (the alias that keeps a column name above all) keeps the name as ONE part
    where = {}
    for i in range(260 if quick else 3000):
        c = single_catalog(rng)
        og = R.OddGen(rng, dbs=('int1',), spell_db=lambda db: R.spell(rng, db))
        stmts.append((c, og.select(), sorted(og.features) + ['odd-names']))
    # ---- round 6 (c): the integration has a non-ASCII name (lower() != casefold(), lower() != ASCII lower, lower() changing the
    # length), registered and written in different case variants; the original runs on a database ATTACHed under the name as written
    for i in range(200 if quick else 3000):
        name = rng.choice(R.NONASCII_NAMES)
        written = R.case_variant(rng, name)
        base = R.Cat([('n', 'int1'), ('n', 'int2')] if i % 2 else [('d', 'int1', 'data', 'sql'), ('n', 'int2')], None, None,
                     rng.choice(['mindsdb', 'mindsdb', 'int1', None]))
        if i % 4 == 0:
            og = R.OddGen(rng, dbs=('int1',))
            sql, feats = og.select(), sorted(og.features)
        else:
            g = R.QGen(rng, base, single=DB, adversarial=0.04, allow_models=False, spellings=False)
            sql, kind = g.statement()
            feats = sorted(g.features)
            if kind != 'select':
                continue
        nc = R.rename_cat(rng, base, {'int1': name})
        nsql = re.sub(r'`?\bint1\b`?', lambda m: '`%s`' % written, sql)
        stmts.append((nc, nsql, feats + ['non-ascii-names']))
        where[(nc.key(), nsql)] = (name, written)
    for c, sql, feats in stmts:
        chk.count((c.key(), sql))
        for f in feats:
            bump('feature/' + f)
        try:
            ast = parse_sql(sql, 'mindsdb')
        except Exception:
            bump('status/unparsed')
            continue
        if (c.key(), sql) in where:
            name, written = where[(c.key(), sql)]
            lines.append(R.norm_line(c, ast, sql))
            metas.append(('norm', c, (sql, ast)))
            fs, status = probe_case(c, sql, dbs, db=name, schema=written)
        else:
            lines.append(json.dumps(dict(op='plan', cat=c.model(), ctes=[R.enc(x) for x in R.cte_names(ast)],
                                         names=[R.enc(x) for x in R.local_names(ast)], node=R.abstract(ast))))
            metas.append(('plan', c, (sql, ast)))
            fs, status = probe_case(c, sql, dbs)
        bump('status/' + status)
        for f in fs:
            chk.classify(f, kf_match)
            chk.fail(f)
            bump('probe-fail/' + f['class'].split('/')[0])
    # decision stream on queries that must NOT be pushed down whole as well (two integrations, models, UDFs,
    # files/views, api integrations): model decision vs real check_single_integration
    for i in range(n_q // 3):
        c = R.gen_catalog(rng)
        g = R.QGen(rng, c, adversarial=0.0)
        sql, kind = g.statement()
        if rng.random() < 0.15:
            sql = 'SELECT * FROM %s.%s' % (rng.choice(['files', 'FILES', 'views', 'Views']), rng.choice(['f1', 't']))
            if c.ints is not None and rng.random() < 0.7:      # the pseudo-databases are registered integrations
                c = R.Cat(c.ints + [('n', 'files'), ('d', 'views', 'data', None)], c.pns, c.pm, c.dns)
        if kind != 'select':
            continue
        try:
            ast = parse_sql(sql, 'mindsdb')
        except Exception:
            continue
        chk.count((c.key(), sql))
        lines.append(json.dumps(dict(op='plan', cat=c.model(), ctes=[R.enc(x) for x in R.cte_names(ast)],
                                     names=[R.enc(x) for x in R.local_names(ast)], node=R.abstract(ast))))
        metas.append(('plan', c, (sql, ast)))
    for nm in R.pathstr_cases(rng, 40 if quick else 400):
        lines.append(json.dumps(dict(op='pathstr', name=R.enc(nm))))
        metas.append(('pathstr', None, nm))
    sels = [gen_sel(rng) for _ in range(n_sem)]
    for s in sels:
        schema = dict(TABLES)
        for t3 in s[0]:
            p3, _, body3 = tab3(t3)
            if body3 is not None:
                schema[p3[0]] = TABLES[body3[0][-1]]          # the derived table, under its name as written
        if s[3]:
            schema['c0'] = TABLES[under_map(s)['c0']]
        lines.append(json.dumps(dict(op='sem', db=R.enc(DB), sch=[[R.enc(t), [R.enc(c) for c in cols]] for t, cols in sorted(schema.items())],
                                     sel=sel_json(s))))
        metas.append(('sem', None, s))
    try:
        outs = [json.loads(o) for o in common.lean_run('Route', lines)]
    except Exception as e:
        outs = None
        chk.oblige('corr:route-driver', 'correspondence', False, 'driver failed: %s' % e)
    if outs is not None:
        mfed, mloc = marker_dbs()
        res = {k: [0, 0, None] for k in ('plan', 'sem', 'norm', 'pathstr')}
        variants = R.Variants()
        for (op, c, arg), o in zip(metas, outs):
            r = res[op]
            r[0] += 1
            why = None
            if 'error' in o:
                why = dict(model_error=o['error'])
            elif op == 'plan':
                sql, ast = arg
                real = R.real_plan_top(c, ast)
                msingle = None if o['single'] is None else R.dec(o['single'])
                variants.plan_case(real, o, dict(sql=sql, catalog=c.kwargs()))
                bump('plan/%s' % ('pushed' if msingle else 'not-pushed'))
                why = R.join_site_compare(c, ast, sql, o)
            elif op == 'norm':
                sql, ast = arg
                why = R.norm_compare(c, ast, sql, o)
                bump('norm/%s' % ('pushed' if o['single'] else 'not-pushed'))
            elif op == 'pathstr':
                from mindsdb_sql.parser.ast.select.identifier import path_str_to_parts
                real, mod = path_str_to_parts(arg), [R.dec(p) for p in o['parts']]
                if real != mod:
                    why = dict(name=arg, field='path_str_to_parts', impl=real, model=mod)
            else:
                sel = arg
                if ['badTable'] in model_res(o['fed']):
                    bump('sem/badTable')
                    continue
                want_fed = sqlite_resolutions(mfed, sel, False)
                want_loc = sqlite_resolutions(mloc, sel, True)
                # the rows of the CTE c0 are rows of its underlying table: compare tables through that map
                um = under_map(sel)
                under = lambda rs: [[r[0], um[r[1].lower()]] + r[2:] if len(r) > 2 and r[1].lower() in um else r for r in rs]
                got_fed, got_loc = under(model_res(o['fed'])), under(model_res(o['local']))
                low = lambda rs: [[str(x).lower() for x in r] for r in rs]
                if {R.dec(n) for n in o['names']} != set(sel_aliases(sel)):
                    why = dict(sel=sel, field='names handed to the cut', harness=sorted(sel_aliases(sel)), model=sorted(R.dec(n) for n in o['names']))
                bump('sem/cte=%s,derived=%s' % (bool(sel[3]), any(tab3(t)[2] is not None for t in sel[0])))
                if low(want_fed) != low(got_fed):
                    why = dict(sel=sel, field='federated resolution', sqlite=want_fed, model=got_fed)
                elif low(want_loc) != low(got_loc):
                    why = dict(sel=sel, field='local resolution of the stripped query', sqlite=want_loc, model=got_loc)
                bump('sem/ok=%s/%s' % (o['ok'], 'same' if got_fed == got_loc else 'changed'))
                if o['ok'] and got_fed != got_loc:
                    why = why or dict(sel=sel, field='theorem instance T11.1', fed=got_fed, local=got_loc)
                # the alias-aware cut
                want_a = sqlite_resolutions(mloc, sel, True, names=sel_aliases(sel))
                got_a = under(model_res(o['localA']))
                if low(want_a) != low(got_a):
                    why = why or dict(sel=sel, field='local resolution, alias-aware cut', sqlite=want_a, model=got_a)
                if o['okA'] and got_fed != got_a:
                    why = why or dict(sel=sel, field='theorem instance T11.1 (alias-aware)', fed=got_fed, local=got_a)
                # instance of the full-strength theorem C11_resolution: what denotes something keeps its denotation
                if len(got_fed) != len(got_a) or any(f != ['notFound'] and f != a for f, a in zip(got_fed, got_a)):
                    why = why or dict(sel=sel, field='theorem instance C11_resolution (keeps)', fed=got_fed, local=got_a)
                bump('semA/ok=%s/%s' % (o['okA'], 'same' if got_fed == got_a else 'changed'))
            if why is not None:
                r[1] += 1
                r[2] = r[2] or why
        chk.corr_result('route-plan', res['plan'][0], res['plan'][1], res['plan'][2], dist)
        chk.oblige('probe:table-names-local', 'correspondence', R.table_names_are_local(),
                   'prepare_integration_select no longer treats the own name of an unaliased table as a local name (regression of bd15793)')
        okv, which, detail = variants.verdict()
        chk.oblige('corr:route-variant', 'correspondence', okv, detail)
        dist['model-variant'] = which
        chk.corr_result('sem-vs-sqlite', res['sem'][0], res['sem'][1], res['sem'][2])
        chk.corr_result('route-norm', res['norm'][0], res['norm'][1], res['norm'][2])
        chk.corr_result('pathstr', res['pathstr'][0], res['pathstr'][1], res['pathstr'][2])
    for c, sql, feats in stmts[:3]:
        chk.samples.append(dict(sql=sql, catalog=c.kwargs(), features=feats))
    chk.samples.append(dict(theorem='C11_norm_consistent : defaultKnown c → planTopG n n names c ctes q = some steps → ∃ i, steps = [fetch i (stripG n i names q)] ∧ ∀ visited table x, isCteRef ∨ ∃ rest, resolveSimpleG n c x = some (i, rest) ∧ cut x = rest   -- every case-mapping n, the SAME at both sites'))
    chk.samples.append(dict(theorem='C11_resolution : ∀ db sch s, keepsAll (resolveAll true db sch [] s) (resolveAll false db sch [] (stripSel db (aliasesOf s) s))   -- keeps a b := a = notFound ∨ b = a'))
    chk.samples.append(dict(theorem='C11_partial_decision : (visit q).any (counted true ctes) → (∀ it ∈ visit q, itemFine true c ctes i it) → i ∉ projects → i ≠ files/views → classType i ≠ api → captures ctes q = false → planTop true names c ctes q = some [fetch i (strip i names q)]'))
    return chk.finish(assumptions=ASSUME)


def replay(path):
    data = json.load(open(path))
    f = data.get('failure')
    if not f:
        print(json.dumps(data, indent=1)[:3000])
        return 1
    from tools.props.c10 import cat_from_kwargs
    rng = common.rng_for(0, 'C11-replay')
    dbs = Dbs(rng, 6)
    fs, status = probe_case(cat_from_kwargs(f['catalog']), f['sql'], dbs, db=f.get('db', DB), schema=f.get('schema'))
    print('REPRODUCED' if fs else 'not reproduced', json.dumps((fs or [f])[0], default=str)[:800])
    return 1 if fs else 0
