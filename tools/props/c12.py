"""C12 — prepared statements bind placeholders in textual order, like inline literals."""
import copy, json, os, re, subprocess, sys
from tools.harness import common, walkspec, walkrun, walkhist
from tools.harness.walkrun import VAL0

ID = 'C12'
TARGETS = ['MindsVerif.Props.C12']
THEOREMS = ['MindsVerif.Props.C12.' + n for n in (
    'C12_count', 'C12_found_perm', 'C12_textual', 'C12_fill', 'C12_visits', 'C12_execute', 'C12_mismatch', 'C12_partial',
    'phi12', 'phi12_markers', 'C12_samples', 'C12_update_textual', 'C12_update_textual_oldwalker', 'C12_from_arg',
    'C12_case_operand', 'C12_second_execute', 'C12_info_after_execute', 'C12_keeps_alias', 'C12_review_visits_reordered')]
ASSUME = [
    'the slot kinds of the probed schema (which positions count as expression / table / query positions, hence where a '
    'placeholder must be found) come from the hand-written tools/harness/walkspec.py; C12_count counts what the walk visits, '
    'the link to the `?` of the text is the coverage clause plus the parser and is checked on the real code by the oracle',
    'get_query_params / fill_query_params = the walker model (C13) with the visitors cbFind / cbFillMap, ordered by rendered position (Params.sortByText over Walk.textOrder, print templates); prepare / execute / '
    'get_statement_info are hand-transcribed (Model/Params.lean); tie = correspondence stream (find, fill with n and n-1 '
    'values, call sequences) against the real functions and a real QueryPlanner',
    'the marker search of sort_by_text_position (text.find on the rendered statement) is modelled by the print-template position; '
    'pinned by phi12_markers (probed markers pairwise infix-free, kernel-checked) and by the obligation probe:marker-search '
    '(the real function on 30 placeholders rendered in adversarial orders)',
    'IndexError of params.pop(0) is modelled as a flag; plan_query (what happens after the filled tree is handed to the '
    'planner) is outside the model and compared on the real code only (plan of execute_steps vs plan of the inlined statement)',
    'statement generator: `?` in select list, WHERE, ON, CASE operand and branches, function arguments and FROM-argument, '
    'IN, BETWEEN, CAST, unary minus, IS NULL, window partitions, scalar and joined subqueries, CTE bodies, INSERT values, '
    'INSERT … SELECT, UPDATE SET / WHERE, DELETE WHERE, GROUP BY / HAVING / ORDER BY, UNION; LIMIT ? is not accepted by the grammars',
]
DIALECTS = ('mindsdb', 'mysql', 'sqlite')


# ------------------------------------------------------------------ statement generator

def gen_expr(rng, depth, d, p=0.45):
    r = rng.random()
    if depth <= 0 or r < 0.3:
        x = rng.random()
        if x < 0.04:
            return '(?)'
        return '?' if x < p else ('c%d' % rng.randrange(3) if x < 0.8 else str(rng.randrange(5)))
    e = lambda: gen_expr(rng, depth - 1, d, p)
    forms = [
        lambda: '%s %s %s' % (e(), rng.choice(['=', '+', '>', 'and', 'or', '*']), e()),
        lambda: 'f(%s)' % e(), lambda: 'g(%s, %s)' % (e(), e()),
        lambda: 'extract(%s FROM %s)' % (rng.choice(['MONTH', '?', 'c1']), e()),
        lambda: '%s IN (%s, %s)' % (e(), e(), e()), lambda: '%s BETWEEN %s AND %s' % (e(), e(), e()),
        lambda: 'CAST(%s AS int)' % e(), lambda: '- %s' % e(), lambda: '%s IS NULL' % e(),
        lambda: '(%s)' % e(),
        lambda: '(SELECT %s FROM int.t%d WHERE %s)' % (e(), rng.randrange(3), e()),
        lambda: '%sEXISTS (SELECT %s FROM int.t%d WHERE %s)' % (rng.choice(['', 'NOT ']), e(), rng.randrange(3), e()),
        lambda: '%s %sIN (SELECT %s FROM int.t%d WHERE %s)' % (e(), rng.choice(['', 'NOT ']), e(), rng.randrange(3), e()),
    ]
    if d != 'sqlite':
        forms += [lambda: 'CASE %s WHEN %s THEN %s ELSE %s END' % (e(), e(), e(), e()),
                  lambda: 'CASE WHEN %s THEN %s WHEN %s THEN %s END' % (e(), e(), e(), e())]
    if d == 'mindsdb':
        forms += [lambda: 'sum(%s) OVER (PARTITION BY %s ORDER BY %s)' % (e(), e(), e())]
    return rng.choice(forms)()


def gen_select(rng, depth, d):
    e = lambda: gen_expr(rng, depth, d)
    s = 'SELECT %s' % ', '.join(e() + (' AS x%d' % i if rng.random() < 0.1 else '') for i in range(rng.randint(1, 3)))
    r = rng.random()
    if r < 0.45:
        s += ' FROM int.t%d' % rng.randrange(3)
    elif r < 0.65:
        s += ' FROM int.t1 %s int.t2 ON %s' % (rng.choice(['JOIN', 'LEFT JOIN']), e())
    elif r < 0.85:
        s += ' FROM (SELECT %s FROM int.a WHERE %s) x JOIN (SELECT %s FROM int.b) y ON %s' % (e(), e(), e(), e())
    else:
        s += ' FROM (SELECT %s FROM int.a) x' % e()
    if rng.random() < 0.6:
        s += ' WHERE %s' % e()
    if rng.random() < 0.25:
        s += ' GROUP BY %s' % e()
        if rng.random() < 0.5:
            s += ' HAVING %s' % e()
    if rng.random() < 0.25:
        s += ' ORDER BY %s' % e()
    return s


def gen_statement(rng, d):
    depth = rng.randint(0, 2)
    e = lambda: gen_expr(rng, depth, d, 0.6)
    r = rng.random()
    if r < 0.5:
        return gen_select(rng, depth, d)
    if r < 0.6:
        return 'INSERT INTO int.t1 (a, b) VALUES %s' % ', '.join('(%s, %s)' % (e(), e()) for _ in range(rng.randint(1, 2)))
    if r < 0.65:
        return 'INSERT INTO int.t1 (a, b) %s' % gen_select(rng, depth, d)
    if r < 0.8:
        return 'UPDATE int.t1 SET %s%s' % (', '.join('c%d = %s' % (i, e()) for i in range(rng.randint(1, 3))),
                                           ' WHERE %s' % e() if rng.random() < 0.7 else '')
    if r < 0.87:
        return 'DELETE FROM int.t1 WHERE %s' % e()
    if r < 0.94:
        return '%s UNION %s' % (gen_select(rng, depth, d), gen_select(rng, depth, d))
    return 'WITH w AS (%s) %s' % (gen_select(rng, depth, d), gen_select(rng, depth, d))


def gen_cell(rng, p=0.5):
    r = rng.random()
    if r < p:
        return '?'
    return rng.choice(['1', '2', "'s'", 'NULL', '0', 'c1', '1 + 2', 'f(c0)'])


def gen_insert_rows(rng, d):
    """multi-row INSERT … VALUES with a placeholder in any subset of the cells (rows of literals only, rows of
    placeholders only, mixed rows, in any order)"""
    rows, cols = rng.randint(1, 5), rng.randint(1, 4)
    p = rng.choice([0.2, 0.5, 0.8])
    body = []
    for r in range(rows):
        kind = rng.random()
        if kind < 0.25:
            cells = [rng.choice(['1', "'s'", 'NULL', '0', '2']) for _ in range(cols)]      # a row of literals
        elif kind < 0.4:
            cells = ['?'] * cols
        else:
            cells = [gen_cell(rng, p) for _ in range(cols)]
        body.append('(%s)' % ', '.join(cells))
    return 'INSERT INTO int.t1 (%s) VALUES %s' % (', '.join('c%d' % i for i in range(cols)), ', '.join(body))


def gen_many(rng, d):
    """statements with many placeholders (up to ~25) in the shapes where the walker's order differs from the written
    order: FROM sub-selects, joins, joined sub-selects, WITH bodies, UPDATE … SET … WHERE — and flat ones"""
    def items(n, p=0.85):
        return [('?' if rng.random() < p else 'c%d' % rng.randrange(3)) for _ in range(n)]

    def conj(n):
        return ' AND '.join('c%d = %s' % (i % 3, x) for i, x in enumerate(items(max(1, n))))
    a, b, c = rng.randint(1, 13), rng.randint(1, 9), rng.randint(0, 5)
    shape = rng.randrange(8)
    if shape == 0:
        return 'SELECT %s FROM (SELECT x FROM int.t WHERE %s) AS s%s' % (', '.join(items(a)), conj(b), ' WHERE ' + conj(c) if c else '')
    if shape == 1:
        return 'UPDATE int.t SET %s WHERE %s' % (', '.join('k%d = %s' % (i, x) for i, x in enumerate(items(a))), conj(b))
    if shape == 2:
        return 'SELECT * FROM (SELECT %s FROM int.a) x JOIN (SELECT %s FROM int.b) y ON %s' % (', '.join(items(a)), ', '.join(items(b)), conj(max(1, c)))
    if shape == 3:
        return 'WITH w AS (SELECT %s FROM int.t WHERE %s) SELECT %s FROM w' % (', '.join(items(b)), conj(max(1, c)), ', '.join(items(a)))
    if shape == 4:
        return 'SELECT %s FROM int.t1 JOIN int.t2 ON %s WHERE %s' % (', '.join(items(a)), conj(b), conj(max(1, c)))
    if shape == 5:
        return 'SELECT %s FROM int.t WHERE c0 IN (%s) AND %s' % (', '.join(items(max(1, c))), ', '.join(items(a)), conj(b))
    if shape == 6:
        return 'SELECT %s FROM int.a UNION SELECT %s FROM (SELECT %s FROM int.b) z' % (', '.join(items(a)), ', '.join(items(max(1, c))), ', '.join(items(b)))
    return 'INSERT INTO int.t1 (a, b) SELECT %s FROM (SELECT %s FROM int.a WHERE %s) q' % (', '.join(items(2, 1.0)), ', '.join(items(a)), conj(b))


FIXED = [
    'UPDATE int.t SET a = ?, b = ? WHERE c = ?',
    'SELECT * FROM (SELECT ? FROM int.a) x JOIN (SELECT ? FROM int.b) y ON x.i = ?',
    'SELECT CASE ? WHEN ? THEN ? ELSE ? END FROM int.t',
    'SELECT extract(? FROM ?) FROM int.t',
    'SELECT ?, a FROM int.t WHERE b = ? AND c IN (?, ?) ORDER BY ?',
    'INSERT INTO int.t (a, b) VALUES (?, ?), (?, ?)',
    'DELETE FROM int.t WHERE a = ? AND b BETWEEN ? AND ?',
    'WITH w AS (SELECT ? FROM int.t) SELECT ? FROM w WHERE a = ?',
    'SELECT ? FROM int.t1 JOIN int.t2 ON t1.a = ? WHERE b = ?',
    'SELECT ? UNION SELECT ?',
    'SELECT a FROM int.t WHERE b = 1',
    'SELECT ? AS x, (?) FROM int.t',
    'SELECT a FROM int.t WHERE EXISTS (SELECT b FROM int.u WHERE c = ?) AND d = ?',
    'SELECT ? FROM int.t WHERE NOT EXISTS (SELECT ? FROM int.u WHERE c = ?)',
    'SELECT a FROM int.t WHERE b IN (SELECT ? FROM int.u WHERE c = ?) AND d = ?',
] + ['INSERT INTO int.t (a, b) VALUES (%s, %s), (%s, %s)' % tuple('?' if (m >> i) & 1 else str(i + 1) for i in range(4))
     for m in range(16)]


def inline(text, vals):
    it = iter(vals)
    return re.sub(r'\?', lambda m: str(next(it)), text)


# ------------------------------------------------------------------ the property's oracle on the real code

def new_planner():
    from mindsdb_sql.planner import query_planner
    return query_planner.QueryPlanner(integrations=['int'])


def outcome(f):
    from mindsdb_sql.exceptions import PlanningException
    try:
        return 'ok', f()
    except PlanningException:
        return 'PlanningException', None
    except Exception as e:
        return type(e).__name__, None


def plan_steps(gen):
    out = []
    for st in gen:
        st.set_result(None)
        out.append(st)
    return out


def fold_minus(tree):
    """the parsers fold `- <number>` into one negative constant; a filled `- ?` is UnaryOperation('-', Constant):
    same value, so both sides are compared with the minus folded"""
    from mindsdb_sql.parser.ast import Constant, UnaryOperation
    from mindsdb_sql.planner import utils
    t = copy.deepcopy(tree)
    changed = [True]

    def cb(node, **kw):
        if isinstance(node, UnaryOperation) and node.op == '-' and isinstance(node.args[0], Constant) \
                and isinstance(node.args[0].value, (int, float)) and not isinstance(node.args[0].value, bool) \
                and not node.args[0].parentheses and node.args[0].alias is None:
            changed[0] = True
            return Constant(-node.args[0].value, alias=node.alias, parentheses=node.parentheses)
    for _ in range(8):
        if not changed[0]:
            break
        changed[0] = False
        utils.query_traversal(t, cb)
    return t


EDGE = [0, 0.0, '', False, None, -3, -2.5, "it's", 'a"b', "'", 'x y', True, 1, 2.5]


def lit(v, like=None):
    """the node of the literal `v` written inline (None is NULL), with alias / parentheses of `like`"""
    from mindsdb_sql.parser.ast import Constant, NullConstant
    kw = dict(alias=like.alias, parentheses=like.parentheses) if like is not None else {}
    return NullConstant(**kw) if v is None else Constant(v, **kw)


def replace_nodes(tree, f):
    """generic (walker-independent) replacement: f(node) -> new node or None, over every reachable node"""
    t = copy.deepcopy(tree)
    num = walkspec.Numbering(t)
    for k in range(len(num.nodes) - 1, 0, -1):
        new = f(num.nodes[k])
        if new is not None:
            pk, attr, path = num.parent[k]
            walkspec.set_child(num.nodes[pk], attr, path, new)
    return t


def written_inline(tree, sent, vals):
    """the statement parsed with unique numbers at the placeholder positions -> the same tree with the i-th value
    written at the i-th textual position (value and type exactly as given).  Raises when a position cannot be
    expressed (`- ?` with a non-number: the parser folded the minus into the number)."""
    from mindsdb_sql.parser.ast import Constant
    pos = {s: i for i, s in enumerate(sent)}
    hit = set()

    def f(n):
        if type(n) is Constant and not isinstance(n.value, bool) and isinstance(n.value, int):
            if n.value in pos:
                hit.add(pos[n.value])
                return lit(vals[pos[n.value]], n)
            if -n.value in pos:
                v = vals[pos[-n.value]]
                if isinstance(v, bool) or not isinstance(v, (int, float)):
                    raise ValueError('folded minus')
                hit.add(pos[-n.value])
                return lit(-v, n)
    t = replace_nodes(tree, f)
    if len(hit) != len(sent):
        raise ValueError('positions lost')
    return t


def none_as_null(tree):
    from mindsdb_sql.parser.ast import Constant
    return replace_nodes(tree, lambda n: lit(None, n) if type(n) is Constant and n.value is None else None)


def consts(obj, seen=None, depth=0):
    """every constant below obj (AST nodes, plan steps, lists, dicts) as (class, repr(value), type of value)"""
    A = walkspec.astnode()[0]
    seen = set() if seen is None else seen
    out = []
    if id(obj) in seen or depth > 60:
        return out
    if isinstance(obj, (list, tuple)):
        for x in obj:
            out += consts(x, seen, depth + 1)
    elif isinstance(obj, dict):
        for x in obj.values():
            out += consts(x, seen, depth + 1)
    elif isinstance(obj, A) or type(obj).__module__.startswith('mindsdb_sql.planner'):
        seen.add(id(obj))
        if isinstance(obj, A) and type(obj).__name__ in ('Constant', 'NullConstant'):
            out.append((type(obj).__name__, repr(obj.value), type(obj.value).__name__))
        for x in vars(obj).values():
            out += consts(x, seen, depth + 1)
    return out


def same_tree(a, b):
    """equal as statements (ASTNode.__eq__, unary minus on numbers folded) and constant by constant in value and type"""
    fa, fb = fold_minus(a), fold_minus(b)
    return fa == fb and consts(fa) == consts(fb)


def probe(schema, dialect, text, rng, history=True, values=None):
    """returns list of failures dict(kind, detail, causes)"""
    from mindsdb_sql import parse_sql
    from mindsdb_sql.planner import utils
    tree = parse_sql(text, dialect)
    n_text = text.count('?')
    fails = []
    causes = None

    def get_causes():
        nonlocal causes
        if causes is None:
            fs, _ = walkrun.oracle(schema, tree, rng, 0)
            causes = sorted({'%s.%s/%s' % (f['cls'], f['slot'], f['dev']) for f in fs
                             if f['dev'] in ('unvisited', 'order') and f.get('has_param')})
        return causes
    found = utils.get_query_params(copy.deepcopy(tree))
    if len(found) != n_text:
        fails.append(dict(kind='count', detail='prepare reports %d parameters, the text has %d placeholders' % (len(found), n_text),
                          causes=get_causes()))
    # the values: falsy and edge values as well as ordinary ones; `sent` are unique numbers used to find the
    # textual positions in the statement with literals written in
    sent = [VAL0 + i for i in range(len(found))]
    vals = [rng.choice(EDGE) if rng.random() < 0.6 else VAL0 + i for i in range(len(found))]
    # a placeholder written right after a minus: the parsers fold `- <number>` (also `- - <number>`) into one constant,
    # so what "the literal written inline" is can only be said for numbers there
    marks = [m.start() for m in re.finditer(r'\?', text)]
    for i, pos in enumerate(marks[:len(vals)]):
        if re.search(r'-[\s(]*$', text[:pos]) and (isinstance(vals[i], bool) or not isinstance(vals[i], (int, float))):
            vals[i] = rng.choice([0, 0.0, -3, -2.5, 1, 2.5])
    if values == 'distinct':
        vals = list(sent)
    elif values is not None:
        vals = list(values)[:len(found)] + sent[len(values):]
    filled = utils.fill_query_params(copy.deepcopy(tree), list(vals))
    inl = None
    if len(found) == n_text:
        try:
            inl = written_inline(parse_sql(inline(text, sent), dialect), sent, vals)
        except Exception:
            inl = None      # the statement with literals written in is not a statement of the dialect: nothing to compare with
    if inl is not None:
        if not same_tree(filled, inl):
            from mindsdb_sql.parser.ast import Constant, Parameter
            vs = list(vals)

            def keep(node, **kw):
                if isinstance(node, Parameter):
                    return lit(vs.pop(0), node)      # Constant(value) / NULL for None, alias and parentheses kept
            t2 = copy.deepcopy(tree)
            utils.query_traversal(t2, keep)
            if same_tree(none_as_null(filled), inl):
                cs = ['fill/none-not-null']          # only: a bound None is Constant(None) (prints `None`), not NULL
            elif same_tree(t2, inl):
                cs = ['fill/not-Constant(value,alias,parentheses)']
            elif same_tree(none_as_null(t2), inl):
                cs = ['fill/not-Constant(value,alias,parentheses)', 'fill/none-not-null']
            else:
                cs = get_causes() + (['fill/none-not-null'] if consts(none_as_null(filled)) != consts(filled) else [])
            fails.append(dict(kind='binding', values=list(vals),
                              detail='values %r | filled: %s | inlined: %s' % (vals, filled.to_string()[:300].replace('\n', ' '),
                                                                              inl.to_string()[:300].replace('\n', ' ')),
                              causes=cs))
        # through the planner: prepare / execute vs planning the inlined statement
        pl = new_planner()
        pl.prepare_steps(copy.deepcopy(tree))
        info = outcome(lambda: len(pl.get_statement_info()['parameters']))
        if info != ('ok', n_text):
            fails.append(dict(kind='count', detail='get_statement_info reports %s' % (info,), causes=get_causes()))
        a = outcome(lambda: plan_steps(pl.execute_steps(list(vals))))
        b = outcome(lambda: list(new_planner().from_query(inl).steps))
        same = a[0] == b[0] and (a[0] != 'ok' or (a[1] == b[1] and consts(a[1]) == consts(b[1])))
        if not same and not any(f['kind'] == 'binding' for f in fails) and not re.search(r'-\s*\(?\s*\?', text):
            fails.append(dict(kind='plan', detail='execute_steps: %s %s | inlined: %s %s' % (a[0], str(a[1])[:200], b[0], str(b[1])[:200]),
                              causes=get_causes()))
    # count check
    for k in sorted({max(0, len(found) - 1), len(found) + 1} - {len(found)}):
        pl = new_planner()
        pl.prepare_steps(copy.deepcopy(tree))
        r = outcome(lambda: pl.execute_steps([VAL0 + i for i in range(k)]))
        if r[0] != 'PlanningException':
            fails.append(dict(kind='mismatch', detail='%d values for %d parameters: %s' % (k, len(found), r[0]), causes=[]))
    if history and len(found) > 0:
        # an error in the middle of the history: a rejected execute (wrong count) must leave the statement prepared
        pl = new_planner()
        pl.prepare_steps(copy.deepcopy(tree))
        w = outcome(lambda: pl.execute_steps([VAL0 + i for i in range(len(found) + 1)]))
        i2 = outcome(lambda: len(pl.get_statement_info()['parameters']))
        r_ok = outcome(lambda: plan_steps(pl.execute_steps(list(vals))))
        fresh = new_planner()
        fresh.prepare_steps(copy.deepcopy(tree))
        r_ref = outcome(lambda: plan_steps(fresh.execute_steps(list(vals))))
        if w[0] == 'PlanningException' and (i2 != ('ok', len(found)) or r_ok[0] != r_ref[0]
                                            or (r_ok[0] == 'ok' and not (r_ok[1] == r_ref[1]))):
            fails.append(dict(kind='after-rejected-execute', causes=[],
                              detail='after an execute with a wrong number of values was rejected: info %s, execute with the '
                                     'right values %s (fresh statement: %s)' % (i2, r_ok[0], r_ref[0])))
    if history:
        pl = new_planner()
        pl.prepare_steps(copy.deepcopy(tree))
        r1 = outcome(lambda: pl.execute_steps(list(vals)))
        r2 = outcome(lambda: pl.execute_steps(list(vals)))
        if r1[0] == 'ok' and r2[0] != 'PlanningException':
            fails.append(dict(kind='second-execute', detail='second execute_steps raises %s' % r2[0], causes=[]))
        r3 = outcome(lambda: pl.get_statement_info())
        if r1[0] == 'ok' and r3[0] not in ('ok', 'PlanningException'):
            fails.append(dict(kind='info-after-execute', detail='get_statement_info after execute raises %s' % r3[0], causes=[]))
    return fails


# ------------------------------------------------------------------ real side of the call-sequence correspondence

def real_seq(schema, tree, ops):
    from mindsdb_sql.planner import query_prepare
    out = []
    pl = new_planner()
    captured = []
    orig = query_prepare.PreparedStatementPlanner.plan_query
    query_prepare.PreparedStatementPlanner.plan_query = lambda self, q: captured.append(q) or []
    num = None
    try:
        for op in ops:
            if op == 'p':
                t = copy.deepcopy(tree)
                num = walkspec.Numbering(t)
                pl.prepare_steps(t)
                out.append('p:ok')
            elif op == 'i':
                r = outcome(lambda: len(pl.get_statement_info()['parameters']))
                out.append('i:%s' % (r[1] if r[0] == 'ok' else {'PlanningException': 'planning', 'TypeError': 'type'}.get(r[0], r[0])))
            else:
                params = None if op == 'en' else [VAL0 + i for i in range(int(op[1:]))]
                del captured[:]
                r = outcome(lambda: pl.execute_steps(params))
                if r[0] == 'ok' and not captured:
                    out.append('e:nothing')
                elif r[0] == 'ok':
                    out.append('e:planned:' + walkrun.rose_after(captured[0], schema, walkrun.tagger(num)))
                else:
                    out.append('e:%s' % {'PlanningException': 'planning', 'TypeError': 'type'}.get(r[0], r[0]))
    finally:
        query_prepare.PreparedStatementPlanner.plan_query = orig
    return out


def kf_match(k, f):
    s = k.get('signature', {})
    if s.get('kind') != f.get('kind') and not (s.get('kind') == 'cause' and f.get('kind') in ('count', 'binding', 'plan')):
        return False
    if s.get('kind') == 'cause':
        return s.get('cause') == f.get('kf_cause')
    return True


# ------------------------------------------------------------------ process history

def probe_summary(schema, d, text):
    """what the oracle says about one statement, deterministically (distinct values)"""
    try:
        with walkrun.harness_recursion():
            fs = probe(schema, d, text, common.rng_for(0, 'history'), values='distinct')
        return sorted('%s: %s' % (f['kind'], f['detail'][:200]) for f in fs)
    except Exception as e:
        return ['crash: %s: %s' % (type(e).__name__, str(e)[:200])]


def run_history_spec(schema, spec):
    """for a FRESH process: the oracle on the victim statement, then the history, then the oracle again"""
    v = spec['victim']
    before = probe_summary(schema, v['dialect'], v['text'])
    cache, outcomes = {}, {}
    for ev in spec['history']:
        try:
            o = walkhist.run_event(schema, ev, cache)
        except Exception as e:
            o = 'error:' + type(e).__name__
        outcomes[o] = outcomes.get(o, 0) + 1
    return before, probe_summary(schema, v['dialect'], v['text']), outcomes


def history_in_fresh_process(spec, timeout=900):
    code = ('import sys, json; sys.path.insert(0, %r); from tools.props import c12; from tools.harness import walkrun; '
            'b, a, o = c12.run_history_spec(walkrun.load_schema(), json.load(sys.stdin)); '
            'print(json.dumps(dict(same=(a == b), before=b, after=a, outcomes=o)))' % common.ROOT)
    p = subprocess.run([sys.executable, '-W', 'ignore', '-c', code], input=json.dumps(dict(victim=spec['victim'], history=spec['history'])),
                       capture_output=True, text=True, timeout=timeout, cwd=common.ROOT)
    if p.returncode != 0:
        raise RuntimeError('replay process failed: %s' % p.stderr[-800:])
    return json.loads(p.stdout.strip().split('\n')[-1])


def history_stream(chk, schema, pool, dist, quick, broken):
    """process history: walks aborted by an exception of the visitor (any depth, nested), statements planned / rejected by the
    planner, prepared statements executed with the right and with a wrong number of values — and afterwards the whole oracle on
    prepared statements again: it must say what it said before the history"""
    from mindsdb_sql import parse_sql
    rng = common.rng_for(chk.seed, 'C12/history')
    hp = []
    for d, text in pool:
        try:
            with walkrun.harness_recursion():
                num = walkspec.Numbering(parse_sql(text, d))
        except Exception:
            continue
        dep = {0: 1}
        for k in range(1, len(num.nodes)):
            dep[k] = dep[num.parent[k][0]] + 1
        if len(num.nodes) > 1:
            hp.append((d, text, [dep[k] for k in range(len(num.nodes))]))
    if not hp:
        chk.oblige('probe:history-stream', 'probe', False, 'no statements for the history stream')
        return
    victims = [(d, text) for d in DIALECTS for text in rng.sample(FIXED[:15], 4 if quick else 15)]
    victims += [(d, text) for d, text, _ in rng.sample(hp, min(len(hp), 6 if quick else 40)) if text.count('?')]
    before = [probe_summary(schema, d, text) for d, text in victims]
    n_events = (400 if quick else 5000) * (3 if quick and broken else 1)
    events = walkhist.make_history(rng, hp, [], n_events, prepared=0.15)
    cache, outcomes = {}, {}
    for ev in events:
        try:
            o = walkhist.run_event(schema, ev, cache)
        except Exception as e:
            o = 'error:%s' % type(e).__name__
        outcomes['%s/%s' % (ev[0], o)] = outcomes.get('%s/%s' % (ev[0], o), 0) + 1
    bad = 0
    for (d, text), b in zip(victims, before):
        a = probe_summary(schema, d, text)
        chk.count(('history', d, text))
        if a != b:
            bad += 1
            if bad > 1:
                continue
            det = 'before the history the oracle said %s, after it %s' % (b or 'nothing', a or 'nothing')
            f = dict(kind='history', detail=det, causes=[], dialect=d, text=text, victim=dict(dialect=d, text=text), history=events,
                     desc='prepared statement: what holds for a statement depends on earlier calls in the same process (%d walks '
                          'aborted by an exception of the visitor / nested walks / planned, rejected, prepared and executed '
                          'statements) — %s' % (len(events), det[:600]), **{'class': 'history:'})
            # make the record self-contained: the same in a fresh interpreter (lengthened if the check process carried state)
            for hist in (events, events * 2, events * 4, events * 8):
                f['history'] = hist
                try:
                    r = history_in_fresh_process(f)
                except Exception as e:
                    f['confirmed'] = 'fresh process failed: %s' % e
                    break
                if not r['same']:
                    f['confirmed'] = 'fresh process, history of %d calls: before %s, after %s' % (len(hist), r['before'], r['after'])
                    break
            else:
                f['history'] = events
                f['confirmed'] = 'NOT reproduced in a fresh process'
            f['desc'] += ' [%s]' % f['confirmed'][:400]
            chk.classify(f, kf_match)
            chk.failures.insert(0, f)
    for k, v in outcomes.items():
        dist['history/' + k] = v
    dist['history/victims'] = len(victims)
    ok = outcomes.get('abort/aborted', 0) >= n_events // 6 and any(k.startswith('prepare/') and not k.endswith('/executed') for k in outcomes)
    chk.oblige('probe:history-stream', 'probe', ok or bad > 0, json.dumps(outcomes))


def run(chk):
    import time
    from mindsdb_sql import parse_sql
    quick = chk.tier == 'quick'
    broken = bool(chk.broken())
    n_gen = 350 if quick else 8000
    if quick and broken:
        n_gen = 1500
    schema = walkrun.load_schema()
    # assumptions of the model that are probed from the code on every run (tools/extract/x_schema.py)
    non = {cn: c['nonuniform'] for cn, c in schema['classes'].items() if c['nonuniform']}
    chk.oblige('probe:uniform', 'translator', not non, json.dumps(non)[:800])
    mk = schema.get('markers', {})
    chk.oblige('probe:marker-search', 'translator', bool(mk.get('markers')) and not mk.get('failures'),
               json.dumps(mk.get('failures'))[:800])
    known_causes = {k['signature']['cause'] for k in chk.kf if k.get('status') == 'open' and k['signature'].get('kind') == 'cause'}
    lines, metas = [], []
    dist = {}
    seen = set()
    pool = []           # statements for the history stream
    for d in DIALECTS:
        rng = common.rng_for(chk.seed, 'C12/' + d)
        texts = list(FIXED) + [gen_statement(rng, d) for _ in range(n_gen)] \
            + [gen_many(rng, d) for _ in range(n_gen // 6)] + [gen_insert_rows(rng, d) for _ in range(n_gen // 8)]
        # depth: placeholders in statements nested 120 … 260 levels (the walker is tied at 300 … 440 by C13's depth stream; here
        # the whole oracle — count, binding, plan — has to hold on nested statements too)
        drng = common.rng_for(chk.seed, 'C12/deep/' + d)
        deep_texts = {c['text']: dep for c, _, dep in walkhist.deep_trees(drng, d, 3 if quick else 30, lo=120, hi=260,
                                                                          need=lambda x: 1 <= x.count('?') <= 60)}
        texts += list(deep_texts)
        for text in texts:
            try:
                tree = parse_sql(text, d)
            except Exception:
                dist['%s/rejected' % d] = dist.get('%s/rejected' % d, 0) + 1
                continue
            t_text = time.time()
            if text in deep_texts:
                dist['deep/depth>=%d' % (deep_texts[text] // 50 * 50)] = dist.get('deep/depth>=%d' % (deep_texts[text] // 50 * 50), 0) + 1
            elif len(pool) < 300 and rng.random() < 0.25:
                pool.append((d, text))
            n_text = text.count('?')
            chk.count((d, text))
            key = '%s/%s/params=%s' % (d, type(tree).__name__, min(n_text, 6))
            dist[key] = dist.get(key, 0) + 1
            try:
                with walkrun.harness_recursion():
                    fails = probe(schema, d, text, rng)
            except Exception as e:
                fails = [dict(kind='crash', detail='%s: %s' % (type(e).__name__, e), causes=[])]
            # ---- correspondence lines (model vs real walker functions and call sequences)
            corr_ok = True
            try:
                c = walkrun.Case(tree, schema)
            except Exception:
                c = None
            if text in deep_texts:
                # the call-sequence side copies and plans the tree: the harness needs room (C13 walks deeper trees under the
                # ordinary limit)
                sys.setrecursionlimit(walkrun.HARNESS_LIMIT)
            if c is not None and c.usable:
                nfound = sum(1 for _ in [1])  # placeholder
                r, num = c.fresh()
                real_find = walkrun.real_walk(schema, r, num, 'find')
                nfound = int(re.search(r'n=(\d+)', real_find['extra']).group(1))
                todo = [('find', None, real_find)]
                for k in sorted({nfound, max(0, nfound - 1)}):
                    r, num = c.fresh()
                    todo.append(('fill', k, walkrun.real_walk(schema, r, num, 'fill', k)))
                for m, a, real in todo:
                    lines.append('%s%s | %s' % (m, '' if a is None else ' %d' % a, c.text))
                    metas.append((d, text, m, a, real))
                ops = ['p'] + [rng.choice(['i', 'p', 'en', 'e%d' % nfound, 'e%d' % nfound, 'e%d' % (nfound + 1), 'e%d' % max(0, nfound - 1)])
                               for _ in range(rng.randint(2, 5))]
                if rng.random() < 0.15:
                    ops = ops[1:]
                try:
                    rs = real_seq(schema, tree, ops)
                except Exception as e:
                    rs = ['error:%s' % type(e).__name__]
                lines.append('seq %s | %s' % (','.join(ops), c.text))
                metas.append((d, text, 'seq', ops, dict(visits=rs, tree='-', r='-', extra='')))
            else:
                dist['corr/skipped'] = dist.get('corr/skipped', 0) + 1
            sys.setrecursionlimit(walkrun.BASE_LIMIT)
            if text in deep_texts:
                dist['time/deep-statements'] = round(dist.get('time/deep-statements', 0) + time.time() - t_text, 2)
            for f in fails:
                cs = f.get('causes') or []
                dist['fail/%s/%s' % (f['kind'], '+'.join(cs) or '-')] = dist.get('fail/%s/%s' % (f['kind'], '+'.join(cs) or '-'), 0) + 1
                cls = '%s:%s' % (f['kind'], '+'.join(cs))
                if cls in seen:
                    continue
                seen.add(cls)
                f = dict(desc='prepared statement %s: %s' % (f['kind'], f['detail']), dialect=d, text=text, **f, **{'class': cls})
                if f['kind'] in ('count', 'binding', 'plan'):
                    if cs and all(x in known_causes for x in cs):
                        f['kf_cause'] = cs[0]
                chk.classify(f, kf_match)
                chk.fail(f)
    # ---- history stream
    t_h = time.time()
    dist['time/main-stream'] = round(t_h - chk.t0, 1)
    try:
        history_stream(chk, schema, pool, dist, quick, broken)
    except Exception as e:
        chk.oblige('probe:history-stream', 'probe', False, 'history stream failed: %s: %s' % (type(e).__name__, e))
    dist['time/history-stream'] = round(time.time() - t_h, 1)
    # ---- model side
    try:
        t_l = time.time()
        outs = common.lean_run('Walk', lines)
        dist['time/lean-driver'] = round(time.time() - t_l, 1)
        diverged, first = 0, None
        bad_texts = set()
        for (d, text, m, a, real), o in zip(metas, outs):
            mod = walkrun.parse_model(o)
            if m == 'seq':
                mod = dict(visits=mod.get('visits'), tree='-', r='-', extra='')
                # the model prints trees with spaces: re-join
                mod['visits'] = re.findall(r'(?:p:ok|i:\S+|e:planning|e:type|e:nothing|e:planned:\(.*?\)(?= (?:p:|i:|e:)|$))', o.split(' ; ')[0])
            if mod != real:
                diverged += 1
                bad_texts.add((d, text))
                if first is None:
                    diff = {k: dict(impl=str(real.get(k))[:300], model=str(mod.get(k))[:300])
                            for k in ('visits', 'tree', 'r', 'extra', 'error') if real.get(k) != mod.get(k)}
                    first = dict(dialect=d, text=text[:400], mode=m, arg=a, diff=diff)
        chk.corr_result('params', len(lines), diverged, first, dist)
        # a failure explained by walk-order causes is only "known" if the model reproduces the real behaviour on that statement
        for f in chk.failures:
            if f.get('kf') and (f['dialect'], f['text']) in bad_texts:
                f['kf'] = None
    except Exception as e:
        chk.oblige('corr:params', 'correspondence', False, 'driver failed: %s' % e)
    # ---- known findings still reproduce?
    rng = common.rng_for(chk.seed, 'C12/kf')
    for k in chk.kf:
        if k.get('status') != 'open':
            continue
        w = k['witness']
        try:
            fs = probe(schema, w['dialect'], w['sql'], rng, values=w.get('values', 'distinct'))
            for f in fs:
                cs = f.get('causes') or []
                if cs:
                    f['kf_cause'] = k['signature'].get('cause') if k['signature'].get('cause') in cs else None
            k['_reproduced'] = any(kf_match(k, f) for f in fs)
        except Exception:
            k['_reproduced'] = False
    for (d, text, m, a, real) in metas[:3]:
        chk.samples.append(dict(dialect=d, text=text[:160], mode=m, arg=a, impl=' '.join(real.get('visits', []))[:200], extra=real.get('extra')))
    chk.samples.append(dict(theorem='C12_fill σ P C q vs : |vs| = |getParams σ P q| → no IndexError, no value left, the (placeholder, value) pairs made '
                                    'by the walk are a permutation of (i-th placeholder in textual order, vs[i]); nothing else is replaced'))
    chk.samples.append(dict(theorem='C12_textual: the reported placeholders are ordered by rendered position (no okTree hypothesis); C12_visits: on okTree every required node is visited; '
                                    'C12_samples: the hypotheses hold on parser trees of real statements emitted by the extractor'))
    return chk.finish(assumptions=ASSUME)


def replay(path):
    data = json.load(open(path))
    f = data.get('failure')
    if not f:
        print(json.dumps(data, indent=1)[:3000])
        return 1
    schema = walkrun.load_schema()
    if f.get('kind') == 'history':
        r = history_in_fresh_process(f)
        print('REPRODUCED' if not r['same'] else 'not reproduced', f['dialect'], repr(f['text'][:300]), 'history of %d calls %s;'
              % (len(f['history']), json.dumps(r['outcomes'])), 'before:', r['before'], 'after:', r['after'])
        return 0 if r['same'] else 1
    with walkrun.harness_recursion():
        fs = probe(schema, f['dialect'], f['text'], common.rng_for(0, 'replay'), values=f.get('values'))
    hit = [x for x in fs if x['kind'] == f['kind']]
    print('REPRODUCED' if hit else 'not reproduced', f['dialect'], repr(f['text'][:300]), f['kind'], hit[0]['detail'][:400] if hit else '')
    return 1 if hit else 0
