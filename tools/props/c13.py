"""C13 — the AST walker visits every table, expression and subquery once, in textual order."""
import json, os, sys
from tools.harness import common, streams, walkspec, walkrun
from tools.harness.common import DIALECTS

ID = 'C13'
TARGETS = ['MindsVerif.Props.C13']
THEOREMS = ['MindsVerif.Props.C13.' + n for n in (
    'C13_lifting', 'C13_once', 'C13_unchanged', 'C13_of_schemaOK', 'C13_partial', 'C13_trace', 'C13_no_none_call', 'phi13', 'phi13_rest',
    'phi13_uniform', 'phi13_clean', 'phi13_truthy', 'C13_replace', 'C13_falsy_answer', 'phi13_samples', 'C13_samples_textual', 'C13_regress_order', 'C13_regress_coverage',
    'C13_regress_window', 'C13_regress_cte', 'walk_congr', 'C13_review_once_reordered', 'C13_review_replace_reordered',
    'phi13_reordered')]
ASSUME = [
    'Tie B: Gen/Schema.lean is probed from behaviour (tools/extract/x_schema.py); the uniformity assumption (a class is '
    'walked / printed the same whatever its children are) is checked by phi13_uniform and by the correspondence stream '
    '(real query_traversal vs the Lean walker instantiated with the probed schema, logging and replacing visitors)',
    'specification data NOT derived from the code: which child slots hold table references / targets / expressions / nested '
    'queries and which hold names (aliases, object names, column-name lists, option dictionaries) or containers is the '
    'hand-written table tools/harness/walkspec.py (SPEC, CORE, default rule); the slot kinds of Gen/Schema.lean are copied from it',
    'textual order = order of first printed position in to_string(); answers of the visitor are node objects (list results '
    'spliced into Select.targets are outside the model); Python truthiness of an answer is modelled (`truthyIn`: an instance '
    'of a class with __len__/__bool__ is falsy when it has no children) and pinned: by introspection no AST class defines '
    '__len__/__bool__ (phi13_truthy, probe:no-falsy-node-class); which positions use `… or child` is probed with a falsy answer',
    'rose trees carry no aliasing: parser trees that share a sub-object (e.g. Star of `t.*` after copy) are skipped by the '
    'correspondence and by the oracle (counted in the distribution)',
]


def kf_match(k, f):
    s = k.get('signature', {})
    return s.get('cls') == f.get('cls') and s.get('slot') == f.get('slot') and s.get('dev') == f.get('dev')


def trees(chk, n_sent, tag='C13'):
    """parser-produced trees: corpus + grammar-derived sentences of every dialect"""
    from mindsdb_sql import parse_sql
    A = walkspec.astnode()[0]
    for d in DIALECTS:
        rng = common.rng_for(chk.seed, '%s/%s' % (tag, d))
        for case in streams.statement_stream(d, rng, 0, n_sent):
            try:
                t = parse_sql(case['text'], d)
            except Exception:
                continue
            if isinstance(t, A):
                yield d, case, t, rng
        # statement shapes of the prepared-statement stream (multi-row VALUES with mixed rows, many placeholders, …)
        from tools.props import c12
        extra = list(c12.FIXED) + [g(rng, d) for _ in range(max(20, n_sent // 10)) for g in (c12.gen_insert_rows, c12.gen_many)]
        for text in extra:
            try:
                t = parse_sql(text, d)
            except Exception:
                continue
            yield d, dict(src='c12shape', text=text), t, rng


def probe_text(schema, dialect, text, rng, n_rep=3):
    from mindsdb_sql import parse_sql
    t = parse_sql(text, dialect)
    return walkrun.oracle(schema, t, rng, n_rep)


def run(chk):
    quick = chk.tier == 'quick'
    broken = bool(chk.broken())
    n_sent = 500 if quick else 12000
    if quick and broken:
        n_sent = 2500
    schema = walkrun.load_schema()
    non = {cn: c['nonuniform'] for cn, c in schema['classes'].items() if c['nonuniform']}
    chk.oblige('probe:uniform', 'translator', not non, json.dumps(non)[:800])
    # pinned by introspection: no AST class defines __len__ / __bool__ (else `… or child` drops falsy answers)
    chk.oblige('probe:no-falsy-node-class', 'translator', not schema.get('falsy_capable'), json.dumps(schema.get('falsy_capable')))
    lines, metas = [], []
    dist = {}
    n_trees = 0
    seen_fail = set()
    for d, case, t, rng in trees(chk, n_sent):
        n_trees += 1
        src = case['src'].split(':')[0].split('+')[0]
        # ---- impl-level oracle
        try:
            fails, st = walkrun.oracle(schema, t, rng, 3 if quick else 4)
        except Exception as e:
            fails, st = [], dict(skipped='oracle raised %s' % type(e).__name__)
        if 'skipped' in st:
            dist['oracle/skipped/' + st['skipped']] = dist.get('oracle/skipped/' + st['skipped'], 0) + 1
        else:
            chk.count((d, case['text']))
            dist['%s/%s/trees' % (d, src)] = dist.get('%s/%s/trees' % (d, src), 0) + 1
            dist['nodes'] = dist.get('nodes', 0) + st['nodes']
            dist['visited'] = dist.get('visited', 0) + st['visited']
        for f in fails:
            key = (f['cls'], f['slot'], f['dev'])
            dist['dev/%s.%s/%s' % key] = dist.get('dev/%s.%s/%s' % key, 0) + 1
            if key in seen_fail:
                continue
            seen_fail.add(key)
            f = dict(desc='query_traversal: %s.%s %s — %s' % (f['cls'], f['slot'], f['dev'], f['detail']),
                     dialect=d, text=case['text'], **f, **{'class': '%s.%s/%s' % key})
            chk.classify(f, kf_match)
            chk.fail(f)
        # ---- correspondence lines
        try:
            c = walkrun.Case(t, schema)
        except Exception:
            dist['corr/skipped/unserialisable'] = dist.get('corr/skipped/unserialisable', 0) + 1
            continue
        if not c.usable:
            why = 'unknown-class-or-slot' if c.unknown else 'shared-subobject'
            dist['corr/skipped/' + why] = dist.get('corr/skipped/' + why, 0) + 1
            continue
        n = len(c.num.nodes)
        modes = [('log', None)]
        if n > 1:
            for x in sorted(set(rng.randrange(1, n) for _ in range(2 if quick else 4))):
                modes.append((rng.choice(['rep', 'rep', 'rept', 'repf']), x))
        for m, a in modes:
            r, num = c.fresh()
            try:
                real = walkrun.real_walk(schema, r, num, m, a)
            except Exception as e:
                real = dict(error='%s: %s' % (type(e).__name__, e))
            lines.append('%s%s | %s' % (m, '' if a is None else ' %d' % a, c.text))
            metas.append((d, case, m, a, real))
            dist['corr/' + m] = dist.get('corr/' + m, 0) + 1
    dist['trees'] = n_trees
    dist['classes_in_schema'] = len(schema['classes'])
    # ---- the model side
    try:
        outs = common.lean_run('Walk', lines)
        diverged, first = 0, None
        for (d, case, m, a, real), o in zip(metas, outs):
            mod = walkrun.parse_model(o)
            if mod != real:
                diverged += 1
                if first is None:
                    diff = {k: dict(impl=str(real.get(k))[:300], model=str(mod.get(k))[:300])
                            for k in ('visits', 'tree', 'r', 'extra', 'error') if real.get(k) != mod.get(k)}
                    first = dict(dialect=d, text=case['text'][:400], mode=m, arg=a, diff=diff)
        chk.corr_result('walk', len(lines), diverged, first, dist)
    except Exception as e:
        chk.oblige('corr:walk', 'correspondence', False, 'driver failed: %s' % e)
    # ---- known findings still reproduce?
    rng = common.rng_for(chk.seed, 'C13/kf')
    for k in chk.kf:
        if k.get('status') != 'open':
            continue
        w = k['witness']
        try:
            fails, _ = probe_text(schema, w['dialect'], w['sql'], rng, 50)
            k['_reproduced'] = any(kf_match(k, f) for f in fails)
        except Exception:
            k['_reproduced'] = False
    for (d, case, m, a, real) in metas[:2] + metas[-1:]:
        chk.samples.append(dict(dialect=d, text=case['text'][:160], mode=m, arg=a, visits=' '.join(real.get('visits', []))[:200]))
    chk.samples.append(dict(theorem='C13_lifting σ t : okTree σ t = true → C13_body σ t   (C13_body: a looking visitor is called '
                                    'exactly on `expected σ t` (textual preorder of the required nodes, flags = slot kinds), tree unchanged; '
                                    'a visitor answering r at x yields subst σ x r t)'))
    chk.samples.append(dict(theorem='phi13 : namedDevs = knownDevs; phi13_samples : every parser tree of the sample statements emitted by the extractor is okTree; '
                                    'C13_once : on an okTree the calls are a permutation of reqTags (every required node exactly once)'))
    return chk.finish(assumptions=ASSUME, extra=dict(
        schema_deviations=[d for c in schema['classes'].values() for d in c['deviations']],
        uncovered='classes never produced by the generators are not in the schema; a tree containing one is skipped by the '
                  'correspondence (distribution: corr/skipped/unknown-class-or-slot) but still judged by the oracle'))


def replay(path):
    data = json.load(open(path))
    f = data.get('failure')
    if not f:
        print(json.dumps(data, indent=1)[:3000])
        return 1
    schema = walkrun.load_schema()
    rng = common.rng_for(0, 'replay')
    fails, _ = probe_text(schema, f['dialect'], f['text'], rng, 50)
    hit = [x for x in fails if (x['cls'], x['slot'], x['dev']) == (f['cls'], f['slot'], f['dev'])]
    print('REPRODUCED' if hit else 'not reproduced', f['dialect'], repr(f['text'][:300]), f['cls'], f['slot'], f['dev'],
          hit[0]['detail'] if hit else '')
    return 1 if hit else 0
