"""C13 — the AST walker visits every table, expression and subquery once, in textual order."""
import json, os, sys
from tools.harness import common, streams, walkspec, walkrun, walkhist
from tools.harness.common import DIALECTS

ID = 'C13'
TARGETS = ['MindsVerif.Props.C13']
THEOREMS = ['MindsVerif.Props.C13.' + n for n in (
    'C13_lifting', 'C13_once', 'C13_unchanged', 'C13_of_schemaOK', 'C13_partial', 'C13_trace', 'C13_no_none_call', 'phi13', 'phi13_rest',
    'phi13_uniform', 'phi13_clean', 'phi13_truthy', 'C13_replace', 'C13_falsy_answer', 'phi13_samples', 'C13_samples_textual', 'C13_regress_order', 'C13_regress_coverage',
    'C13_regress_window', 'C13_regress_cte', 'walk_congr', 'C13_review_once_reordered', 'C13_review_replace_reordered',
    'phi13_reordered',
    'C13_deep_ops', 'C13_deep_calls', 'C13_deep_subqueries', 'C13_deep_joins', 'C13_deep_casts', 'C13_deep_case', 'C13_any_depth',
    'C13_cut_eq', 'C13_cut_nothing', 'C13_cut_witness', 'C13_history_free', 'C13_abort_prefix', 'C13_abort_expected',
    'C13_ctr_fresh', 'C13_history_witness')]
ASSUME = [
    'Tie B: Gen/Schema.lean is probed from behaviour (tools/extract/x_schema.py); the uniformity assumption (a class is '
    'walked / printed the same whatever its children are) is checked by phi13_uniform and by the correspondence stream '
    '(real query_traversal vs the Lean walker instantiated with the probed schema, logging and replacing visitors)',
    'specification data NOT derived from the code: which child slots hold table references / targets / expressions / nested '
    'queries and which hold names (aliases, object names, column-name lists, option dictionaries) or containers is the '
    'hand-written table tools/harness/walkspec.py (SPEC, CORE, default rule); the slot kinds of Gen/Schema.lean are copied from it',
    'textual order = order of first printed position in to_string(); answers of the visitor are node objects (list results '
    'spliced into Select.targets are outside the model); Python truthiness of an answer is modelled (`truthyIn`: an instance '
    'of a class with __len__/__bool__ is falsy when it has no children) and pinned: by introspection no AST class defines '
    '__len__/__bool__ (phi13_truthy, probe:no-falsy-node-class); which positions use `… or child` is probed with a falsy answer',
    'depth and process history: the model walker is a pure structural recursion — no depth parameter, no state between calls '
    '(C13_any_depth, C13_deep_*, C13_cut_eq, C13_history_free).  That the code shares this is tied by two streams '
    '(tools/harness/walkhist.py): parser trees nested 300 … 440 levels (the unchanged walker needs one interpreter frame per level; '
    'the library runs under the interpreter\'s ordinary recursion limit, only the harness\'s own recursion under a raised one) and a '
    'process history of walks aborted by an exception of the visitor at random depths / nested walks / planned and rejected '
    'statements, after which ordinary walks must give what they gave before (thorough tier: and in a fresh interpreter) and what the '
    'Lean walker gives; deeper trees and other kinds of hidden state than these streams exercise are not covered by a theorem about the code',
    'rose trees carry no aliasing: parser trees that share a sub-object (e.g. Star of `t.*` after copy) are skipped by the '
    'correspondence and by the oracle (counted in the distribution)',
]


def kf_match(k, f):
    s = k.get('signature', {})
    return s.get('cls') == f.get('cls') and s.get('slot') == f.get('slot') and s.get('dev') == f.get('dev')


def trees(chk, n_sent, tag='C13', n_deep=0):
    """parser-produced trees: corpus + grammar-derived sentences of every dialect"""
    from mindsdb_sql import parse_sql
    A = walkspec.astnode()[0]
    for d in DIALECTS:
        rng = common.rng_for(chk.seed, '%s/%s' % (tag, d))
        for case in streams.statement_stream(d, rng, 0, n_sent):
            try:
                t = parse_sql(case['text'], d)
            except Exception:
                continue
            if isinstance(t, A):
                yield d, case, t, rng
        # statement shapes of the prepared-statement stream (multi-row VALUES with mixed rows, many placeholders, …)
        from tools.props import c12
        extra = list(c12.FIXED) + [g(rng, d) for _ in range(max(20, n_sent // 10)) for g in (c12.gen_insert_rows, c12.gen_many)]
        for text in extra:
            try:
                t = parse_sql(text, d)
            except Exception:
                continue
            yield d, dict(src='c12shape', text=text), t, rng
        # every subset of the optional clauses of a SELECT (and of UPDATE / DELETE), each with an expression of its own: a
        # walker branch that is reached only in the presence of ANOTHER clause (HAVING only under GROUP BY, …) is not left
        # to the random streams
        import itertools as _it
        opt = [('WHERE', 'w1 > ?'), ('GROUP BY', 'g1, g2'), ('HAVING', 'count(h1) > (SELECT max(x) FROM int.t2)'),
               ('ORDER BY', 'o1 DESC'), ('LIMIT', '5'), ('OFFSET', '2')]
        for k in range(len(opt) + 1):
            for sub in _it.combinations(opt, k):
                for head in ('SELECT a, f(b) FROM int.t1', 'SELECT DISTINCT a FROM int.t1 AS x JOIN int.t3 AS y ON x.i = y.i',
                             'WITH w AS (SELECT 1 FROM int.t4) SELECT a FROM w'):
                    text = head + ''.join(' %s %s' % c for c in sub)
                    try:
                        t = parse_sql(text, d)
                    except Exception:
                        continue
                    yield d, dict(src='clauses', text=text), t, rng
        for text in ('UPDATE int.t SET a = ?', 'UPDATE int.t SET a = ? WHERE b = (SELECT 1 FROM int.u)', 'DELETE FROM int.t',
                     'DELETE FROM int.t WHERE b IN (SELECT c FROM int.u)', 'INSERT INTO int.t (a) SELECT b FROM int.u WHERE c = ?',
                     'SELECT a FROM int.t UNION SELECT b FROM int.u ORDER BY 1 LIMIT 3'):
            try:
                t = parse_sql(text, d)
            except Exception:
                continue
            yield d, dict(src='clauses', text=text), t, rng
        # depth stream: trees nested 300 … 440 levels (the theorems are about every tree; the unchanged walker needs one
        # interpreter frame per level)
        drng = common.rng_for(chk.seed, '%s/deep/%s' % (tag, d))
        for case, t, dep in walkhist.deep_trees(drng, d, n_deep):
            case['depth'] = dep
            yield d, case, t, drng


def probe_text(schema, dialect, text, rng, n_rep=3):
    from mindsdb_sql import parse_sql
    t = parse_sql(text, dialect)
    return walkrun.oracle(schema, t, rng, n_rep)


def history_stream(chk, schema, pool, deep_pool, deferred, lines, metas, dist, quick, broken):
    """walks aborted by an exception from the visitor (any depth, also nested walks and planner rejections) interleaved with
    ordinary walks in the same process: every ordinary walk must give what it gave before the history (and what the Lean
    walker gives: the repeated walks are appended to the correspondence lines)"""
    if not pool:
        chk.oblige('probe:history-stream', 'probe', False, 'no statements for the history stream')
        return
    rng = common.rng_for(chk.seed, 'C13/history')
    n_events = (400 if quick else 6000) * (3 if quick and broken else 1)
    deep_pool = [(d, text, [dp[k] for k in range(len(dp))]) for d, text, dp in deep_pool]
    victims = []
    hist_pool = list(pool)

    def pick_x(depths, visited_only=True):
        return rng.randrange(1, len(depths))
    for d, text, depths in rng.sample(pool, min(len(pool), 8 if quick else 40)):
        victims.append(walkhist.Victim(schema, d, text, 'log', None))
        victims.append(walkhist.Victim(schema, d, text, rng.choice(['rep', 'rept', 'repf']), pick_x(depths)))
    for d, text, depths in rng.sample(deep_pool, min(len(deep_pool), 2 if quick else 8)):
        victims.append(walkhist.Victim(schema, d, text, 'log', None))
    for _ in range(2 if quick else 10):
        (d, text, depths), (d2, text2, _) = rng.choice(pool), rng.choice(pool)
        victims.append(walkhist.Victim(schema, d, text, 'nested', pick_x(depths), inner=(d2, text2)))
    same = rng.sample(pool, min(len(pool), 3 if quick else 12))      # the tree objects the aborted walks were made on
    for d, text, depths in same:
        v = walkhist.Victim(schema, d, text, 'log', None)
        v.same_object = True
        victims.append(v)
    before = [v.run() for v in victims]
    events = walkhist.make_history(rng, hist_pool, deep_pool, n_events)
    # the aborted walks of the correspondence (`raise <x>` lines) are part of the history: as events they are plain `abort`s
    logged = {}
    for d, case, c, x in deferred:
        ev = ['abort', d, case['text'], x]
        logged[id(ev)] = (d, case, c, x)
        events.append(ev)
    rng.shuffle(events)
    for d, text, depths in same:
        events.insert(rng.randrange(len(events) // 2), ['abort', d, text, rng.randrange(len(depths))])
    cache = {}
    outcomes = {}
    reported = set()

    def check(i, which):
        for j in which:
            v = victims[j]
            reuse = cache.get((v.d, v.text)) if getattr(v, 'same_object', False) else None
            after = v.run(reuse=reuse)
            chk.count(('history', i, j))
            if after != before[j] and (v.mode, getattr(v, 'same_object', False)) not in reported:
                reported.add((v.mode, getattr(v, 'same_object', False)))
                spec = v.spec()
                spec['same_object'] = bool(getattr(v, 'same_object', False))
                det = walkhist.diff(before[j], after)
                f = dict(desc='query_traversal: the walk of a statement (%s) gives another result after %d earlier calls in the '
                              'same process (walks aborted by an exception of the visitor, nested walks, planned / rejected '
                              'statements) — %s' % (v.mode, i, det),
                         dialect=v.d, text=v.text, cls=type(v.case.root).__name__, slot='*', dev='history', detail=det,
                         victim=spec, history=events[:i], **{'class': 'history/%s%s' % (v.mode, '/same-object' if spec['same_object'] else '')})
                chk.classify(f, kf_match)
                chk.failures.insert(0, f)       # reported first: it says what the other deviations of this run may come from
            elif after == before[j] and v.mode in ('log', 'rep', 'rept', 'repf') and i == len(events) and 'error' not in after:
                # … and what the Lean walker gives
                lines.append('%s%s | %s' % (v.mode, '' if v.arg is None else ' %d' % v.arg, v.case.text))
                metas.append((v.d, dict(src='history', text=v.text), v.mode, v.arg, after))
        return bool(reported)
    step = max(20, len(events) // 12)
    for i, ev in enumerate(events):
        try:
            if id(ev) in logged:
                d, case, c, x = logged[id(ev)]
                r, num = c.fresh()
                real = walkrun.real_walk(schema, r, num, 'raise', x)
                lines.append('raise %d | %s' % (x, c.text))
                metas.append((d, case, 'raise', x, real))
                dist['corr/raise'] = dist.get('corr/raise', 0) + 1
                o = 'aborted' if real['r'] == '!' else 'no-raise'
            else:
                o = walkhist.run_event(schema, ev, cache)
        except Exception as e:
            o = 'error:%s' % type(e).__name__
        outcomes['%s/%s' % (ev[0], o)] = outcomes.get('%s/%s' % (ev[0], o), 0) + 1
        if (i + 1) % step == 0 and i + 1 < len(events):
            if check(i + 1, rng.sample(range(len(victims)), min(4, len(victims)))):
                break
    else:
        check(len(events), range(len(victims)))
    for f in chk.failures:
        if f.get('dev') == 'history' and 'confirmed' not in f:
            walkhist.confirm_history(f, events, len(f['history']))
            f['desc'] += ' [%s]' % f['confirmed']
    for k, v in outcomes.items():
        dist['history/' + k] = v
    dist['history/victims'] = len(victims)
    # nothing of the stream may be vacuous: walks were really aborted (at depth), statements really rejected
    ok = outcomes.get('abort/aborted', 0) >= len(events) // 4 and any(k.startswith('plan/') and not k.endswith('/planned') for k in outcomes)
    chk.oblige('probe:history-stream', 'probe', ok or bool(reported), json.dumps(outcomes))
    if not quick or broken:
        # the same walks in a fresh interpreter (no history at all)
        specs = [v.spec() for v in victims]
        fresh = walkhist.fresh_process(None, specs)
        bad = [j for j, (a, b) in enumerate(zip(before, fresh)) if a != b]
        chk.oblige('probe:fresh-process', 'probe', not bad,
                   '' if not bad else 'walk %s of %r differs from the same walk in a fresh process: %s'
                   % (victims[bad[0]].mode, victims[bad[0]].text[:200], walkhist.diff(fresh[bad[0]], before[bad[0]])))


def run(chk):
    quick = chk.tier == 'quick'
    broken = bool(chk.broken())
    n_sent = 500 if quick else 12000
    if quick and broken:
        n_sent = 2500
    schema = walkrun.load_schema()
    non = {cn: c['nonuniform'] for cn, c in schema['classes'].items() if c['nonuniform']}
    chk.oblige('probe:uniform', 'translator', not non, json.dumps(non)[:800])
    # pinned by introspection: no AST class defines __len__ / __bool__ (else `… or child` drops falsy answers)
    chk.oblige('probe:no-falsy-node-class', 'translator', not schema.get('falsy_capable'), json.dumps(schema.get('falsy_capable')))
    lines, metas = [], []
    dist = {}
    n_trees = 0
    seen_fail = set()
    n_deep = (5 if quick else 40) * (3 if quick and broken else 1)
    pool, deep_pool, deferred = [], [], []          # statements / aborted walks for the history stream
    for d, case, t, rng in trees(chk, n_sent, n_deep=n_deep):
        n_trees += 1
        src = case['src'].split(':')[0].split('+')[0]
        deep = 'depth' in case
        if deep:
            dist['deep/%s' % case['src'].split(':')[1].split('/')[0]] = dist.get('deep/%s' % case['src'].split(':')[1].split('/')[0], 0) + 1
            dist['deep/depth>=%d' % (case['depth'] // 50 * 50)] = dist.get('deep/depth>=%d' % (case['depth'] // 50 * 50), 0) + 1
        # ---- impl-level oracle
        try:
            fails, st = walkrun.oracle(schema, t, rng, (2 if deep else 3) if quick else 4)
            if st.get('retried'):
                dist['oracle/recursion-retry'] = dist.get('oracle/recursion-retry', 0) + 1
        except Exception as e:
            fails, st = [], dict(skipped='oracle raised %s' % type(e).__name__)
        if 'skipped' in st:
            dist['oracle/skipped/' + st['skipped']] = dist.get('oracle/skipped/' + st['skipped'], 0) + 1
        else:
            chk.count((d, case['text']))
            dist['%s/%s/trees' % (d, src)] = dist.get('%s/%s/trees' % (d, src), 0) + 1
            dist['nodes'] = dist.get('nodes', 0) + st['nodes']
            dist['visited'] = dist.get('visited', 0) + st['visited']
        for f in fails:
            key = (f['cls'], f['slot'], f['dev'])
            dist['dev/%s.%s/%s' % key] = dist.get('dev/%s.%s/%s' % key, 0) + 1
            if key in seen_fail:
                continue
            seen_fail.add(key)
            f = dict(desc='query_traversal: %s.%s %s — %s' % (f['cls'], f['slot'], f['dev'], f['detail']),
                     dialect=d, text=case['text'], **f, **{'class': '%s.%s/%s' % key})
            chk.classify(f, kf_match)
            chk.fail(f)
        # ---- correspondence lines
        try:
            c = walkrun.Case(t, schema)
        except Exception:
            dist['corr/skipped/unserialisable'] = dist.get('corr/skipped/unserialisable', 0) + 1
            continue
        if not c.usable:
            why = 'unknown-class-or-slot' if c.unknown else 'shared-subobject'
            dist['corr/skipped/' + why] = dist.get('corr/skipped/' + why, 0) + 1
            continue
        n = len(c.num.nodes)
        if deep:
            deep_pool.append((d, case['text'], c.depths()))
        elif len(pool) < 400 and n > 1 and rng.random() < 0.3:
            dp = c.depths()
            pool.append((d, case['text'], [dp[k] for k in range(n)]))
        modes = [('log', None)]
        if n > 1:
            for x in sorted(set(rng.randrange(1, n) for _ in range(1 if deep else 2 if quick else 4))):
                modes.append((rng.choice(['rep', 'rep', 'rept', 'repf']), x))
            if deep or rng.random() < (0.4 if quick else 0.1):
                # a visitor that raises in the middle of the walk (at any depth): the calls before it, the exception, the
                # tree.  An aborted walk is process history: it is made in the history stream, after the ordinary walks
                deferred.append((d, case, c, rng.randrange(0, n)))
        for m, a in modes:
            r, num = c.fresh()
            try:
                real = walkrun.real_walk(schema, r, num, m, a)
            except Exception as e:
                real = dict(error='%s: %s' % (type(e).__name__, e))
            lines.append('%s%s | %s' % (m, '' if a is None else ' %d' % a, c.text))
            metas.append((d, case, m, a, real))
            dist['corr/' + m] = dist.get('corr/' + m, 0) + 1
    dist['trees'] = n_trees
    dist['classes_in_schema'] = len(schema['classes'])
    # ---- history stream: aborted walks interleaved with ordinary ones in this process
    import time
    t_h = time.time()
    dist['time/main-stream'] = round(t_h - chk.t0, 1)
    try:
        history_stream(chk, schema, pool, deep_pool, deferred, lines, metas, dist, quick, broken)
    except Exception as e:
        chk.oblige('probe:history-stream', 'probe', False, 'history stream failed: %s: %s' % (type(e).__name__, e))
    dist['time/history-stream'] = round(time.time() - t_h, 1)
    # ---- the model side
    try:
        t_l = time.time()
        outs = common.lean_run('Walk', lines)
        dist['time/lean-driver'] = round(time.time() - t_l, 1)
        diverged, first = 0, None
        for (d, case, m, a, real), o in zip(metas, outs):
            mod = walkrun.parse_model(o)
            if mod != real:
                diverged += 1
                if first is None:
                    diff = {k: dict(impl=str(real.get(k))[:300], model=str(mod.get(k))[:300])
                            for k in ('visits', 'tree', 'r', 'extra', 'error') if real.get(k) != mod.get(k)}
                    first = dict(dialect=d, text=case['text'][:400], mode=m, arg=a, diff=diff)
        chk.corr_result('walk', len(lines), diverged, first, dist)
    except Exception as e:
        chk.oblige('corr:walk', 'correspondence', False, 'driver failed: %s' % e)
    # ---- known findings still reproduce?
    rng = common.rng_for(chk.seed, 'C13/kf')
    for k in chk.kf:
        if k.get('status') != 'open':
            continue
        w = k['witness']
        try:
            fails, _ = probe_text(schema, w['dialect'], w['sql'], rng, 50)
            k['_reproduced'] = any(kf_match(k, f) for f in fails)
        except Exception:
            k['_reproduced'] = False
    for (d, case, m, a, real) in metas[:2] + metas[-1:]:
        chk.samples.append(dict(dialect=d, text=case['text'][:160], mode=m, arg=a, visits=' '.join(real.get('visits', []))[:200]))
    chk.samples.append(dict(theorem='C13_lifting σ t : okTree σ t = true → C13_body σ t   (C13_body: a looking visitor is called '
                                    'exactly on `expected σ t` (textual preorder of the required nodes, flags = slot kinds), tree unchanged; '
                                    'a visitor answering r at x yields subst σ x r t)'))
    chk.samples.append(dict(theorem='phi13 : namedDevs = knownDevs; phi13_samples : every parser tree of the sample statements emitted by the extractor is okTree; '
                                    'C13_once : on an okTree the calls are a permutation of reqTags (every required node exactly once)'))
    return chk.finish(assumptions=ASSUME, extra=dict(
        schema_deviations=[d for c in schema['classes'].values() for d in c['deviations']],
        uncovered='classes never produced by the generators are not in the schema; a tree containing one is skipped by the '
                  'correspondence (distribution: corr/skipped/unknown-class-or-slot) but still judged by the oracle'))


def replay(path):
    data = json.load(open(path))
    f = data.get('failure')
    if not f:
        print(json.dumps(data, indent=1)[:3000])
        return 1
    schema = walkrun.load_schema()
    if f.get('dev') == 'history':
        # in a fresh interpreter: the walk, then the recorded history, then the same walk again
        r = walkhist.replay_in_fresh_process(os.path.abspath(path))
        print('REPRODUCED' if not r['same'] else 'not reproduced', f['dialect'], repr(f['text'][:300]), f['victim']['mode'],
              'history of %d calls %s;' % (len(f['history']), json.dumps(r['outcomes'])), r['diff'])
        return 0 if r['same'] else 1
    rng = common.rng_for(0, 'replay')
    fails, _ = probe_text(schema, f['dialect'], f['text'], rng, 50)
    hit = [x for x in fails if (x['cls'], x['slot'], x['dev']) == (f['cls'], f['slot'], f['dev'])]
    print('REPRODUCED' if hit else 'not reproduced', f['dialect'], repr(f['text'][:300]), f['cls'], f['slot'], f['dev'],
          hit[0]['detail'] if hit else '')
    return 1 if hit else 0
