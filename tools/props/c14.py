"""C14 — in a table-model join the model gets the right rows and arguments, only those."""
import collections, json, re
from tools.harness import common, mj

ID = 'C14'
TARGETS = ['MindsVerif.Props.C14', 'MindsVerif.Props.C14Join']
_T = ['C14_2', 'C14_2_rowdict_sound', 'C14_2_rowdict_complete', 'C14_2_iff', 'C14_2_not_in_fetch',
      'C14_2_table_conditions_never_arguments', 'C14_2_no_consumable_left', 'C14_2_conjunctwise', 'C14_2_rest_unchanged',
      'C14_2_outer', 'C14_2_outer_query',
      'C14_3', 'C14_3_exact', 'C14_3_pushed_stored', 'C14_3_nullable', 'C14_3_mentions_only', 'C14_3_on', 'C14_3_on_outer', 'C14_3_on_mentions_only',
      'C14_4_values_from_using', 'C14_4_last_wins', 'C14_4_unprefixed', 'C14_4_foreign_prefix', 'C14_4_own_prefix',
      'C14_4_partition_size_removed', 'C14_5_sound', 'C14_5_complete', 'C14_5_neutralised', 'C14_where_clauses',
      'C14_limit_plain_row', 'C14_limit_needs_use_limit', 'C14_cat_project_via_metadata', 'C14_cat_model_any_case',
      'C14_cat_model_default_project', 'C14_cat_case_invariant', 'C14_1', 'C14_1_nodup', 'C14_1_plan', 'C14_1_apply_input', 'C14_1_predictor_first',
      'C14_partial', 'C14_5_swap', 'C14_rewrite_keeps_table', 'C14_obs_non_equality_mapped',
      'C14_target_stays',
      # Props/C14Join.lean: join-type spellings (kernel-decided on Gen/JoinSpellings.lean + theorems for all strings)
      'C14_join_model_is_code', 'C14_join_class_respected', 'C14_obs_join_class_exact', 'C14_join_parser_keeps_class', 'C14_join_observed_covers',
      'C14_join_all_parsable', 'C14_witness_outer_join', 'C14_join_first_word', 'C14_join_on_by_class',
      'C14_join_on_only_restrictable', 'C14_join_nullable_right', 'C14_join_nullable_left', 'C14_join_on_live']
THEOREMS = ['MindsVerif.Props.C14.' + t for t in _T]
ASSUME = [
    'PlanJoinTablesQuery (resolve_table aliases, _check_identifiers, check_query_conditions / check_node_condition, '
    'check_use_limit, mark_nullable_tables, process_predictor, process_table incl. where_is_applied_before_join and the '
    'LIMIT / OFFSET / ORDER BY take-over, process_subselect, get_filters_from_join_conditions, '
    'join_condition_to_columns_map, add_plan_step / partitions, the final QueryStep) and the integration cut of '
    'prepare_integration_select are hand-modelled in MindsVerif.ModelJoin; tie = correspondence of whole plans on '
    'generated join queries (this run); every model function used by a theorem appears in the compared plan text',
    'fragment of the correspondence: left-deep joins of 2-5 operands (the grammar has no parenthesised joins), sub-select '
    'operands and nested selects in WHERE with arbitrary own plans (opaque: only their number of steps enters the model), '
    'select lists with aggregates as targets / nested in expressions, functions, CAST, CASE; DISTINCT, GROUP BY, HAVING, '
    'ORDER BY, LIMIT, OFFSET (the LIMIT pushdown decision is modelled: check_use_limit, where_is_applied_before_join, ORDER BY '
    'take-over, OFFSET move); no nested selects in the select list, no time-series models (C15), ASCII identifiers',
    'specification readings: the predicted column (to_predict) is an output, not an argument; semi-join filters '
    '`col IN :Result` derived from ON equalities are C08\'s subject and exempt from the "top-level conjunct" clause; '
    '"no longer filters the outer result" = the residual WHERE accepts every row the original accepted',
    'join types: the spellings are every connector of the live mindsdb grammar (tools/extract/x_c14join.py derives them '
    'from the productions on every run); what a spelling means is the specification reading semClass / sem_class (side '
    'words LEFT / RIGHT / FULL / CROSS wherever they stand; a side-less OUTER JOIN drops no unmatched row: treated as FULL; '
    'CROSS JOIN ... ON as INNER, as in MySQL); Lean semClass and the oracle\'s sem_class are compared in the join_kind stream',
    'routing of operands to integrations / projects (which identifier is a model) is C10\'s subject; the harness decides '
    'it independently from the catalog (names compared case-insensitively, both forms of predictor_metadata, projects known '
    'only as the project of a model, predictor_namespace) and a disagreement shows as a divergence, as a wrong apply-step '
    'count, or as model-join-rejected',
]


def kf_match(k, f):
    return bool(k.get('cls_re')) and re.search(k['cls_re'], f.get('cls', '')) is not None


def cases_for(chk, n):
    rng = common.rng_for(chk.seed, 'C14')
    for i, sql in enumerate(mj.SEEDS):
        yield 0, sql, 'seed'
    for ci, sql in mj.SEEDS_CAT:
        yield ci, sql, 'seed'
    for sql in mj.spelling_cases():
        yield 0, sql, 'spelling'
    for i in range(n):
        ci = rng.randrange(len(mj.CATALOGS))
        yield ci, mj.Gen(rng, ci).query(), 'gen'


def run(chk):
    # an entry of kf_proposed_C14.json replaces the entry of known_findings.json with the same id
    byid = {}
    for k in chk.kf:
        byid[k['id']] = k
    chk.kf = list(byid.values())
    quick = chk.tier == 'quick'
    deep = (not quick) or bool(chk.broken())
    n = 1500 if quick and not deep else (6000 if quick else 40000)
    dist = collections.Counter()
    lines, metas = [], []
    nfail = collections.Counter()
    for ci, sql, src in cases_for(chk, n):
        r = mj.run_real(sql, mj.CATALOGS[ci])
        if 'skip' in r:
            dist['skip:' + r['skip']] += 1
            continue
        chk.count((ci, sql))
        out = r['out']
        dist['impl:' + (out if out.startswith('exc') else 'plan')] += 1
        if out.startswith('exc:Internal'):
            dist['internal:' + r['exc'][:60]] += 1
        if r.get('rejected'):
            # the catalog (independent reading) knows every operand, yet the planner does not find it
            f = dict(cls='model-join-rejected:integration-not-found', sql=sql, catalog=ci,
                     desc='every operand is qualified by a name of the catalog (or a default namespace exists), but the planner '
                          'raises: %s' % r['rejected'])
            f['class'] = f['cls']
            nfail[f['cls']] += 1
            if nfail[f['cls']] <= 3:
                chk.classify(f, kf_match)
                chk.fail(f)
        lines.append(r['line'])
        metas.append((ci, sql, r['route'] + ' || ' + out))
        if 'view' in r:
            nops = len(r['ops'])
            dist['operands:%d' % nops] += 1
            dist['models:%d' % sum(1 for o in r['ops'] if o.kind == 'mod')] += 1
            dist['catalog:%d' % ci] += 1
            if r['info']['limit'] is not None:
                dist['limit:' + ('aggregates' if r['aggregates'] else 'rows')] += 1
            if r['where'] is not None:
                kinds = {a[0] + ':' + a[1] for _, anc in mj.sub_nodes(r['where']) for a in anc if a[0] in 'BU' and a[1] in ('or', 'not')}
                dist['where:' + ('+'.join(sorted(kinds)) or 'conjunction')] += 1
            try:
                fs = mj.oracle(r)
            except Exception as e:      # an oracle crash is an infrastructure problem, never a verdict
                raise
            for f in fs:
                f['catalog'] = ci
                f['class'] = f['cls']
                nfail[f['cls']] += 1
                if nfail[f['cls']] <= 3:
                    chk.classify(f, kf_match)
                    chk.fail(f)
    # join-type strings: the real planner's four push-down decisions + the specification class, per string
    jk = []
    try:
        for jt in mj.jtype_strings(common.rng_for(chk.seed, 'C14/jk'), 40 if quick and not deep else 400):
            jk.append((jt, mj.jk_line(jt), mj.jk_expected(jt)))
            dist['jk:' + mj.sem_class(jt)] += 1
    except Exception as e:
        chk.oblige('corr:join_kind', 'correspondence', False, 'probing the planner failed: %s: %s' % (type(e).__name__, e))
        jk = []
    # correspondence: whole plans, model vs implementation
    try:
        outs = common.lean_run('ModelJoin', lines + [l for _, l, _ in jk])
        if jk:
            jouts, outs = outs[len(lines):], outs[:len(lines)]
            bad = [dict(join_type=jt, impl=exp, model=o) for (jt, _, exp), o in zip(jk, jouts) if exp != o]
            chk.corr_result('join_kind', len(jk), len(bad), bad[0] if bad else None)
        diverged, first = 0, None
        for (ci, sql, out), o in zip(metas, outs):
            if 'exc:Internal' in out:
                continue
            if out != o:
                diverged += 1
                if first is None:
                    first = dict(catalog=ci, sql=sql, impl=out[:1500], model=o[:1500])
        chk.corr_result('model_join', len(lines), diverged, first, dict(dist))
    except Exception as e:
        chk.oblige('corr:model_join', 'correspondence', False, 'driver failed: %s' % e)
    # known findings: replay every witness on the real code
    for k in chk.kf:
        if k.get('status') != 'open':
            continue
        w = k['witness']
        r = mj.run_real(w['sql'], mj.CATALOGS[w.get('catalog', 0)])
        if 'view' in r and any(kf_match(k, dict(cls=f['cls'])) for f in mj.oracle(r)):
            k['_reproduced'] = True
    chk.samples.append(dict(failure_classes=dict(nfail)))
    for (ci, sql, out) in metas[:2] + metas[-2:]:
        chk.samples.append(dict(catalog=ci, sql=sql[:300], impl=out[:300]))
    chk.samples.append(dict(theorem='C14_2_iff: k in keys(row_dict) <-> some top-level conjunct of WHERE is an equality between the '
                                    "model's column k (not the predict target) and a constant, either orientation"))
    chk.samples.append(dict(theorem='C14_2_outer: ev val w <= ev val (neutTop consumed w) for every three-valued valuation with (0 = 0) true'))
    chk.samples.append(dict(theorem='C14_3: every WHERE-derived filter of operand j is the stored copy of a top-level conjunct of WHERE '
                                    'whose only identifier resolves to j; nothing is pushed when or occurs'))
    chk.samples.append(dict(theorem='C14_1: planWith ops w u k info = ok steps -> the operands of the apply steps (also inside MapReduceSteps) '
                                    'are a permutation of modelIdx ops, and the input of the apply step of operand i Holds leftOf ops i'))
    chk.samples.append(dict(theorem='C14_limit_plain_row: a fetch step of a produced plan carries LIMIT / OFFSET / ORDER BY only if the query has '
                                    'no HAVING, GROUP BY, DISTINCT and no aggregate node anywhere in the select list'))
    chk.samples.append(dict(theorem='C14_partial : C14_full (all clauses of the statement, for all inputs)'))
    chk.samples.append(dict(theorem='C14_join_class_respected: for every (spelling, Join.join_type) of the live grammar except the '
                                    'known finding, codeFlags join_type = what semClass join_type demands (decide +kernel on '
                                    'Gen/JoinSpellings.lean); C14_join_model_is_code: codeFlags = the decisions observed on the live planner',
                            spellings=[sp['sql'] for sp in mj.join_spellings()]))
    chk.samples.append(dict(theorem='C14_cat_model_any_case: (some p, n) in catalog.models, lower q = lower p, lower m = lower n, m not a version '
                                    '-> catalog.isModel [q, m] and catalog.routable [q, m] (also when p is known only through predictor_metadata)'))
    return chk.finish(assumptions=ASSUME)


def replay(path):
    data = json.load(open(path))
    f = data.get('failure')
    if not f:
        print(json.dumps(data, indent=1)[:4000])
        return 1
    r = mj.run_real(f['sql'], mj.CATALOGS[f.get('catalog', 0)])
    if f.get('cls', '').startswith('model-join-rejected'):
        if r.get('rejected'):
            print('REPRODUCED %s\n  sql : %s\n  what: %s' % (f['cls'], f['sql'], r['rejected']))
            return 1
        print('not reproduced', json.dumps(f)[:500])
        return 0
    if 'view' not in r:
        print('not reproduced (no plan): %s' % r.get('out', r.get('skip')))
        return 0
    for g in mj.oracle(r):
        if g['cls'] == f['cls']:
            print('REPRODUCED %s\n  sql : %s\n  what: %s\n  plan: %s' % (g['cls'], f['sql'], g['desc'], r['out'][:1500]))
            return 1
    print('not reproduced', json.dumps(f)[:500])
    return 0
