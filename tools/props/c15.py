"""C15 — a time-series model receives exactly its context window plus selected rows.

correspondence  P/D: real plan_query on statements with one or several time-series joins (`SELECT … FROM int.tbl ta JOIN
                   mindsdb.tp3 tb WHERE … [LIMIT n]`, sides of UNION [ALL], sub-selects, INSERT/CREATE TABLE sources);
                   per join, found through the step references: (partition WHERE, fetch selects' WHERE trees + limits,
                   output_time_filter, limit step) vs Lean planTS with the variant probed by tools/extract/x_c15.py;
                   D lines: the dbt form (data operand = sub-select with its own WHERE / LIMIT / ORDER BY …, LATEST condition
                   and LIMIT outside) vs Lean planDbt (adaptDbt); catalog spellings of columns / models in random case
                E/F: the real fetch selects executed by sqlite3 on small tables (integers or ISO dates; NULL partition
                   records with plain / null-safe `$var` substitution) vs Lean evalSel (ties the row semantics)
impl-level probe : the property's own oracle on the real code, per join: union of the fetched rows per partition record ==
                   rows satisfying the user's time condition (all sixteen spellings) + a valid choice of the `window`
                   most recent preceding rows (non-NULL t, partition filters); partition values; output_time_filter up to
                   operand mirroring; LIMIT step right after the join; LATEST never sent to the data source; no step
                   shared between joins; rejections (flags, operators, foreign columns incl. names colliding with the
                   order/group names) raise PlanningException and nothing else.
"""
import copy, json, os, re, sqlite3, sys, traceback
from tools.harness import common

ID = 'C15'
TARGETS = ['MindsVerif.Props.C15']
_T = 'MindsVerif.Props.C15.'
THEOREMS = [_T + n for n in (
    'C15_rows', 'C15_rows_tc', 'C15_partitions', 'C15_otf_partial', 'C15_otf_eq', 'C15_limit',
    'C15_reject_flags', 'C15_decision', 'C15_reject_where_partial', 'C15_validate_iff', 'C15_no_crash',
    'C15_null_partition_empty', 'C15_rows_nullsafe', 'C15_reject_where_fixed', 'C15_validateDeep_iff',
    'C15_rows_rev_fixed',
    'C15_live_variant', 'C15_reject_where', 'C15_rows_rev', 'C15_rows_spellings', 'C15_rows_stmt',
    'C15_dbt_limit', 'C15_dbt_rows', 'C15_dbt_reject_inner', 'C15_witness_dbt_outer_ignored', 'C15_witness_dbt_outer',
    'C15_witness_1', 'C15_witness_null', 'C15_full_false',
    'C15_replace_subqueries', 'C15_replace_conjuncts', 'C15_plan_subqueries', 'C15_witness_deep_replace',
    'C15_witness_deep_rows')]
ASSUME = [
    'plan_timeseries_predictor / ts_utils are hand-modelled (MindsVerif.TS.planTS cfg); tie = plan correspondence stream (exact WHERE trees of every generated select, per time-series join of the statement)',
    'the variant of the WHERE handling (deep validation, operand normalisation) is probed on the live code by tools/extract/x_c15.py (two queries) and pinned by the obligation C15_live_variant; the driver plans with the probed variant',
    'row semantics of the model (three-valued WHERE, ORDER BY t DESC as a stable sort of an arbitrary physical order, LIMIT) is tied to sqlite3 3.40 by the eval stream; sqlite3 is a reference engine, not part of a theorem; the specification predicate restSel evaluates the partition filters with the same evaluator',
    "'$var[col]' is read as substitution of the partition record value; the row theorems need envOk: no NULL in the record, or a null-safe executor (C15_rows_nullsafe); with plain SQL equality a record with a NULL receives no rows (C15_null_partition_empty). reduce='union' is read as concatenation",
    'theorem domain: one time condition in any of the sixteen spellings (C15_rows_spellings; C15_rows: the nine column-first classes for every variant) over any totally preordered value domain (VOrd: Int, ISO date strings, ...), partition filters g op c / IN / BETWEEN / g IN (sub-query over a second table, any WHERE) in any AND nesting; outside it (IN / >= LATEST / BETWEEN … LATEST on the order column, column-to-column comparisons) only the correspondence and the crash probe speak',
    'for an exact time (`t = c`) the specification is "the window most recent rows up to c" (the parenthesis of the property text): TC.cond (.eq c) = false',
    'the driver instantiates the value domain with Int; ISO date strings of the generated queries/tables are mapped to day numbers (order isomorphism) before they reach the model',
    'statements with several time-series joins: C15_rows_stmt states the per-join property for a list of joins planned one by one; that the real planner gives every join its own partition step and selects is checked by the probe (step references), not proved',
    'adapt_dbt_query is modelled as adaptDbt on the abstract query (LATEST conditions of the outer WHERE appended, limits merged by min); its alias bookkeeping (stripping / adding table aliases, integration prefix) is below the abstraction and is exercised by the dbt stream only',
    'column and predictor names are matched case-insensitively: the abstraction absW classifies names by lower-case equality, the streams spell the catalog entries and the query occurrences in independent random case',
    'sub-queries: the model keeps the WHERE of a sub-select (W.sub) and the children of value lists / CAST / CASE / argument lists (W.cont) as written; the rest of a sub-select is a code number; IN (sub-query) is evaluated as an uncorrelated sub-query over a second table (Env.shops), tied to sqlite3 by the ES/FS lines of the eval stream; scalar sub-queries, functions, NOT, CASE are outside ev (plan stream and probe only). The abstraction absW ignores table qualifiers, identifier case and parentheses: structural equality of the model is coarser than ASTNode.__eq__ (the generator plants twins that are equal in both senses; near misses are probe-only material)',
    'the probe evaluates a conjunct with a sub-query / value list / CAST / CASE operand by running the user\'s own text of the conjunct on sqlite3 over the same two tables (differential: user text vs the queries the planner sends)',
    'plan glue (FROM table, SELECT *, integration, step wiring, join side) is checked by the probe, not proved; the ambiguity check of join identifiers is not modelled (the probe checks that an unqualified column raises PlanningException)',
]

TIME = 't'
GROUPS = ['g', 'h']
BADOPS = ['or', '!=', 'like', 'is', '+', '-', '<>', 'not in', 'not like', '*', '/', '%', 'is not']
OPMAP = {'and': 'and', '>': 'gt', '>=': 'ge', '=': 'eq', '<': 'lt', '<=': 'le', 'in': 'in'}
CMPS = ['>', '>=', '=', '<', '<=']
DATE_RE = r'2020-01-(\d\d)'


def date_of(k):
    return None if k is None else '2020-01-%02d' % k


def day_of(s):
    return None if s is None else int(re.fullmatch(DATE_RE, s).group(1))


# ----------------------------------------------------------------------------------------------- real code access
def _imports():
    from mindsdb_sql import parse_sql
    from mindsdb_sql.planner import plan_query
    from mindsdb_sql.exceptions import PlanningException
    from mindsdb_sql.planner import steps
    from mindsdb_sql.parser import ast
    from mindsdb_sql.parser.dialects.mindsdb.latest import Latest
    return parse_sql, plan_query, PlanningException, steps, ast, Latest


def meta_dict(case):
    if case.get('meta'):        # name-collision stream: its own order / group column names
        return {'tp3': dict(case['meta'], timeseries=True, window=case['window'])}
    models = case.get('models') or {'tp3': case['window']}      # predictor name -> window
    cat = case.get('cat') or dict(time=TIME, groups=GROUPS, names={})   # how the catalog spells the columns / models
    return {cat.get('names', {}).get(name, name): {'timeseries': True, 'order_by_column': cat['time'],
                                                     'group_by_columns': cat['groups'][:case['nG']], 'window': w}
            for name, w in models.items()}


def recase(rng, word):
    """a random case variant of an identifier"""
    return ''.join(ch.upper() if rng.random() < 0.5 else ch.lower() for ch in word)


def gen_cat(rng):
    """catalog spelling of the order column, the group columns and the predictor names (the queries spell them
    independently: column matching is case-insensitive)"""
    if rng.random() < 0.5:
        return None
    return dict(time=recase(rng, TIME), groups=[recase(rng, g) for g in GROUPS],
                names={n: recase(rng, n) for n in ('tp3', 'tp4')})


def recase_sql(rng, sql):
    """re-spell the column references `alias.t|g|h` and the predictor names of a generated statement"""
    sql = re.sub(r'(?<=\.)([tgh])\b', lambda m: recase(rng, m.group(1)), sql, flags=re.I)
    sql = re.sub(r'(?<![\w.])([tgh])(?=\s*(?:[<>=]|in\b|between\b))', lambda m: recase(rng, m.group(1)), sql, flags=re.I)
    return re.sub(r'(?<=mindsdb\.)(tp[34])\b', lambda m: recase(rng, m.group(1)), sql)


NAME_SETS = [('saledate', ['vendor_id', 'type']), ('pickup_hour', ['day', 'Region']), ('Ts', ['grp', 'sub_grp'])]


def near_names(order, groups):
    """foreign column names that are substrings / prefixes / suffixes / super-strings / case variants of substrings of
    the order and (all, also unused) group column names -- none of them equals an allowed column case-insensitively"""
    out = set()
    for name in [order] + groups:
        n = len(name)
        for i in range(n):
            for j in range(i + 1, n + 1):
                if j - i < n:
                    out.add(name[i:j])
        out |= {name + '2', 'x' + name, name + '_', name[0] * 2 + name[1:]}
        out |= {part for part in name.split('_') if part}
    out |= {o.upper() for o in list(out)} | {o.capitalize() for o in list(out)}
    return sorted(o for o in out if o and (o[0].isalpha() or o[0] == '_') and o.replace('_', 'a').isalnum())


def collision_cases(rng, n):
    """filters on foreign columns whose names collide textually with allowed ones, for 0, 1, 2 group-by columns:
    every one must raise PlanningException"""
    out = []
    reserved = None
    for k in range(n):
        order, allg = NAME_SETS[k % len(NAME_SETS)]
        nG = (k // len(NAME_SETS)) % 3
        groups = allg[:nG]
        allowed = {order.lower()} | {g.lower() for g in groups}
        names = [x for x in near_names(order, allg) if x.lower() not in allowed]
        foreign = rng.choice(names)
        col = '`%s`' % foreign        # quoted: some fragments are keywords (or, on, end, id)
        shape = rng.choice(['cmp', 'cmp', 'in', 'btw', 'rhs', 'btw_arg'])
        ok_col = rng.choice(sorted(allowed))
        if shape == 'cmp':
            leaf = 'ta.%s %s 1' % (col, rng.choice(CMPS))
        elif shape == 'in':
            leaf = 'ta.%s in (1, 2)' % col
        elif shape == 'btw':
            leaf = 'ta.%s between 1 and 2' % col
        elif shape == 'rhs':
            leaf = 'ta.%s = ta.%s' % (ok_col, col)
        else:
            leaf = 'ta.%s between ta.%s and 5' % (ok_col, col)
        leaves = [leaf]
        if rng.random() < 0.5:
            leaves.append('ta.%s > 1' % order)
        if groups and rng.random() < 0.5:
            leaves.append('ta.%s = 1' % rng.choice(groups))
        rng.shuffle(leaves)
        frm = 'mindsdb.tp3 tb join int.tbl ta' if rng.random() < 0.3 else 'int.tbl ta join mindsdb.tp3 tb'
        out.append(dict(kind='rej', rej='foreign_near_name', expect='planning', nG=nG, window=rng.choice([1, 3]),
                        model_left=frm.startswith('mindsdb'), flags='0000', limit=None, cls=None, absw=None,
                        python_only=True, meta=dict(order_by_column=order, group_by_columns=groups), foreign=foreign,
                        sql='select * from %s where %s' % (frm, ' and '.join(leaves)), _tc=None, _pfs=[]))
    return out


def real_plan(case):
    parse_sql, plan_query, PlanningException, steps, ast, Latest = _imports()
    q = parse_sql(case['sql'], 'mindsdb')
    return plan_query(q, integrations=['int'], predictor_namespace='mindsdb', predictor_metadata=meta_dict(case))


class Unabstractable(Exception):
    pass


def mentions_foreign(node, nG):
    _, _, _, _, ast, _ = _imports()
    from mindsdb_sql.planner.utils import query_traversal
    found = []

    def cb(n, is_table=False, **kw):
        if isinstance(n, ast.Select):
            return n            # a sub-query has its own scope: not descended into
        if isinstance(n, ast.Identifier) and not is_table:
            last = n.parts[-1].lower() if isinstance(n.parts[-1], str) else '*'
            if last != TIME and last not in GROUPS[:nG]:
                found.append(last)
    try:
        query_traversal(node, cb)
    except Exception:
        return True
    return bool(found)


def absW(node, nG):
    """real AST -> s-expression of MindsVerif.TS.W"""
    parse_sql, plan_query, PlanningException, steps, ast, Latest = _imports()
    if isinstance(node, Latest):
        return 'L'
    if isinstance(node, ast.NullConstant):
        return 'N'
    if isinstance(node, ast.Identifier):
        last = node.parts[-1].lower()
        if last == TIME:
            return '(i t)'
        if last in GROUPS[:nG]:
            return '(i g %d)' % GROUPS.index(last)
        return '(i x)'
    if isinstance(node, ast.Constant):
        v = node.value
        if isinstance(v, bool):
            raise Unabstractable('bool constant')
        if isinstance(v, int):
            return '(c %d)' % v
        m = isinstance(v, str) and re.fullmatch(r'\$var\[(\w+)\]', v)
        if m and m.group(1).lower() in GROUPS:
            return '(v %d)' % GROUPS.index(m.group(1).lower())
        m = isinstance(v, str) and re.fullmatch(DATE_RE, v)
        if m:       # ISO date strings: order-isomorphic to the day number (the model's value domain is abstract)
            return '(c %d)' % int(m.group(1))
        raise Unabstractable('constant %r' % (v,))
    if isinstance(node, ast.Tuple):
        if all(isinstance(i, ast.Constant) and isinstance(i.value, int) and not isinstance(i.value, bool)
               for i in node.items):
            return '(T%s)' % ''.join(' %d' % i.value for i in node.items)
        return abs_cont(node, 0, list(node.items), nG)
    if isinstance(node, ast.Select):
        # a sub-query: its WHERE is part of the tree (the planner must leave it alone), the rest is a code
        try:
            return '(S %d %s)' % (sub_code(node, nG), 'N' if node.where is None else absW(node.where, nG))
        except Unabstractable:
            return '(O 0)'
    if isinstance(node, ast.TypeCast):
        return abs_cont(node, 1, [node.arg], nG)
    if isinstance(node, ast.Case):
        kids = ([node.arg] if node.arg is not None else []) + [x for rule in node.rules for x in rule] + \
            ([node.default] if node.default is not None else [])
        return abs_cont(node, 2, kids, nG)
    if isinstance(node, ast.BetweenOperation):
        return '(w %s %s %s)' % tuple(absW(a, nG) for a in node.args)
    if isinstance(node, ast.BinaryOperation):
        op = node.op.lower()
        if op in OPMAP:
            o = OPMAP[op]
        elif op == 'is not' and isinstance(node.args[1], ast.NullConstant):
            o = 'isnot'
        else:
            o = 'bad%d' % (BADOPS.index(op) if op in BADOPS else 99)
        return '(b %s %s %s)' % (o, absW(node.args[0], nG), absW(node.args[1], nG))
    if isinstance(node, ast.Operation):       # UnaryOperation, Function, ...: never an allowed op
        if len(node.args) >= 2:                 # a function call: all its arguments
            return '(u %s)' % abs_cont(node, 3, list(node.args), nG)
        if len(node.args) >= 1:
            try:
                return '(u %s)' % absW(node.args[0], nG)
            except Unabstractable:
                pass
        return '(u (O %d))' % (1 if mentions_foreign(node, nG) else 0)
    return '(O %d)' % (1 if mentions_foreign(node, nG) else 0)


def abs_cont(node, kind, kids, nG):
    """a node that is not an Operation with conditions / values inside it -> (K f kind first rest), rest = N at the end"""
    f = 1 if mentions_foreign(node, nG) else 0
    try:
        out = 'N'
        for k in reversed(kids):
            out = '(K %d %d %s %s)' % (f, kind, absW(k, nG), out)
        return out if kids else '(O %d)' % f
    except Unabstractable:
        return '(O %d)' % f


def sub_code(sel, nG):
    """everything of a sub-select but its WHERE, as the number Model/TS.lean documents for `W.sub`"""
    _, _, _, _, ast, _ = _imports()
    try:
        ft = sel.from_table
        if not isinstance(ft, ast.Identifier) or ft.parts[-1].lower() != 'shops' or sel.group_by or sel.order_by \
                or sel.having is not None or sel.limit is not None or sel.offset is not None or sel.distinct \
                or len(sel.targets) != 1 or getattr(sel, 'cte', None):
            return 999
        t, base = sel.targets[0], 0
        if isinstance(t, ast.Function) and t.op.lower() in ('max', 'min') and len(t.args) == 1:
            base, t = (100 if t.op.lower() == 'max' else 200), t.args[0]
        if isinstance(t, ast.Identifier):       # qualifiers are below the abstraction (as everywhere in absW)
            name = t.parts[-1].lower()
            if name == TIME:
                return base
            if name in GROUPS[:nG]:
                return base + 1 + GROUPS.index(name)
    except Exception:
        pass
    return 999


def sexp(w):
    """abstract W text -> nested lists"""
    toks = w.replace('(', ' ( ').replace(')', ' ) ').split()
    def rd(i):
        if toks[i] != '(':
            return toks[i], i + 1
        out, i = [], i + 1
        while toks[i] != ')':
            x, i = rd(i)
            out.append(x)
        return out, i + 1
    return rd(0)[0]


def evaluable(w):
    """can Lean's `ev` evaluate this WHERE (abstract text)? comparisons / IN lists / BETWEEN / AND / OR / IS NOT NULL /
    `col IN (sub-query returning a column)`; no foreign columns, functions, containers, LATEST, scalar sub-queries"""
    def ok(t, cond):
        if isinstance(t, str):
            return t == 'N' and not cond
        h = t[0]
        if h == 'b':
            if t[1] in ('and', 'bad0'):
                return cond and ok(t[2], True) and ok(t[3], True)
            if t[1] == 'in' and t[3][0] == 'S':
                return cond and ok(t[2], False) and int(t[3][1]) < 100 and (t[3][2] == 'N' or ok(t[3][2], True))
            return cond and t[1] in ('gt', 'ge', 'eq', 'lt', 'le', 'in', 'isnot') and ok(t[2], False) and ok(t[3], False)
        if h == 'w':
            return cond and all(ok(x, False) for x in t[1:])
        if h == 'i':
            return not cond and t[1] != 'x'
        return not cond and h in ('c', 'v', 'T')
    try:
        return ok(sexp(w), True)
    except Exception:
        return False


def absW_safe(node, nG):
    """tokens of the abstraction (for searching it); '' when the tree cannot be abstracted"""
    try:
        return absW(node, nG).replace('(', ' ').replace(')', ' ').split()
    except Unabstractable:
        return []


def ts_joins(plan):
    """every time-series join of a plan, in plan order, found through the step references (not positions):
    list of dict(part=partition step|None, subs=[fetch steps], data=data step, ap=apply step, jn=join step|None,
    lim=LimitOffsetStep applied to the join result|None)"""
    _, _, _, S, _, _ = _imports()
    out = []
    for ap in plan.steps:
        if not isinstance(ap, S.ApplyTimeseriesPredictorStep):
            continue
        data = plan.steps[ap.dataframe.step_num]
        if isinstance(data, S.MapReduceStep):
            part = plan.steps[data.values.step_num]
            inner = data.step
        else:
            part, inner = None, data
        subs = inner.steps if isinstance(inner, S.MultipleSteps) else [inner]
        jn = next((x for x in plan.steps if isinstance(x, S.JoinStep) and ap.result in (x.left, x.right)), None)
        lim = next((x for x in plan.steps if isinstance(x, S.LimitOffsetStep) and jn is not None
                    and x.dataframe == jn.result), None)
        out.append(dict(part=part, subs=subs, data=data, ap=ap, jn=jn, lim=lim))
    return out


class GlueError(Exception):
    pass


def fetch_steps(plan, case):
    """the time-series join number case['join_index'] of the plan -> (partition step|None, fetch steps, data step, info)"""
    js = ts_joins(plan)
    k = case.get('join_index', 0)
    if case.get('n_joins', 1) != len(js):
        raise GlueError('%d time-series joins planned for a statement with %d' % (len(js), case.get('n_joins', 1)))
    j = js[k]
    if (j['part'] is None) != (case['nG'] == 0):
        raise GlueError('partition step %s for a model with %d group columns' % (
            'missing' if j['part'] is None else 'present', case['nG']))
    return j['part'], j['subs'], j['data'], j


def canon_real(case):
    """run the real planner; canonical line in the format of Driver/TS.lean + the plan (or None)"""
    parse_sql, plan_query, PlanningException, S, ast, Latest = _imports()
    try:
        plan = real_plan(case)
    except PlanningException as e:
        return 'planning', None, 'PlanningException: %s' % str(e)[:200]
    except Exception as e:
        return 'crash', None, '%s: %s' % (type(e).__name__, str(e)[:200])
    nG = case['nG']
    try:
        part, subs, data, j = fetch_steps(plan, case)
        if part is None:
            ps = 'none'
        else:
            ps = '-' if part.query.where is None else absW(part.query.where, nG)
        sels = []
        for f in subs:
            lim = '-' if f.query.limit is None else str(f.query.limit.value)
            sels.append(absW(f.query.where, nG) + '@' + lim)
        ap = j['ap']
        otf = '-' if ap.output_time_filter is None else absW(ap.output_time_filter, nG)
        lim = '-' if j['lim'] is None else str(j['lim'].limit)
        return 'ok part=%s sels=%s otf=%s limit=%s' % (ps, ';'.join(sels), otf, lim), plan, None
    except Unabstractable as e:
        return 'unabstractable', plan, str(e)
    except GlueError as e:
        return 'glue: %s' % e, plan, str(e)


def model_line(case):
    if case.get('dbt'):
        iw, ow = case['absw_dbt']
        lim = lambda v: '-' if v is None else str(v)
        return 'D %d %d %s %s %s %s | %s' % (case['nG'], case['window'], case.get('flags', '0000'), lim(case['ilim']),
                                             lim(case['olim']), iw or '-', ow or '-')
    w = case.get('absw')
    fl = case.get('flags', '0000')
    lim = case.get('limit')
    # plain `P` = the variant the translator x_c15.py probed on the live code; C15_CFG=00|10|01|11 forces a variant (experiments only)
    return 'P' + os.environ.get('C15_CFG', '') + ' %d %d %s %s %s' % (case['nG'], case['window'], fl, '-' if lim is None else lim, w if w else '-')


# ----------------------------------------------------------------------------------------------- generator
def gen_pf(rng, nG):
    """one partition filter: (sql with {a} alias placeholder, python predicate on row dict, abstract W)"""
    i = rng.randrange(nG)
    col = GROUPS[i]
    k = rng.random()
    if k < 0.6:
        op = rng.choice(CMPS)
        c = rng.randrange(0, 3)
        f = {'>': lambda v: v > c, '>=': lambda v: v >= c, '=': lambda v: v == c, '<': lambda v: v < c,
             '<=': lambda v: v <= c}[op]
        return ('{a}%s %s %d' % (col, op, c), (col, f), '(b %s (i g %d) (c %d))' % (OPMAP[op], i, c))
    if k < 0.85:
        vs = sorted(rng.sample([0, 1, 2, 3], rng.randrange(1, 4)))
        aw = '(b in (i g %d) (T%s))' % (i, ''.join(' %d' % v for v in vs))
        if len(vs) == 1:        # `g in (3)` parses to a parenthesised Constant, not a Tuple
            aw = '(b in (i g %d) (c %d))' % (i, vs[0])
        return ('{a}%s in (%s)' % (col, ', '.join(map(str, vs))), (col, lambda v: v in vs), aw)
    a = rng.randrange(0, 2)
    b = a + rng.randrange(0, 3)
    return ('{a}%s between %d and %d' % (col, a, b), (col, lambda v: a <= v <= b),
            '(w (i g %d) (c %d) (c %d))' % (i, a, b))


TMARK = '\u00a7'      # stands for the order column inside a generated statement until its spelling (t / T) is fixed


def twins_of(tc_sql):
    """structural twins of the time condition as ts_utils sees it after validation: the user's spelling without the table
    alias, and the column-first form the operand swap turns `c op t` into. (LATEST conditions have none: they are removed,
    not replaced.)"""
    if tc_sql is None or 'LATEST' in tc_sql:
        return []
    user = tc_sql.replace('{a}', '')
    out = [user]
    m = re.fullmatch(r"(\S+) (<=|>=|<|>|=) (%s)" % TMARK, user)
    if m:
        out.append('%s %s %s' % (m.group(3), MIRROR[m.group(2)], m.group(1)))
    return out


def gen_subcond(rng, twins, tconst):
    """the WHERE of a sub-query over shops(t, g, h, x): AND / OR / NOT / function / CASE structure over conditions among
    which the twins of the outer time condition are planted (and near misses: other constant, other operator,
    parenthesised)"""
    def tcond():
        return '%s %s %s' % (rng.choice([TMARK, TMARK, 't', 'shops.t']), rng.choice(CMPS), tconst(rng.randrange(0, 5)))

    def atom(cmp_only=False):
        k = rng.random()
        if twins and k < 0.45:
            tw = rng.choice(twins)
            if not (cmp_only and ' between ' in tw):
                return tw
        if k < 0.6:
            return tcond()
        if k < 0.8 or cmp_only:
            return '%s %s %d' % (rng.choice(['g', 'g', 'h']), rng.choice(CMPS), rng.randrange(0, 3))
        if k < 0.88:
            return 'h in (0, 1)'
        if k < 0.94:
            return 'g between 0 and 1'
        return 'x = %d' % rng.randrange(2)

    def tree(d):
        """(text, is an AND/OR of several conditions)"""
        k = rng.random()
        if d >= 2 or k < 0.35:
            return atom(), False
        if k < 0.75:
            op = ' and ' if k < 0.5 else ' or '
            parts = [tree(d + 1) for _ in range(rng.choice([2, 2, 3]))]
            return op.join('(%s)' % x if compound else x for x, compound in parts), True
        if k < 0.82:
            return 'not %s' % atom(cmp_only=True), False
        if k < 0.9:
            return 'coalesce(%s, 0) = 1' % atom(), False
        if k < 0.95:
            return '(%s)' % atom(), False
        return '(case when %s then 1 else 0 end) = 1' % atom(), False
    return tree(0)[0]


def gen_pf_closed(rng, nG, twins, tconst, dates):
    """a filter on a group column whose other operand is a node the planner must not look into: a sub-query over a second
    table (IN / scalar comparison; its WHERE may spell the outer time condition), or -- second element 'mix' -- a value
    list / CAST / CASE with a condition on the order column inside. Returns (sql with {a}, ('sql', same text for sqlite))"""
    i = rng.randrange(nG)
    col = GROUPS[i]
    k = rng.random()
    def where():
        return '' if rng.random() < 0.08 else ' where ' + gen_subcond(rng, twins, tconst)
    if k < 0.5:
        tgt = rng.choice([col, col, col, GROUPS[1 - i] if nG > 1 else col] + ([] if dates else ['t']))
        w = where()
        if rng.random() < 0.15:      # a sub-query inside the sub-query
            w = (w + ' and ' if w else ' where ') + 'h in (select h from int.shops%s)' % where()
        sql = '{a}%s in (select %s from int.shops%s)' % (col, tgt, w)
    elif k < 0.72:
        sql = '{a}%s %s (select %s(%s) from int.shops%s)' % (col, rng.choice(CMPS), rng.choice(['max', 'min']), col, where())
    else:
        tw = rng.choice(twins) if twins and rng.random() < 0.7 else '%s %s %s' % (TMARK, rng.choice(CMPS), tconst(rng.randrange(0, 5)))
        if ' between ' in tw:
            tw = '%s > %s' % (TMARK, tconst(rng.randrange(0, 5)))
        sql = rng.choice(['{a}%s in (%s, %d)' % (col, tw, rng.randrange(0, 3)),
                          '{a}%s in (%d, %s)' % (col, rng.randrange(2, 4), tw),
                          '{a}%s = cast(%s as int)' % (col, tw),
                          '{a}%s = case when %s then 1 else 0 end' % (col, tw)])
    return sql, ('sql', sql.replace('{a}', '').replace('int.shops', 'shops'))


TCLASSES = ['gt', 'ge', 'eq', 'lt', 'le', 'btw', 'gtLatest', 'eqLatest', 'none']


def gen_tc(rng, cls, tid=None):
    """time condition: (sql, cond(v)->bool or None, before(v)->bool or None, abstract W, expected otf sql)"""
    c = rng.randrange(0, 5)
    tid = tid or '{a}' + rng.choice(['t', 't', 'T'])
    if cls == 'gt':
        return ('%s > %d' % (tid, c), lambda v: v > c, lambda v: v <= c, '(b gt (i t) (c %d))' % c)
    if cls == 'ge':
        return ('%s >= %d' % (tid, c), lambda v: v >= c, lambda v: v < c, '(b ge (i t) (c %d))' % c)
    if cls == 'eq':
        return ('%s = %d' % (tid, c), lambda v: False, lambda v: v <= c, '(b eq (i t) (c %d))' % c)
    if cls == 'lt':
        return ('%s < %d' % (tid, c), lambda v: v < c, None, '(b lt (i t) (c %d))' % c)
    if cls == 'le':
        return ('%s <= %d' % (tid, c), lambda v: v <= c, None, '(b le (i t) (c %d))' % c)
    if cls == 'btw':
        b = c + rng.randrange(0, 3)
        return ('%s between %d and %d' % (tid, c, b), lambda v: c <= v <= b, lambda v: v < c,
                '(w (i t) (c %d) (c %d))' % (c, b))
    if cls == 'gtLatest':
        return ('%s > LATEST' % tid, lambda v: False, lambda v: True, '(b gt (i t) L)')
    if cls == 'eqLatest':
        return ('%s = LATEST' % tid, lambda v: False, lambda v: True, '(b eq (i t) L)')
    # reversed operands (order column on the right): semantically the mirrored class
    if cls == 'rev_lt':     # c < t  ==  t > c
        return ('%d < %s' % (c, tid), lambda v: v > c, lambda v: v <= c, '(b lt (c %d) (i t))' % c)
    if cls == 'rev_le':     # c <= t ==  t >= c
        return ('%d <= %s' % (c, tid), lambda v: v >= c, lambda v: v < c, '(b le (c %d) (i t))' % c)
    if cls == 'rev_gt':     # c > t  ==  t < c
        return ('%d > %s' % (c, tid), lambda v: v < c, None, '(b gt (c %d) (i t))' % c)
    if cls == 'rev_ge':     # c >= t ==  t <= c
        return ('%d >= %s' % (c, tid), lambda v: v <= c, None, '(b ge (c %d) (i t))' % c)
    if cls == 'rev_eq':
        return ('%d = %s' % (c, tid), lambda v: False, lambda v: v <= c, '(b eq (c %d) (i t))' % c)
    if cls == 'rev_gtLatest':     # LATEST < t  ==  t > LATEST
        return ('LATEST < %s' % tid, lambda v: False, lambda v: True, '(b lt L (i t))')
    if cls == 'rev_eqLatest':
        return ('LATEST = %s' % tid, lambda v: False, lambda v: True, '(b eq L (i t))')
    raise ValueError(cls)


def nest(rng, leaves):
    """random AND nesting of (sql, absw) leaves, keeping their order; returns (sql, absw)"""
    if len(leaves) == 1:
        return leaves[0]
    k = rng.randrange(1, len(leaves))
    ls, la = nest(rng, leaves[:k])
    rs, ra = nest(rng, leaves[k:])
    # the parser is left-associative: parenthesise a right operand that is itself an AND
    if k < len(leaves) - 1:
        rs = '(%s)' % rs
    if k > 1 and rng.random() < 0.3:
        ls = '(%s)' % ls
    return ('%s and %s' % (ls, rs), '(b and %s %s)' % (la, ra))


REV_CLASSES = ['rev_lt', 'rev_le', 'rev_gt', 'rev_ge', 'rev_eq', 'rev_gtLatest', 'rev_eqLatest']


def gen_case(rng, kind=None, nG=None, window=None, model='tp3', no_limit=False, cat=False):
    """kind: 'dom' (time condition spelled column-first), 'rev' (the mirrored spellings: constant or LATEST on the
    left), 'rej' (must be rejected), 'misc'"""
    nG = rng.choice([0, 1, 1, 2, 2]) if nG is None else nG
    window = rng.choice([0, 1, 1, 2, 3, 5]) if window is None else window
    kind = kind or rng.choice(['dom'] * 5 + ['rev', 'rev', 'rej', 'rej', 'misc'])
    model_left = rng.random() < 0.35
    use_alias = rng.random() < 0.8
    ta, tb = ('ta', 'tb') if use_alias else ('tbl', model)
    case = dict(kind=kind, nG=nG, window=window, model_left=model_left, flags='0000', limit=None, expect=None)
    cls = rng.choice(TCLASSES)
    if kind == 'rev':
        cls = rng.choice(REV_CLASSES)
    leaves, pfs = [], []
    tc = None
    case['dates'] = rng.random() < 0.35
    tsp = rng.choice(['t', 't', 'T'])       # how this statement spells the order column (TMARK until the end)
    tconst = (lambda k: "'%s'" % date_of(k)) if case['dates'] else str
    if cls != 'none':
        tc = gen_tc(rng, cls, tid='{a}' + TMARK)
        if case['dates']:      # the same condition over ISO date strings
            tc = (re.sub(r'\b(\d+)\b', lambda m: "'%s'" % date_of(int(m.group(1))), tc[0]),) + tc[1:]
        leaves.append((tc[0], tc[3]))
    for _ in range(rng.choice([0, 0, 1, 1, 2, 3]) if nG else 0):
        pf = gen_pf(rng, nG)
        pfs.append(pf[1])
        leaves.append((pf[0], pf[2]))
    # filters whose operand is a sub-query / value list / CAST / CASE: structural twins of the time condition are planted
    # inside them (IN-subselects, OR branches, function arguments, nested sub-queries, list items)
    n_closed = rng.choice([1, 1, 2]) if (nG and kind in ('dom', 'rev', 'rej') and rng.random() < 0.4) else 0
    for _ in range(n_closed):
        pf = gen_pf_closed(rng, nG, twins_of(tc[0] if tc else None), tconst, case['dates'])
        pfs.append(pf[1])
        leaves.append((pf[0], None))
    case['closed'] = n_closed
    rng.shuffle(leaves)
    tail = ''
    lim = None if no_limit else rng.choice([None, None, 1, 2, 7, 0])
    absw_override = None
    if kind == 'rej':
        r = rng.choice(['order', 'group', 'having', 'offset', 'foreign', 'foreign_and', 'badop', 'badop2', 'not',
                        'two_time', 'hidden_tuple', 'hidden_cast', 'hidden_btw3', 'bare_operand', 'unqualified',
                        'func', 'arith', 'dup_time'])
        case['rej'] = r
        case['expect'] = 'planning'
        if r == 'order':
            tail = ' order by %s.t' % ta; case['flags'] = '1000'
        elif r == 'group':
            tail = ' group by %s.g' % ta; case['flags'] = '0100'
        elif r == 'having':
            tail = ' having %s.g = 1' % ta; case['flags'] = '0010'
        elif r == 'offset':
            lim = lim or 3; tail = ''; case['flags'] = '0001'
        elif r == 'foreign':
            leaves.append(('{a}x %s %d' % (rng.choice(CMPS), rng.randrange(3)), '(b %s (i x) (c 0))' % 'eq'))
            absw_override = True
        elif r == 'foreign_and':
            leaves.insert(0, ('{a}y in (1, 2)', '(b in (i x) (T 1 2))'))
        elif r == 'badop':
            op = rng.choice(['!=', 'like', '<>'])
            col = GROUPS[0] if nG else 't2'
            leaves.append(("{a}%s %s 1" % (col, op), None)); absw_override = True
        elif r == 'badop2':
            leaves = [('%s or {a}t > 1' % (leaves[0][0] if leaves else '{a}t < 0'), None)]; absw_override = True
        elif r == 'not':
            leaves.append(('not {a}t > 1', None)); absw_override = True
        elif r == 'two_time':
            leaves.append(('{a}t > 1', '(b gt (i t) (c 1))'))
            leaves.append(('{a}t < 4', '(b lt (i t) (c 4))'))
        elif r == 'dup_time':       # the time condition written twice: two filters on the order column
            dup = tc[0] if tc else '{a}%s > 1' % TMARK
            if not tc:
                leaves.append((dup, None))
            leaves.insert(rng.randrange(len(leaves) + 1), (dup, None)); absw_override = True
        elif r == 'hidden_tuple':
            col = GROUPS[0] if nG else 't'
            leaves.append(('{a}%s in ({a}x, 1)' % col, None)); absw_override = True
        elif r == 'hidden_cast':
            col = GROUPS[0] if nG else 't'
            leaves.append(('{a}%s = cast({a}x as int)' % col, None)); absw_override = True
        elif r == 'hidden_btw3':
            col = GROUPS[0] if nG else 't'
            leaves.append(('{a}%s between 1 and ({a}x + 1)' % col, None)); absw_override = True
        elif r == 'bare_operand':
            col = GROUPS[0] if nG else 't'
            leaves.append(('{a}%s' % col, None)); absw_override = True
            if len(leaves) == 1:
                leaves.insert(0, ('{a}t > 1', None))
        elif r == 'unqualified':
            leaves.append(('t > 1' if not tc else 'g = 1', None)); absw_override = True
            case['python_only'] = True
        elif r == 'func':
            col = GROUPS[0] if nG else 't'
            leaves.append(('{a}%s = abs({a}x)' % col, None)); absw_override = True
        elif r == 'arith':
            col = GROUPS[0] if nG else 't'
            leaves.append(('{a}%s = 1 + {a}x' % col, None)); absw_override = True
    elif kind == 'misc':
        r = rng.choice(['in_time', 'ge_latest', 'lt_latest', 'btw_latest', 'col_col', 'paren_time', 'latest_gt', 'latest_le',
                        'twin_eq', 'twin_btw', 'twin_eq', 'twin_btw'])
        case['misc'] = r
        col = GROUPS[0] if nG else 't'
        leaves = [l for l in leaves if l[1] and '(i t)' not in l[1]]
        # twin_*: a second occurrence of the (parenthesised) time condition as an operand of another condition --
        # replace_time_filter walks into the operands of `=` (BinaryOperation) and not into those of BETWEEN
        tw = '({a}%s %s %d)' % (TMARK, rng.choice(CMPS), rng.randrange(0, 4))
        extra = {'in_time': '{a}t in (1, 2)', 'ge_latest': '{a}t >= LATEST', 'lt_latest': '{a}t < LATEST',
                 'btw_latest': '{a}t between 1 and LATEST', 'col_col': '{a}%s = {a}t' % col,
                 'paren_time': '({a}t > 2)', 'latest_gt': 'LATEST > {a}t', 'latest_le': 'LATEST <= {a}t',
                 'twin_eq': '%s and {a}%s %s %s' % (tw, col if nG else 'g', rng.choice(['=', '>=', 'in']), tw),
                 'twin_btw': '%s and {a}%s between %s and 2' % (tw, col if nG else 'g', tw)}[r]
        leaves.append((extra, None)); absw_override = True
        tc = None
    where_sql = ''
    absw = None
    if leaves:
        ws, wa = nest(rng, [(s, a or '?') for s, a in leaves])
        alias_for = lambda: (ta if rng.random() < 0.85 else tb) + '.'
        where_sql = ' where ' + re.sub(r'\{a\}', lambda m: alias_for(), ws)
        absw = None if (absw_override or '?' in wa) else wa
    frm = ('mindsdb.%s %%s join int.tbl %%s' if model_left else 'int.tbl %%s join mindsdb.%s %%s') % model
    frm = frm % ((tb, ta) if model_left else (ta, tb)) if use_alias else \
        ('mindsdb.%s join int.tbl' % model if model_left else 'int.tbl join mindsdb.%s' % model)
    sql = 'select * from ' + frm + where_sql + tail
    if lim is not None:
        sql += ' limit %d' % lim
    if case['flags'] == '0001':
        sql += ' offset %d' % rng.randrange(0, 3)
    if cat is False:
        cat = gen_cat(rng)
    if cat is not None:
        case['cat'] = cat
        sql = recase_sql(rng, sql)
    sql = sql.replace(TMARK, tsp)
    pfs = [(p[0], p[1].replace(TMARK, tsp)) if p[0] == 'sql' else p for p in pfs]
    case.update(sql=sql, limit=lim, cls=cls if kind in ('dom', 'rev') else None, absw=absw)
    case['_tc'] = tc
    case['_pfs'] = pfs
    return case


def gen_multi(rng):
    """ONE statement with several time-series joins over the same data table: the sides of a UNION [ALL], each
    possibly inside a sub-select, the whole possibly the source of INSERT / CREATE TABLE; or a single join nested in
    such a wrapper. The joins use two predictors with the same group columns and different windows, and different
    time conditions / partition filters. Returns one case per join (same statement text, `join_index`)."""
    nG = rng.choice([0, 1, 1, 1, 2, 2])
    models = {'tp3': rng.choice([1, 2, 3]), 'tp4': rng.choice([0, 2, 4])}
    cat = gen_cat(rng)
    k = rng.choice([1, 2, 2, 2, 3])
    parts = []
    for i in range(k):
        model = rng.choice(sorted(models))
        c = gen_case(rng, kind=rng.choice(['dom', 'dom', 'rev']), nG=nG, window=models[model], model=model,
                     no_limit=True, cat=cat)
        parts.append(c)
    texts = []
    for i, c in enumerate(parts):
        t = c['sql']
        if rng.random() < (0.3 if k > 1 else 0.6):
            t = 'select * from (%s) x%d' % (t, i)
        texts.append(t)
    stmt = texts[0]
    for t in texts[1:]:
        stmt += rng.choice([' union ', ' union all ']) + t
    wrap = rng.choice(['', '', '', 'insert', 'create']) if (k > 1 or stmt != parts[0]['sql']) else rng.choice(['insert', 'create'])
    if wrap == 'insert':
        stmt = 'insert into int.out (%s)' % stmt
    elif wrap == 'create':
        stmt = 'create table int.out (%s)' % stmt
    out = []
    for i, c in enumerate(parts):
        c = dict(c, part_sql=c['sql'], sql=stmt, join_index=i, n_joins=k, models=models, multi=True)
        out.append(c)
    return out


def min_limit(a, b):
    return a if b is None else (b if a is None else min(a, b))


LATEST_CLASSES = ('gtLatest', 'eqLatest', 'rev_gtLatest', 'rev_eqLatest')


def gen_dbt(rng):
    """the dbt form: the data operand is a sub-select with its own WHERE / LIMIT (/ ORDER BY …), the model on either
    side, the LATEST condition (if any) in the outer WHERE, an outer LIMIT or not.
    kinds: in-domain ('dom'/'rev', row-set + LIMIT = min(inner, outer) oracle), 'rej' (clauses of the sub-select that must be
    rejected), 'dbtx' (clauses of the OUTER query other than LATEST conditions and LIMIT: must be honoured or rejected)."""
    nG = rng.choice([0, 1, 1, 2])
    window = rng.choice([0, 1, 2, 3])
    cat = gen_cat(rng)
    inner_alias = rng.choice(['', '', ' ta'])
    qual = rng.choice(['', '', ('ta.' if inner_alias else 'tbl.')])
    cls = rng.choice(TCLASSES + REV_CLASSES)
    tc = gen_tc(rng, cls) if cls != 'none' else None
    inner_leaves, outer_leaves, pfs = [], [], []
    time_outside = tc is not None and cls in LATEST_CLASSES and rng.random() < 0.8
    if tc is not None:
        (outer_leaves if time_outside else inner_leaves).append((tc[0], tc[3]))
    for _ in range(rng.choice([0, 1, 1, 2]) if nG else 0):
        pf = gen_pf(rng, nG)
        pfs.append(pf[1])
        inner_leaves.append((pf[0], pf[2]))
    n_closed = 1 if (nG and rng.random() < 0.25) else 0
    for _ in range(n_closed):     # a partition filter with a sub-query over a second table inside the sub-select
        tw = [] if (tc is None or time_outside) else [x.replace(TMARK, 't') for x in twins_of(re.sub(r'\{a\}[tT]\b', TMARK, tc[0]))]
        while True:
            pf = gen_pf_closed(rng, nG, tw, str, False)
            if 'select' in pf[0]:
                break
        pfs.append((pf[1][0], pf[1][1].replace(TMARK, 't')))
        inner_leaves.append((pf[0].replace(TMARK, 't'), None))
    rng.shuffle(inner_leaves)
    ilim = rng.choice([None, None, 0, 1, 3, 5, 7])
    olim = rng.choice([None, None, 0, 2, 4, 9])
    kind = rng.choice(['dom'] * 6 + ['rej', 'dbtx', 'dbtx'])
    case = dict(kind='rev' if cls.startswith('rev_') else 'dom', nG=nG, window=window, flags='0000', expect=None,
                cls=cls, dbt=True, dates=False, ilim=ilim, olim=olim, limit=min_limit(ilim, olim), absw=None, closed=n_closed)
    inner_tail, outer_tail, outer_extra = '', '', None
    if kind == 'rej':
        r = rng.choice(['dbt_inner_order', 'dbt_inner_group', 'dbt_inner_offset', 'dbt_inner_foreign', 'dbt_two_time'])
        case.update(kind='rej', rej=r, expect='planning', cls=None)
        tq = qual or ('ta.' if inner_alias else 'tbl.')
        if r == 'dbt_inner_order':
            inner_tail = ' order by %st' % tq; case['flags'] = '1000'
        elif r == 'dbt_inner_group':
            inner_tail = ' group by %sg' % tq; case['flags'] = '0100'
        elif r == 'dbt_inner_offset':
            ilim = case['ilim'] = ilim if ilim is not None else 3
            inner_tail = ' offset 1'; case['flags'] = '0001'
        elif r == 'dbt_inner_foreign':
            inner_leaves.append(('{a}x = 1', None))
        else:
            inner_leaves = [l for l in inner_leaves if '(i t)' not in (l[1] or '')] + [('{a}t > 1', None)]
            outer_leaves = [('{a}t > LATEST', None)]
    elif kind == 'dbtx':
        what = rng.choice(['where_pf', 'where_time', 'where_foreign', 'order', 'group', 'offset'])
        case.update(kind='dbtx', what=what, cls=None)
        if what == 'where_pf':
            outer_extra = 't1.%s = 1' % (GROUPS[0] if nG else 't')
        elif what == 'where_time':
            outer_extra = 't1.t > 2'
            inner_leaves = [l for l in inner_leaves if '(i t)' not in (l[1] or '')]
            outer_leaves = []
        elif what == 'where_foreign':
            outer_extra = 't1.x = 3'
        elif what == 'order':
            outer_tail = ' order by t1.t'
        elif what == 'group':
            outer_tail = ' group by t1.g'
        else:
            olim = case['olim'] = olim if olim is not None else 4
            outer_tail = ' offset 1'
    def where_of(leaves, q):
        if not leaves:
            return ''
        ws, _ = nest(rng, [(a, b or '?') for a, b in leaves])
        return ' where ' + re.sub(r'\{a\}', q, ws)
    inner = 'select * from int.tbl%s%s%s%s' % (inner_alias, where_of(inner_leaves, qual),
                                               '' if ilim is None else ' limit %d' % ilim, inner_tail)
    o_leaves = list(outer_leaves) + ([(outer_extra, None)] if outer_extra else [])
    rng.shuffle(o_leaves)
    model_left = rng.random() < 0.4
    frm = ('mindsdb.tp3 tb join (%s) as t1' if model_left else '(%s) as t1 join mindsdb.tp3 tb') % inner
    def outer_sql(leaves, tail):
        return 'select * from ' + frm + where_of(leaves, 't1.') + ('' if olim is None else ' limit %d' % olim) + tail
    sql = outer_sql(o_leaves, outer_tail)
    case.update(model_left=model_left, _tc=tc, _pfs=pfs)
    if kind == 'dbtx':      # the same statement without the outer clause in question
        case['sql_without'] = outer_sql(list(outer_leaves), '')
    if tc is not None:
        case['otf_sql'] = 'select * from a where ' + tc[0].replace('{a}', 'a.')
    if cat is not None:
        case['cat'] = cat
        sql = recase_sql(rng, sql)
        if 'sql_without' in case:
            case['sql_without'] = recase_sql(rng, case['sql_without'])
    case['sql'] = sql
    return case


def dbt_abs(q, nG):
    """(inner flags, inner limit, outer limit, inner W, outer W) abstracted from a parsed dbt statement"""
    _, _, _, _, ast, _ = _imports()
    j = q.from_table
    inner = j.left if isinstance(j.left, ast.Select) else j.right
    flags = '%d%d%d%d' % (bool(inner.order_by), bool(inner.group_by), inner.having is not None, inner.offset is not None)
    lim = lambda x: None if x is None else x.value
    return (flags, lim(inner.limit), lim(q.limit),
            None if inner.where is None else absW(inner.where, nG), None if q.where is None else absW(q.where, nG))


def gen_table(rng, deep):
    n = rng.randrange(0, 9 if not deep else 12)
    rows = []
    for i in range(n):
        t = rng.choice([None, 0, 1, 2, 2, 3, 3, 4, 5])
        g = rng.choice([None, 0, 1, 1, 2])
        h = rng.choice([None, 0, 1])
        x = rng.choice([None, 0, 1])
        rows.append((i, t, g, h, x))
    return rows


# ----------------------------------------------------------------------------------------------- sqlite execution
def render(query):
    from mindsdb_sql.render.sqlalchemy_render import SqlalchemyRender
    try:
        return SqlalchemyRender('sqlite').get_string(query, with_failback=False)
    except Exception:
        return str(query)


def substitute(query, pvals, nullsafe=False):
    """fill '$var[col]' constants with the partition record (what MapReduceStep's executor does).
    nullsafe: a NULL record value turns `col = '$var[col]'` into `col IS NULL` (see C15_rows_nullsafe)"""
    _, _, _, _, ast, _ = _imports()
    from mindsdb_sql.planner.utils import query_traversal
    q = copy.deepcopy(query)

    def cb(n, **kw):
        if nullsafe and isinstance(n, ast.BinaryOperation) and n.op == '=' and isinstance(n.args[1], ast.Constant) \
                and isinstance(n.args[1].value, str):
            m = re.fullmatch(r'\$var\[(\w+)\]', n.args[1].value)
            if m and pvals[m.group(1).lower()] is None:
                return ast.BinaryOperation('is', args=[n.args[0], ast.NullConstant()])
        if isinstance(n, ast.Constant) and isinstance(n.value, str):
            m = re.fullmatch(r'\$var\[(\w+)\]', n.value)
            if m:
                n.value = pvals[m.group(1).lower()]
    query_traversal(q, cb)
    if nullsafe and q.where is not None:
        r = cb(q.where)
        if r is not None:
            q.where = r
    return q


def gen_shops(rng):
    """rows (id, t, g, h, x) of the second table `shops` the sub-queries of partition filters select from"""
    return [(i, rng.choice([None, 0, 1, 2, 3, 4, 5]), rng.choice([None, 0, 1, 1, 2, 3]), rng.choice([None, 0, 1]),
             rng.choice([None, 0, 1])) for i in range(rng.randrange(0, 6))]


def make_db(rows, dates=False, shops=()):
    db = sqlite3.connect(':memory:')
    for name, rs in (('tbl', rows), ('shops', shops or ())):
        db.execute('create table %s (id integer, t %s, g integer, h integer, x integer)' % (name, 'text' if dates else 'integer'))
        if dates:
            rs = [(r[0], date_of(r[1])) + tuple(r[2:]) for r in rs]
        db.executemany('insert into %s values (?,?,?,?,?)' % name, [tuple(r) for r in rs])
    return db


def row_line(rows, nG):
    if not rows:
        return '-'
    cell = lambda v: 'n' if v is None else str(v)
    return ';'.join(','.join([cell(r[1])] + [cell(r[2 + i]) for i in range(nG)]) for r in rows)


# ----------------------------------------------------------------------------------------------- probe
def otf_expected(case):
    """the user's time condition, alias-stripped, as the library prints it"""
    parse_sql = _imports()[0]
    q = parse_sql(case.get('otf_sql') or case.get('part_sql') or case['sql'], 'mindsdb')
    _, _, _, _, ast, _ = _imports()
    found = []

    def walk(n):
        if isinstance(n, ast.BinaryOperation) and n.op.lower() == 'and':
            walk(n.args[0]); walk(n.args[1]); return
        if isinstance(n, ast.Operation):
            for a in n.args[:2]:
                if isinstance(a, ast.Identifier) and a.parts[-1].lower() == TIME:
                    found.append(n); return
    if q.where is not None:
        walk(q.where)
    if not found:
        return None
    n = copy.deepcopy(found[0])
    for a in n.args:
        if isinstance(a, ast.Identifier):
            a.parts = [a.parts[-1]]
    return norm_cond(n)


MIRROR = {'>': '<', '>=': '<=', '<': '>', '<=': '>=', '=': '='}


def subselects_of(where):
    """the outermost sub-selects of a WHERE tree in the order written: (table, select list | WHERE as printed)"""
    _, _, _, _, ast, _ = _imports()
    from mindsdb_sql.planner.utils import query_traversal
    out = []

    def cb(n, **kw):
        if isinstance(n, ast.Select):
            ft = n.from_table
            w = '' if n.where is None else str(n.where)
            # what the planner does to every sub-select (nested ones too): integration prefix dropped, `col AS col`
            w = re.sub(r'(?i)\bselect (\S+) as \w+ from\b', r'SELECT \1 FROM', w)
            w = re.sub(r'(?i)\bfrom int\.', 'FROM ', w)
            tg = []
            for t in n.targets:
                t = copy.deepcopy(t)
                t.alias = None
                tg.append(str(t))
            out.append((ft.parts[-1] if isinstance(ft, ast.Identifier) else str(ft), ', '.join(tg) + ' | ' + w))
            return n
    if where is not None:
        query_traversal(copy.deepcopy(where), cb)
    return out


def correlated(where):
    """does a sub-select of this WHERE name a column of another table than its own (`tbl.g` inside `… FROM shops`)?"""
    _, _, _, _, ast, _ = _imports()
    from mindsdb_sql.planner.utils import query_traversal
    hit = []

    def scan(sel):
        ft = sel.from_table
        own = {str(ft.parts[-1]).lower()} if isinstance(ft, ast.Identifier) else set()
        if isinstance(ft, ast.Identifier) and ft.alias is not None:
            own = {str(ft.alias.parts[-1]).lower()}

        def cb(n, is_table=False, **kw):
            if isinstance(n, ast.Select) and n is not sel:
                scan(n)
                return n
            if isinstance(n, ast.Identifier) and not is_table and len(n.parts) > 1 and str(n.parts[-2]).lower() not in own:
                hit.append(str(n))
        query_traversal(sel, cb)

    def top(n, **kw):
        if isinstance(n, ast.Select):
            scan(n)
            return n
    if where is not None:
        query_traversal(copy.deepcopy(where), top)
    return bool(hit)


def user_subselects(case):
    """the sub-selects of the WHERE the user wrote for this time-series join"""
    parse_sql, _, _, _, ast, _ = _imports()
    q = parse_sql(case.get('part_sql') or case['sql'], 'mindsdb')
    if case.get('dbt'):
        j = q.from_table
        q = j.left if isinstance(j.left, ast.Select) else j.right
    return subselects_of(q.where)


def norm_cond(n):
    """a time condition up to the spelling `c op t` / `t op' c` (same meaning): (op, [printed operands])"""
    _, _, _, _, ast, _ = _imports()
    if n is None:
        return None
    n = copy.deepcopy(n)
    n.parentheses = False
    op, args = n.op.lower(), list(n.args)
    if isinstance(n, ast.BinaryOperation) and op in MIRROR and not isinstance(args[0], ast.Identifier) \
            and isinstance(args[1], ast.Identifier):
        op, args = MIRROR[op], [args[1], args[0]]
    # column names are matched case-insensitively
    return (op, [str(a).lower() if isinstance(a, ast.Identifier) else str(a) for a in args])


def probe_case(case, tables):
    """the property's oracle on the real code. returns list of failure dicts"""
    parse_sql, plan_query, PlanningException, S, ast, Latest = _imports()
    fails = []

    def fail(sig, desc, **kw):
        d = dict(desc=desc, sig=sig, sql=case['sql'], nG=case['nG'], window=case['window'])
        if case.get('meta'):
            d['meta'] = case['meta']; d['foreign_column'] = case.get('foreign')
        if case.get('cat'):
            d['cat'] = case['cat']
        if case.get('dbt'):
            d.update(dbt=True, ilim=case['ilim'], olim=case['olim'])
        if case.get('multi'):
            d.update(join_index=case['join_index'], n_joins=case['n_joins'], models=case['models'], part_sql=case['part_sql'])
        d.update(kw)
        d['class'] = sig
        fails.append(d)

    late = []
    line, plan, err = canon_real(case)
    if case['kind'] == 'dbtx':
        # a clause of the OUTER query of the dbt form: it must be honoured or rejected; it is *ignored* when the
        # statement is planned exactly like the statement without it
        if line == 'planning':
            return fails
        line0, _, _ = canon_real(dict(case, sql=case['sql_without']))
        if line == 'crash':
            fail('crash:' + err.split(':')[0], 'planner raises %s' % err)
        elif line == line0:
            fail('dbt-outer-ignored:%s' % case['what'], 'the outer %s of a dbt-form query is neither applied nor rejected: '
                 'the plan is the plan of the statement without it' % case['what'], without=case['sql_without'], plan=line)
        return fails
    if case['expect'] == 'planning':
        if line == 'planning':
            return fails
        if line == 'crash':
            fail('reject-crash:%s:%s' % (case.get('rej'), err.split(':')[0]),
                 'a query that must be rejected raises %s instead of PlanningException' % err, rej=case.get('rej'))
        else:
            fail('not-rejected:%s' % case.get('rej'),
                 'a query with %s is planned instead of being rejected with PlanningException' % case.get('rej'),
                 rej=case.get('rej'), plan=line)
        return fails
    if case['kind'] == 'misc':
        if line == 'crash':
            fail('crash:' + err.split(':')[0], 'planner raises %s' % err)
        return fails
    if plan is None:
        fail('unexpected-' + line, 'a query of the property\'s domain is not planned: %s' % err)
        return fails
    nG = case['nG']
    # ---- glue
    try:
        part, subs, data, j = fetch_steps(plan, case)
        ap, jn = j['ap'], j['jn']
        ok = isinstance(ap, S.ApplyTimeseriesPredictorStep) and isinstance(jn, S.JoinStep) and ap.dataframe == data.result
        # every join of the statement has its own steps: nothing is shared with another time-series join
        others = [o for i, o in enumerate(ts_joins(plan)) if i != case.get('join_index', 0)]
        mine = [id(x) for x in [part, data, ap, jn] + subs if x is not None]
        ok = ok and not any(id(x) in mine for o in others for x in [o['part'], o['data'], o['ap'], o['jn']] + o['subs'])
        for f in subs:
            q = f.query
            ok = ok and isinstance(f, S.FetchDataframeStep) and f.integration == 'int' and len(q.targets) == 1 \
                and isinstance(q.targets[0], ast.Star) and q.from_table.parts[-1] == 'tbl' \
                and q.order_by is not None and len(q.order_by) == 1 and q.order_by[0].direction.upper() == 'DESC' \
                and q.order_by[0].field.parts[-1].lower() == TIME and not q.group_by and q.having is None \
                and q.offset is None and not q.distinct
            ok = ok and (q.limit is None or q.limit.value == case['window'])
        if part is not None:
            pq = part.query
            ok = ok and pq.distinct and [t.parts[-1] for t in pq.targets] == (case.get('cat') or {}).get('groups', GROUPS)[:nG] and pq.limit is None \
                and not pq.order_by and data.values == part.result and data.reduce == 'union' \
                and pq.from_table.parts[-1] == 'tbl' and part.integration == 'int'
        if len(subs) > 1:
            ms = data.step if nG else data
            ok = ok and ms.reduce == 'union'
        pred_res, data_res = ap.result, data.result
        exp_lr = (pred_res, data_res) if case['model_left'] else (data_res, pred_res)
        ok = ok and (jn.left, jn.right) == exp_lr
        pushed = [str(x.query) for x in subs + ([part] if part is not None else [])
                  if x.query.where is not None and 'L' in absW_safe(x.query.where, nG)]
        if pushed:
            fail('latest-pushed-down:%s' % case['cls'], 'LATEST is sent to the data source: %s' % pushed[0][:200],
                 queries=pushed)
        if not ok:
            fail('glue', 'plan shape around the fetch selects is not the expected one',
                 steps=[str(s)[:200] for s in plan.steps])
        # ---- LIMIT after the join
        nxt = j['lim']
        lim = case['limit']
        has = nxt is not None
        if has and plan.steps.index(nxt) != plan.steps.index(jn) + 1:
            fail('limit-misplaced', 'LimitOffsetStep is not the step right after the JoinStep')
        if lim is None:
            if has:
                fail('limit-invented', 'LimitOffsetStep without LIMIT in the query')
        else:
            if not has:
                fail('limit-dropped:%d' % lim, 'LIMIT %d of the query is not applied after the join '
                     '(no LimitOffsetStep)' % lim, limit=lim)
            elif not (nxt.limit == lim and nxt.offset is None and nxt.dataframe == jn.result):
                fail('limit-wrong', 'LimitOffsetStep(limit=%r, offset=%r) for LIMIT %d' % (nxt.limit, nxt.offset, lim))
        # ---- output_time_filter = the user's time condition
        exp = otf_expected(case)
        act = norm_cond(ap.output_time_filter)
        if exp != act:
            # the `=` -> `>` rewrite of `t = <constant>` (either spelling) is the class of KF-C15-1
            eq_gt = exp is not None and act is not None and exp[0] == '=' and act[0] == '>' and exp[1] == act[1] \
                and case['cls'] in ('eq', 'rev_eq')      # exact time against a constant only; `= LATEST` is not KF-C15-1
            fail('otf:eq' if eq_gt else 'otf:%s' % case['cls'],
                 'output_time_filter is %r, the user\'s time condition is %r' % (
                     str(ap.output_time_filter) if ap.output_time_filter is not None else None, exp),
                 expected=exp, actual=act)
        # ---- every sub-query of the user's WHERE is part of every query sent to the data source, unchanged
        if case.get('closed'):
            want = user_subselects(case)
            for x in subs + ([part] if part is not None else []):
                got = subselects_of(x.query.where)
                if got == want:
                    continue
                names = set(re.findall(r'\b(\w+)\.', ' '.join(g[1] for g in got))) - {'shops'}
                unq = [(g[0], re.sub(r'\b(%s)\.' % '|'.join(sorted(names) or ['-']), '', g[1])) for g in got]
                if case.get('dbt') and unq == want:
                    # KF-C15-8: add_aliases of adapt_dbt_query qualifies the columns of a sub-query with the data table
                    fail('dbt-subquery-captured', 'dbt form: the columns inside a sub-query of the sub-select\'s WHERE are qualified '
                         'with the data table (%s), which turns the sub-query into a correlated one' % sorted(names),
                         user=want, sent=got, query=str(x.query))
                    return fails            # the row sets differ as a consequence
                late.append(('subquery-rewritten:%s' % case['cls'], 'a sub-query of the user\'s WHERE does not reach the data source as written',
                             dict(user=want, sent=got, query=str(x.query))))      # reported after the row sets (below)
                break
    except GlueError as e:
        fail('glue', 'plan shape: %s' % e, steps=[str(x)[:200] for x in plan.steps])
        return fails
    except Exception as e:
        fail('glue-exception', 'cannot inspect plan: %s' % traceback.format_exc()[-300:])
        return fails
    # ---- rows
    tc, pfs = case['_tc'], case['_pfs']
    for rows, shops in tables:
        db = make_db(rows, bool(case.get('dates')), shops)
        try:
            _probe_rows(case, rows, db, part, subs, nG, tc, pfs, lambda sig, desc, **kw: fail(sig, desc, shops=shops, **kw))
        except sqlite3.Error as e:
            fail('exec:%s' % case['cls'], 'a generated query is not executable by the engine: %s' % e, table=rows, shops=shops,
                 selects=[str(f.query) for f in subs] + ([str(part.query)] if part is not None else []))
        if fails and fails[-1]['sig'].startswith(('rows', 'partitions', 'exec')):
            break
    for sig, desc, kw in late:
        fail(sig, desc, **kw)
    return fails


def _probe_rows(case, rows, db, part, subs, nG, tc, pfs, fail):
    if True:
        # the user's other conjuncts: the generator's own predicates, and -- for the ones with a sub-query / value list /
        # CAST / CASE operand -- the user's text of the conjunct evaluated by the engine on the same two tables
        ok_ids = None
        for kind_, text in pfs:
            if kind_ == 'sql':
                ids = set(x[0] for x in db.execute('select id from tbl where ' + text).fetchall())
                ok_ids = ids if ok_ids is None else ok_ids & ids

        def pf_ok(r):
            d = dict(g=r[2], h=r[3])
            return all(d[c] is not None and f(d[c]) for c, f in pfs if c != 'sql') and (ok_ids is None or r[0] in ok_ids)
        # partition values
        if part is not None:
            got = set(db.execute(render(part.query)).fetchall())
            want = set(tuple(r[2 + i] for i in range(nG)) for r in rows if pf_ok(r))
            if got != want:
                fail('partitions', 'partition values differ from the group values of the rows selected by the '
                     'non-time filters', table=rows, got=sorted(got, key=str), want=sorted(want, key=str))
                return
            pvals = sorted(got, key=str)      # NULL group values are partition values too (null-safe executor)
        else:
            pvals = [()]
        for p in pvals:
            pd = dict(zip(GROUPS, p))
            fetched = []
            for f in subs:
                fetched += [r[0] for r in db.execute(render(substitute(f.query, pd, nullsafe=True))).fetchall()]
            base = [r for r in rows if r[1] is not None and pf_ok(r) and all(r[2 + i] == p[i] for i in range(nG))]
            cond = [r for r in base if (tc is None or tc[1](r[1]))]
            cand = [r for r in base if (tc is not None and tc[2] is not None and tc[2](r[1]))]
            tval = {r[0]: r[1] for r in rows}
            why = None
            if len(set(fetched)) != len(fetched):
                why = 'a row is fetched twice'
            else:
                F = set(fetched)
                C = set(r[0] for r in cond)
                K = set(r[0] for r in cand)
                L = F - C
                if not C <= F:
                    why = 'rows satisfying the time condition are missing: ids %s' % sorted(C - F)
                elif not L <= K:
                    why = 'rows fetched that are neither selected nor preceding the lower bound: ids %s' % sorted(L - K)
                elif len(L) != min(case['window'], len(K)):
                    why = 'window part has %d rows, expected min(window=%d, candidates=%d)' % (
                        len(L), case['window'], len(K))
                elif L and K - L and min(tval[i] for i in L) < max(tval[i] for i in K - L):
                    why = 'window rows are not the most recent ones'
            if why:
                fail('rows:%s' % case['cls'], why, table=rows, partition=list(p), fetched=sorted(fetched),
                     cond=sorted(r[0] for r in cond), candidates=sorted(r[0] for r in cand),
                     dates=bool(case.get('dates')),
                     selects=[render(substitute(f.query, pd, nullsafe=True)).replace('\n', ' ') for f in subs])
                return


def kf_match(k, f):
    s = k.get('sig')
    if isinstance(s, list):
        return f.get('sig') in s
    return f.get('sig') == s


# ----------------------------------------------------------------------------------------------- run
FIXED = [
    dict(kind='dom', nG=1, window=3, model_left=False, flags='0000', limit=None, expect=None, cls='eq',
         sql="select * from int.tbl ta join mindsdb.tp3 tb where ta.t = 2", absw='(b eq (i t) (c 2))', tcargs=('eq', 2)),
    dict(kind='dom', nG=1, window=3, model_left=False, flags='0000', limit=0, expect=None, cls='gt',
         sql="select * from int.tbl ta join mindsdb.tp3 tb where ta.t > 2 limit 0", absw='(b gt (i t) (c 2))', tcargs=('gt', 2)),
    dict(kind='rev', nG=1, window=3, model_left=False, flags='0000', limit=None, expect=None, cls='rev_lt',
         sql="select * from int.tbl ta join mindsdb.tp3 tb where 2 < ta.t", absw='(b lt (c 2) (i t))', tcargs=('rev_lt', 2)),
    dict(kind='rej', nG=1, window=3, model_left=False, flags='0000', limit=None, expect='planning', cls=None,
         rej='hidden_tuple', sql="select * from int.tbl ta join mindsdb.tp3 tb where ta.g in (ta.x, 1)",
         absw='(b in (i g 0) (K 1 0 (i x) (K 1 0 (c 1) N)))'),
    dict(kind='rej', nG=1, window=3, model_left=False, flags='0000', limit=None, expect='planning', cls=None,
         rej='hidden_cast', sql="select * from int.tbl ta join mindsdb.tp3 tb where ta.g = cast(ta.x as int)",
         absw='(b eq (i g 0) (K 1 1 (i x) N))'),
    dict(kind='rej', nG=1, window=3, model_left=False, flags='0000', limit=None, expect='planning', cls=None,
         rej='hidden_btw3', sql="select * from int.tbl ta join mindsdb.tp3 tb where ta.g between 1 and (ta.x + 1)",
         absw='(w (i g 0) (c 1) (b bad4 (i x) (c 1)))'),
    dict(kind='rej', nG=1, window=3, model_left=False, flags='0000', limit=None, expect='planning', cls=None,
         rej='bare_operand', sql="select * from int.tbl ta join mindsdb.tp3 tb where ta.g = 1 and ta.g",
         absw='(b and (b eq (i g 0) (c 1)) (i g 0))'),
]


def fixed_cases():
    import random
    out = []
    for c in FIXED:
        c = dict(c)
        c['_pfs'] = []
        c['_tc'] = None
        if c.get('tcargs'):
            cls, k = c['tcargs']
            class R:        # deterministic "rng" returning the constant
                def randrange(self, a, b=None): return k
                def choice(self, xs): return xs[0]
            c['_tc'] = gen_tc(R(), cls)
        out.append(c)
    return out


def strip(case):
    return {k: v for k, v in case.items() if not k.startswith('_')}


def run(chk):
    quick = chk.tier == 'quick'
    deep = (not quick) or bool(chk.broken())
    rng = common.rng_for(chk.seed, 'C15')
    n_cases = 700 if not deep else 6000
    n_tables = 4 if not deep else 8
    cases = fixed_cases() + collision_cases(rng, 240 if not deep else 1500) + [gen_case(rng) for _ in range(n_cases)]
    for _ in range(150 if not deep else 1500):      # statements with more than one time-series join
        cases += gen_multi(rng)
    cases += [gen_dbt(rng) for _ in range(250 if not deep else 2500)]      # data operand written as a sub-select
    dist = {}
    plines, pmeta, elines, emeta = [], [], [], []
    edist = {}
    unabs = 0
    for case in cases:
        key = '%s%s/%s' % ('multi-' if case.get('multi') else 'dbt-' if case.get('dbt') else '', case['kind'], case.get('cls') or case.get('rej') or case.get('misc') or case.get('what'))
        dist[key] = dist.get(key, 0) + 1
        chk.count(case['sql'] + '|%d|%d|%d' % (case['nG'], case['window'], case.get('join_index', 0)))
        # --- the model input is abstracted from the *parsed query* (not from the generator's own idea of it)
        parse_sql = _imports()[0]
        try:
            q = parse_sql(case.get('part_sql') or case['sql'], 'mindsdb')
            if case.get('meta'):
                raise Unabstractable('name-collision stream is probe-only')
            if case.get('dbt'):
                fl, il, ol, iw, ow = dbt_abs(q, case['nG'])
                if case['kind'] != 'dbtx' and (fl, il, ol) != (case['flags'], case['ilim'], case['olim']):
                    chk.oblige('harness:abstraction', 'correspondence', False,
                               'generator/abstraction mismatch (dbt): %s for %s' % ((fl, il, ol), case['sql']))
                case.update(flags=fl, ilim=il, olim=ol, absw_dbt=(iw, ow))
                aw = None
            else:
                aw = None if q.where is None else absW(q.where, case['nG'])
            if case.get('absw') and aw != case['absw']:
                chk.oblige('harness:abstraction', 'correspondence', False,
                           'generator/abstraction mismatch: %s vs %s for %s' % (aw, case['absw'], case['sql']))
            case['absw'] = aw
            line, plan, err = canon_real(case)
            if line != 'unabstractable' and not case.get('python_only'):
                plines.append(model_line(case))
                pmeta.append((case, line, err))
            else:
                unabs += 1
        except Unabstractable:
            unabs += 1
            plan = None
        except Exception as e:       # the generated text does not parse: generator problem, not a verdict
            dist['skipped:' + type(e).__name__] = dist.get('skipped:' + type(e).__name__, 0) + 1
            continue
        # --- probe
        tables = [(gen_table(rng, deep), gen_shops(rng) if case.get('closed') else []) for _ in range(n_tables)]
        fs = probe_case(case, tables)
        for f in fs:
            chk.classify(f, kf_match)
            chk.fail(f)
        # --- eval stream: real selects on sqlite vs model evalSel
        if plan is not None and case['kind'] in ('dom', 'rev') and rng.random() < (0.5 if quick else 1.0):
            try:
                part, subs, data, j = fetch_steps(plan, case)
                rows, shops = tables[0]
                dates = bool(case.get('dates'))
                db = make_db(rows, dates, shops)
                allg = sorted(set(tuple(r[2 + i] for i in range(case['nG'])) for r in rows), key=str)
                groups = [g for g in allg if None not in g][:2] or [tuple([0] * case['nG'])]
                groups += [g for g in allg if None in g][:1]          # one partition record with a NULL
                cell = lambda v: 'n' if v is None else str(v)
                for p in groups:
                    pd = dict(zip(GROUPS, p))
                    for mode in (('E', 'F') if None in p else ('E',)):
                        for f in subs:
                            w = absW(f.query.where, case['nG'])
                            if correlated(f.query.where):      # absW drops qualifiers; the model's sub-queries are uncorrelated
                                edist['skipped_correlated_subquery'] = edist.get('skipped_correlated_subquery', 0) + 1
                                continue
                            if 'O' in w or 'L' in w or not evaluable(w):
                                edist['skipped_outside_ev'] = edist.get('skipped_outside_ev', 0) + 1
                                continue
                            edist['with_subquery' if '(S ' in w else 'plain'] = edist.get('with_subquery' if '(S ' in w else 'plain', 0) + 1
                            got = db.execute(render(substitute(f.query, pd, nullsafe=(mode == 'F')))).fetchall()
                            if dates:
                                got = [(r[0], day_of(r[1])) + tuple(r[2:]) for r in got]
                            lim = '-' if f.query.limit is None else str(f.query.limit.value)
                            if '(S ' in w:      # sub-queries select from the second table
                                elines.append('%sS %s %s %s %s %s' % (mode, ','.join(map(cell, p)) or '-', row_line(rows, case['nG']),
                                                                     row_line(shops, case['nG']), lim, w))
                            else:
                                elines.append('%s %s %s %s %s' % (mode, ','.join(map(cell, p)) or '-',
                                                                  row_line(rows, case['nG']), lim, w))
                            emeta.append((case['sql'], rows, p, got, f.query.limit is None, case['nG']))
            except (Unabstractable, sqlite3.Error):
                pass
    # ---- plan correspondence
    try:
        outs = common.lean_run('TS', plines)
        div, first = 0, None
        for (case, line, err), o in zip(pmeta, outs):
            if o != line:
                div += 1
                if first is None:
                    first = dict(sql=case['sql'], nG=case['nG'], window=case['window'], model_in=model_line(case),
                                 model=o, impl=line, impl_err=err)
        dist['unabstractable_or_python_only'] = unabs
        chk.corr_result('plan', len(plines), div, first, dist)
    except Exception as e:
        chk.oblige('corr:plan', 'correspondence', False, 'driver failed: %s' % e)
    # ---- eval correspondence
    try:
        outs = common.lean_run('TS', elines) if elines else []
        div, first = 0, None
        for (sql, rows, p, got, unlimited, nG), o, l in zip(emeta, outs, elines):
            mrows = [] if o == '-' else [tuple(None if c == 'n' else int(c) for c in r.split(',')) for r in o.split(';')]
            grows = [tuple([r[1]] + [r[2 + i] for i in range(nG)]) for r in got]
            same = [r[0] for r in mrows] == [r[0] for r in grows] and \
                (not unlimited or sorted(mrows, key=str) == sorted(grows, key=str))
            if not same:
                div += 1
                if first is None:
                    first = dict(sql=sql, line=l, model=o, sqlite=grows)
        chk.corr_result('eval', len(elines), div, first, edist)
    except Exception as e:
        chk.oblige('corr:eval', 'correspondence', False, 'driver failed: %s' % e)
    for case, line, err in pmeta[:2] + pmeta[-2:]:
        chk.samples.append(dict(sql=case['sql'], nG=case['nG'], window=case['window'], impl=line[:400]))
    chk.samples.append(dict(theorem='C15_rows: ∀ cfg m q tc, plain q → Dom m.nG tc q.whereC → ∃ pl, planTS cfg m q = ok pl ∧ ∀ e T, '
                            'envOk e m.nG → ∃ L, WindowSpec m.window e m.nG tc q.whereC T L ∧ (fetched e T pl.selects).Perm (condRows e m.nG tc q.whereC T ++ L)'))
    chk.samples.append(dict(theorem='C15_rows_spellings: ∀ m q tl w, q.whereC = some w → plain q → tcTree m.nG tl.toW w → ∃ pl, planTS Cfg.pinned m q = ok pl ∧ '
                            '∀ e T, envOk e m.nG → ∃ L, WindowSpecL m.window e m.nG tl w T L ∧ (fetched e T pl.selects).Perm (condRowsL e m.nG tl w T ++ L)'))
    chk.samples.append(dict(theorem='C15_dbt_limit: planDbt cfg m outer inner = ok pl → pl.limitStep = minLimit inner.limit outer.limit '
                            '(= some (min a b) when both are present, the present one otherwise)'))
    chk.samples.append(dict(theorem='C15_reject_where: q.whereC = some w → w.isOperation → (opsOk w = false ∨ colsOk m.nG w = false ∨ andOk w = false) → '
                            'planTS Cfg.pinned m q = planning;  C15_no_crash: planTS cfg m q ≠ crash;  C15_otf_partial: output filter = user condition except `t = c` (KF-C15-1)'))
    chk.samples.append(dict(theorem='C15_plan_subqueries: q.whereC = some w → planTS cfg m q = ok pl → (∀ t, findTF w = one t → closedNodes t = []) → '
                            '(∀ s ∈ pl.selects, closedNodes s.whereC = closedNodes w) ∧ (partition WHERE likewise);  C15_replace_conjuncts: flatTree w → '
                            'replaceTF tf new w = mapConj (fun c => if c = tf then new else c) w;  C15_witness_deep_replace / _rows: replaceDeep differs'))
    return chk.finish(assumptions=ASSUME)


def replay(path):
    data = json.load(open(path))
    f = data.get('failure')
    if not f:
        print(json.dumps(data, indent=1)[:3000])
        return 1
    print('failure:', json.dumps({k: v for k, v in f.items() if k not in ('class',)}, default=str)[:1500])
    case = dict(sql=f['sql'], nG=f['nG'], window=f['window'], meta=f.get('meta'), models=f.get('models'), cat=f.get('cat'),
                join_index=f.get('join_index', 0), n_joins=f.get('n_joins', 1), dbt=f.get('dbt'), part_sql=f.get('part_sql'))
    line, plan, err = canon_real(case)
    print('real plan now:', line, err or '')
    if f['sig'].startswith(('subquery-rewritten', 'dbt-subquery-captured')) and plan is not None:
        part, subs, data_step, j = fetch_steps(plan, case)
        want = user_subselects(case)
        bad = [(str(x.query), subselects_of(x.query.where)) for x in subs + ([part] if part is not None else [])
               if subselects_of(x.query.where) != want]
        print('  sub-queries the user wrote :', want)
        for q, got in bad[:2]:
            print('  sent to the data source    :', got, '\n     in', q)
        print('REPRODUCED' if bad else 'the sub-queries reach the data source as written')
        return 1 if bad else 0
    if f.get('table') is not None and plan is not None:
        part, subs, data_step, j = fetch_steps(plan, dict(nG=f['nG'], join_index=f.get('join_index', 0), n_joins=f.get('n_joins', 1)))
        db = make_db([tuple(r) for r in f['table']], bool(f.get('dates')), f.get('shops') or ())
        pd = dict(zip(GROUPS, f.get('partition', [])))
        got = []
        for s in subs:
            sql = render(substitute(s.query, pd, nullsafe=True)).replace('\n', ' ')
            r = [x[0] for x in db.execute(sql).fetchall()]
            print('  ', sql, '->', r)
            got += r
        same = sorted(got) == f.get('fetched')
        print('REPRODUCED' if same else 'fetched rows differ from the recorded failure', sorted(got))
        return 1 if same else 0
    print('REPRODUCED' if (f['sig'].startswith(('otf', 'limit', 'not-rejected', 'reject-crash')) ) else 'see above')
    return 1
