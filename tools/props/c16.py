"""C16 — queries embedded in MindsDB commands are stored verbatim (up to whitespace and comments)."""
import copy, json, os, re, sys
from tools.harness import common, streams

ID = 'C16'
TARGETS = ['MindsVerif.Props.C16']
THEOREMS = ['MindsVerif.Props.C16.' + n for n in (
    'C16', 'C16_command', 'C16_link', 'C16_link_nonvacuous', 'C16_regression_multiline', 'phi_mindsdb', 'mw_parsed', 'mw_plus_kinds', 'sepStable_witness_plus',
    'sepStable_others', 'C16_partial', 'C16_partial_command', 'C16_layout', 'C16_closed_form', 'C16_columns', 'C16_render_blankSep',
    'C16_layout_source', 'C16_blank_spec', 'C16_rawquery', 'C16_fixed', 'C16_live_cfg', 'phi16_mindsdb', 'pin_tokenFuncs',
    'pin_rewriting', 'pin_ignored',
    'C16_review_layout_source_live', 'C16_review_storedSpec_length',
    'C16_regress_pinned_1', 'C16_regress_pinned_2', 'C16_regress_pinned_3', 'C16_regress_pinned_4', 'C16_regress_pinned_5',
    'C16_regress_pinned_full_false')]
ASSUME = [
    'hand models (MindsVerif.TokStr): tokens_to_string (body of /repo bd184d7: lineno = line a token starts on, line_num += newlines in '
    'the value), the four raw_query actions, the token actions under the regenerated configuration Gen.C16Data.actCfg; tie = '
    'correspondence tokstr (real tokens of the real embedding commands, every token value, the string stored in the AST; synthetic '
    'arbitrary token lists)',
    'source-layout model (TokStr.Seg / place / blank / storedSpec / sourceText): tie = correspondence layout (generated (gap, lexeme) '
    'layouts through the real lexer and the real tokens_to_string: lineno / index / value of every token, stored text, source text)',
    'multi-word keyword scanner model (MindsVerif.MultiWord): tie = correspondence multiword against the real lexer; Python Unicode '
    'classes of \\s and \\b are read as ASCII',
    'the full regex scanner is not modelled: that re-lexing / re-parsing the stored text gives the same tokens / tree is the '
    'impl-level oracle of this run, not a theorem',
    'C16_link is about the LR driver model and the exported grammar (C05 parse_good + phi16_mindsdb); that the embedding actions '
    'store tokens_to_string(p.raw_query) unchanged and that SLY hands each action its children\'s values is tied by the glue part of '
    'tokstr and the slice check of this run (impl:rawquery-slice)',
    'translator: Gen.C16Data.actCfg flags are the syntactic test "the action function assigns <token>.value" (cross-checked by the '
    'token-value part of tokstr)',
]

Q_TYPES = {'QUOTE_STRING': 'q', 'DQUOTE_STRING': 'd', 'VARIABLE': 'v', 'SYSTEM_VARIABLE': 's'}
STRINGS = ('QUOTE_STRING', 'DQUOTE_STRING')
VARS = ('VARIABLE', 'SYSTEM_VARIABLE')


def side():
    return json.load(open(os.path.join(common.ROOT, 'gen', 'c16.json')))


# ------------------------------------------------------------------ the embedding commands
def _q(a):
    return a.query_str


COMMANDS = [
    ('create_model', 'CREATE MODEL m FROM db ({q}) PREDICT y', _q),
    ('create_predictor', 'CREATE PREDICTOR m FROM db ({q}) PREDICT y USING a=1', _q),
    ('create_model_noint', 'CREATE OR REPLACE MODEL IF NOT EXISTS m FROM ({q}) PREDICT y', _q),
    ('anomaly', 'CREATE ANOMALY DETECTION MODEL m FROM db ({q}) PREDICT y', _q),
    ('retrain', 'RETRAIN m FROM db ({q})', _q),
    ('retrain_model', 'RETRAIN MODEL m FROM ({q}) PREDICT y', _q),
    ('finetune', 'FINETUNE m FROM db ({q})', _q),
    ('finetune_model', 'FINETUNE MODEL m FROM ({q})', _q),
    ('evaluate', 'EVALUATE m FROM ({q})', _q),
    ('evaluate_using', 'EVALUATE m FROM ({q}) USING a=1', _q),
    ('create_view', 'CREATE VIEW v FROM db ({q})', _q),
    ('create_view_as', 'CREATE VIEW IF NOT EXISTS v AS ({q})', _q),
    ('create_job', "CREATE JOB j ({q}) START 'now' EVERY 2 hours", _q),
    ('create_job_if', 'CREATE JOB j AS ({q}) EVERY hour IF ({q2})', lambda a: (a.query_str, a.if_query_str)),
    ('create_job_if2', 'CREATE JOB IF NOT EXISTS p.j ({q}) IF ({q2})', lambda a: (a.query_str, a.if_query_str)),
    ('create_trigger', 'CREATE TRIGGER t ON db.tbl ({q})', _q),
    ('create_trigger_cols', 'CREATE TRIGGER t ON db.tbl COLUMNS a, b ({q})', _q),
    ('native', 'SELECT * FROM db ({q})', lambda a: a.from_table.query),
    ('native_join', 'SELECT * FROM db ({q}) AS t JOIN m', lambda a: a.from_table.left.query),
    ('native_where', 'SELECT a FROM db ({q}) WHERE a = 1 LIMIT 3', lambda a: a.from_table.query),
]
CMD = {c[0]: c for c in COMMANDS}

# ------------------------------------------------------------------ inner text generator
KW = ['select', 'from', 'where', 'and', 'or', 'not', 'in', 'is', 'null', 'like', 'group by', 'order by', 'limit', 'join', 'on',
      'as', 'case', 'when', 'then', 'else', 'end', 'between', 'union', 'all', 'distinct', 'is not', 'not in', 'not like',
      'is  not', 'desc', 'asc', 'left', 'having', 'offset', 'true', 'false', 'cast', 'interval', 'using', 'predict',
      'latest', 'date', 'SELECT', 'From', 'nulls first', 'exists', 'not exists', 'partition by', 'over', 'insert', 'into',
      'values', 'update', 'set', 'delete', 'retrain', 'show', 'tables']
IDS = ['a', 'b', 't1', 'tbl', 'col_1', '`a b`', '`select`', 'x.y', '`a`.`b`', '$x', '_z', 'x1y', 'Abc', '12abc', '`é`', 'T_2']
NUMS = ['0', '1', '42', '007', '1.5', '0.00001', '10.0', '1e5', '3.', '100000000000000000000', '1.50']
STR_PLAIN = ["'a'", "'abc def'", '"x"', '"a b"', "'1'", "'a)b'", "'(('", "'-- x'", "'/* y */'", "'@v'", '"it\'s"',
             "'say \"hi\"'", "'multi\nline'", '""', "'  pad  '", "'é中'", "'a\\nb'", "'2020-01-01'", "'%a_'"]
STR_REWR = ["''", "'it''s'", "'a\\'b'", "'say \\\"hi\\\"'", '"a\\"b"', '"it\\\'s"', "''''", "'a\\\\'", "'''a'", "'a'''",
            "'x''y''z'", '"\\""']
STR_MULTI = ["'Dear customer,\nthank you'", "'a\nb'", "'l1\n\nl3'", "'\nlead'", "'trail\n'", "'a\r\nb'", "'x\n  y\n z'",
             '"a\nb"', '"two\n\nlines"', '"\n"', "'\n'", "'-- no\ncomment'", "'( \n'"]
VARL = ['@v', '@@sys', '@a.b', "@'a b'", '@`x`', '@"y"', '@@`g`', '@$v', '@@session.x']
OPS = ['=', '<>', '!=', '<', '<=', '>', '>=', '+', '-', '*', '/', '%', '||', ',', '.', ';', ':', '::', '->', '->>', '?',
       '{', '}', '[', ']', '~', '!~']
SEPS = [' '] * 8 + ['  ', '\t', '\n', '\n\n', '\n   ', ' \n', ' /* c */ ', '/*c*/', ' -- c\n', '/* m\nl */', '\r\n', '     ', '',
                    '--\n', ' /* ) ( */ ', "/*'*/"]


def atom(rng, p_rewr):
    r = rng.random()
    if r < 0.30:
        return rng.choice(IDS)
    if r < 0.45:
        return rng.choice(NUMS)
    if r < 0.45 + p_rewr / 2:
        return rng.choice(STR_REWR)
    if r < 0.45 + p_rewr:
        return rng.choice(VARL)
    return rng.choice(STR_PLAIN)


def soup(rng, n, depth, p_rewr):
    out = []
    while len(out) < n:
        r = rng.random()
        if r < 0.12 and depth < 3:
            inner = soup(rng, rng.randint(0, max(1, n // 2)), depth + 1, p_rewr)
            out += ['('] + inner + [')']
        elif r < 0.35:
            out.append(rng.choice(KW))
        elif r < 0.55:
            out.append(rng.choice(OPS))
        else:
            out.append(atom(rng, p_rewr))
    return out


def expr(rng, depth, p_rewr):
    r = rng.random()
    if depth >= 3 or r < 0.4:
        return [atom(rng, p_rewr)]
    if r < 0.6:
        return expr(rng, depth + 1, p_rewr) + [rng.choice(['=', '<>', '<', '>=', '+', '-', '*', '/', 'and', 'or', 'like',
                                                            'in', 'not in', 'is', 'is not', '||', '%'])] + expr(rng, depth + 1, p_rewr)
    if r < 0.7:
        return ['('] + expr(rng, depth + 1, p_rewr) + [')']
    if r < 0.8:
        return [rng.choice(['f', 'count', 'max', 'coalesce']), '('] + expr(rng, depth + 1, p_rewr) + [')']
    if r < 0.85:
        return ['now', '(', ')']
    if r < 0.9:
        return ['not'] + expr(rng, depth + 1, p_rewr)
    if r < 0.95:
        return ['(', 'select'] + expr(rng, depth + 1, p_rewr) + [')']
    return ['case', 'when'] + expr(rng, depth + 1, p_rewr) + ['then'] + expr(rng, depth + 1, p_rewr) + ['end']


def select(rng, p_rewr):
    out = ['select']
    for i in range(rng.randint(1, 3)):
        if i:
            out.append(',')
        out += expr(rng, 1, p_rewr)
        if rng.random() < 0.2:
            out += ['as', rng.choice(['c1', '`c 2`'])]
    if rng.random() < 0.85:
        out += ['from', rng.choice(['t', 'db.t', '`my t`', 'a.b.c'])]
        if rng.random() < 0.2:
            out += ['join', 't2', 'on'] + expr(rng, 2, p_rewr)
        if rng.random() < 0.6:
            out += ['where'] + expr(rng, 1, p_rewr)
        if rng.random() < 0.2:
            out += ['group by', rng.choice(IDS[:5])]
        if rng.random() < 0.2:
            out += ['order by', rng.choice(IDS[:5]), rng.choice(['', 'desc', 'asc'])]
        if rng.random() < 0.3:
            out += ['limit', rng.choice(NUMS[:3])]
    return [x for x in out if x != '']


def join(rng, lexs, calm=False):
    seps = [' ', ' ', ' ', '\n', '  ', '\n  '] if calm else SEPS
    parts = []
    for i, l in enumerate(lexs):
        if i:
            s = rng.choice(seps)
            if s == '' and (parts[-1][-1:].isalnum() or parts[-1][-1:] in '_$') and (l[:1].isalnum() or l[:1] in '_$'):
                s = ' '
            parts.append(s)
        parts.append(l)
    return ''.join(parts)


def join_tight(rng, lexs):
    """multi-line literals followed / preceded with and without blanks, at line starts and ends"""
    parts = []
    for i, l in enumerate(lexs):
        if i:
            near = '\n' in l or '\n' in lexs[i - 1]
            s = rng.choice(['', '', '', ' ', '\n', '  ', ' \n', '\n  '] if near else [' ', ' ', ' ', '', '\n', '  '])
            if s == '' and (parts[-1][-1:].isalnum() or parts[-1][-1:] in '_$') and (l[:1].isalnum() or l[:1] in '_$'):
                s = ' '
            parts.append(s)
        parts.append(l)
    return ''.join(parts)


def gen_mlstr(rng):
    lexs = select(rng, 0.0) if rng.random() < 0.7 else soup(rng, rng.randint(2, 15), 0, 0.0)
    idx = [i for i, l in enumerate(lexs) if l[:1] in '\'"' or l in IDS or l in NUMS]
    rng.shuffle(idx)
    for i in idx[:rng.randint(1, 3)]:
        lexs[i] = rng.choice(STR_MULTI)
    if not idx:
        lexs.insert(rng.randint(1, len(lexs)), rng.choice(STR_MULTI))
    if rng.random() < 0.5:   # literal glued to an operator / identifier / keyword on both sides
        k = rng.randrange(len(lexs) + 1)
        lexs[k:k] = [rng.choice(['||', '=', '+', ',', 'and', 'x', 'like', 'in', '(']), rng.choice(STR_MULTI),
                     rng.choice(['||', 'AS', 'and', 'name', '+', ',', 'from', ')', 'is not', 'c1'])]
        if lexs[k] == '(' or lexs[k + 2] == ')':
            lexs[k], lexs[k + 2] = '(', ')'
    return 'mlstr', join_tight(rng, lexs[:40])


def gen_inner(rng, corpus_sel):
    if rng.random() < 0.2:
        return gen_mlstr(rng)
    mode = rng.choice(['soup', 'select', 'select', 'corpus'])
    p_rewr = rng.choice([0.0, 0.0, 0.0, 0.15, 0.4])
    if mode == 'soup':
        lexs = soup(rng, rng.randint(1, 25), 0, p_rewr)
    elif mode == 'select':
        lexs = select(rng, p_rewr)
    else:
        lexs = list(rng.choice(corpus_sel))
        if p_rewr:
            for i, l in enumerate(lexs):
                if l[:1] in '\'"' and rng.random() < p_rewr:
                    lexs[i] = rng.choice(STR_REWR + VARL)
    if len(lexs) > 40:
        lexs = lexs[:40]
        lexs = [x for x in lexs if x not in '()']
    return mode, join(rng, lexs, calm=rng.random() < 0.3)


# ------------------------------------------------------------------ the real side
class Real:
    def __init__(self):
        from mindsdb_sql import parse_sql
        from mindsdb_sql.parser.dialects.mindsdb.lexer import MindsDBLexer
        import mindsdb_sql.parser.dialects.mindsdb.parser as pmod
        self.parse_sql, self.Lexer, self.pmod = parse_sql, MindsDBLexer, pmod
        self.orig = getattr(pmod.tokens_to_string, '_c16_orig', pmod.tokens_to_string)
        self.calls = []
        real = self

        def wrapper(tokens):
            rec = dict(tokens=list(tokens) if isinstance(tokens, (list, tuple)) else tokens)
            real.calls.append(rec)
            try:
                rec['out'] = real.orig(tokens)
            except Exception as e:
                rec['exc'] = '%s: %s' % (type(e).__name__, str(e)[:100])
                raise
            return rec['out']
        wrapper._c16_orig = self.orig
        pmod.tokens_to_string = wrapper
        self.multi = set(side()['multiword'])

    def lex(self, text):
        return list(self.Lexer().tokenize(text))

    def canon(self, text):
        out = []
        for t in self.lex(text):
            s = text[t.index:t.end]
            if t.type in self.multi:
                out.extend(s.split())
            else:
                out.append(s)
        return out

    def tree(self, text):
        try:
            return self.parse_sql(text, 'mindsdb').to_tree(), None
        except Exception as e:
            return None, '%s: %s' % (type(e).__name__, str(e)[:80].replace('\n', '|'))


def enc(s):
    return '.'.join(str(ord(c)) for c in s)


def dec(s):
    s = s.strip()
    return ''.join(chr(int(x)) for x in s.split('.')) if s else ''


def model_line(full, toks, explicit=False):
    out = []
    for t in toks:
        ty = Q_TYPES.get(t.type, 'o')
        src = full[t.index:t.end] if full is not None else t.src
        item = '%s:%d:%d:%s' % (ty, t.lineno, t.index, enc(src))
        if explicit:
            item += ':' + enc(t.value)
        out.append(item)
    return ' '.join(out)


def tok_key(t):
    return (t.type, t.value, t.lineno, t.index)


def oracle(R, inner, stored):
    """the property's own oracle on one (inner text, stored text) pair -> None or (kind, detail)"""
    if not isinstance(stored, str):
        return 'type', 'stored value is %r' % type(stored).__name__
    want = R.canon(inner)
    try:
        got = R.canon(stored)
    except Exception as e:
        return 'text', 'stored text does not lex: %s' % str(e)[:80].replace('\n', '|')
    if got != want:
        i = next((k for k, (a, b) in enumerate(zip(got, want)) if a != b), min(len(got), len(want)))
        return 'text', 'token %d: stored %r, written %r' % (i, got[i] if i < len(got) else None, want[i] if i < len(want) else None)
    t_in, _ = R.tree(inner)
    if t_in is not None:
        t_st, err = R.tree(stored)
        if t_st is None:
            return 'tree', 'inner text parses on its own, stored text does not: %s' % err
        if t_st != t_in:
            return 'tree', 'stored text parses to a different tree'
    return None


def is_comment_not(R, inner, stored):
    """class of KF-C16-3: IS <comment> NOT in the inner text; stored tree = tree of the inner text with comments blanked"""
    toks = R.lex(inner)
    hit = False
    for a, b in zip(toks, toks[1:]):
        gap = inner[a.end:b.index]
        if a.type == 'IS' and b.type == 'NOT' and ('/*' in gap or '--' in gap):
            hit = True
    if not hit:
        return False
    # blank everything that lies between tokens (gaps hold only whitespace and comments)
    out, pos = [], 0
    for t in toks:
        out.append(re.sub(r'\S', ' ', inner[pos:t.index]))
        out.append(inner[t.index:t.end])
        pos = t.end
    out.append(re.sub(r'\S', ' ', inner[pos:]))
    blanked = ''.join(out)
    return R.tree(blanked)[0] is not None and R.tree(blanked)[0] == R.tree(stored)[0]


def eval_case(R, cname, inners, pads, prefix=''):
    """run one embedding command on the real parser.
    returns dict(status, failures, lines (model inputs), expects (real outputs), info)"""
    _, tmpl, getter = CMD[cname]
    spans = {}
    text = prefix
    pos = 0
    for m in re.finditer(r'\{(q2?)\}', tmpl):
        text += tmpl[pos:m.start()]
        key = m.group(1)
        pre, post = pads[key]
        spans[key] = (len(text), len(text) + len(pre) + len(inners[key]) + len(post))
        text += pre + inners[key] + post
        pos = m.end()
    text += tmpl[pos:]
    res = dict(status='ok', failures=[], lines=[], expects=[], text=text, n_rewritten=0, n_tokens=0)
    base = dict(command=cname, text=text, inners=inners, pads=pads, prefix=prefix)
    # ground truth tokens of the whole command
    try:
        full = R.lex(text)
    except Exception:
        res['status'] = 'lexerror'
        return res
    inner_toks = {}
    for key, (s, e) in spans.items():
        inside = [t for t in full if s <= t.index and t.end <= e]
        straddle = [t for t in full if (t.index < s < t.end) or (t.index < e < t.end)]
        before = [t for t in full if t.end <= s]
        after = [t for t in full if t.index >= e]
        depth, okb = 0, True
        for t in inside:
            depth += (t.type == 'LPAREN') - (t.type == 'RPAREN')
            okb = okb and depth >= 0
        if straddle or not inside or not okb or depth != 0 or not before or before[-1].type != 'LPAREN' \
                or not after or after[0].type != 'RPAREN' or text[after[0].index] != ')':
            res['status'] = 'invalid-embedding'
            return res
        inner_toks[key] = inside
    R.calls.clear()
    try:
        ast = R.parse_sql(text, 'mindsdb')
    except Exception as e:
        crashed = [c for c in R.calls if 'exc' in c]
        if crashed:
            res['failures'].append(dict(base, kind='crash', desc='tokens_to_string raised %s' % crashed[0]['exc'],
                                        **{'class': 'crash'}))
            res['status'] = 'crash'
        else:
            res['status'] = 'rejected'
        return res
    calls = list(R.calls)
    try:
        stored = getter(ast)
    except Exception as e:
        res['status'] = 'other-tree'
        return res
    if not isinstance(stored, tuple):
        stored = (stored,)
    keys = ['q', 'q2'][:len(stored)]
    if len(calls) != len(keys):
        res['failures'].append(dict(base, kind='slice', desc='tokens_to_string called %d times for %d embedded queries'
                                                            % (len(calls), len(keys)), **{'class': 'slice'}))
        return res
    for key, st, call in zip(keys, stored, calls):
        want = inner_toks[key]
        got = call['tokens']
        res['n_tokens'] += len(want)
        # T16.3 on the implementation: the action received exactly the tokens between the parentheses
        sliced = [tok_key(t) for t in got] == [tok_key(t) for t in want]
        if not sliced:
            res['slice_mismatch'] = dict(base, key=key, desc='raw_query handed %d tokens to tokens_to_string, %d lie between '
                                         'the parentheses' % (len(got), len(want)))
            bad = oracle(R, inners[key], st)
            if bad:
                res['failures'].append(dict(base, kind=bad[0], key=key, inner=inners[key], stored=st, explained_by=None,
                                            desc='%s query of %s: %s (inner %r stored %r); raw_query handed %d tokens to '
                                                 'tokens_to_string, %d lie between the parentheses'
                                                 % (key, cname, bad[1], inners[key][:80], str(st)[:80], len(got), len(want)),
                                            **{'class': bad[0] + '/slice'}))
            continue
        res['lines'].append(model_line(text, want))
        res['expects'].append(dict(out=call['out'], values=[t.value for t in want], stored=st, key=key))
        rew_s = [t for t in want if t.type in STRINGS and t.value != text[t.index:t.end]]
        rew_v = [t for t in want if t.type in VARS and t.value != text[t.index:t.end]]
        res['n_rewritten'] += len(rew_s) + len(rew_v)
        inner = inners[key]
        bad = oracle(R, inner, st)
        if bad:
            f = dict(base, kind=bad[0], key=key, inner=inner, stored=st,
                     desc='%s query of %s: %s (inner %r stored %r)' % (key, cname, bad[1], inner[:80], str(st)[:80]))
            # causal classification: does undoing the value rewriting of one token class repair it?
            expl = None
            for name, classes in (('strings', STRINGS), ('variables', VARS), ('strings+variables', STRINGS + VARS)):
                if not (rew_s if name == 'strings' else rew_v if name == 'variables' else (rew_s and rew_v)):
                    continue
                cp = []
                for t in want:
                    t2 = copy.copy(t)
                    if t.type in classes:
                        t2.value = text[t.index:t.end]
                    cp.append(t2)
                try:
                    rep = R.orig(cp)
                except Exception:
                    continue
                if st != call['out']:
                    continue
                left = oracle(R, inner, rep)
                if left is None:
                    expl = name
                    break
                if left[0] == 'tree' and is_comment_not(R, inner, rep):
                    # what remains after the repair is exactly the IS <comment> NOT class (KF-C16-3)
                    expl = name
                    f['also'] = 'is-comment-not'
                    break
            if expl is None and bad[0] == 'tree' and not rew_s and not rew_v and is_comment_not(R, inner, st):
                expl = 'is-comment-not'
            f['explained_by'] = expl
            f['class'] = '%s/%s' % (bad[0], expl)
            res['failures'].append(f)
    return res


def kf_match(k, f):
    sig = k.get('signature', {})
    return f.get('explained_by') is not None and f.get('explained_by') in sig.get('explained_by', [])


class Fake:
    """token stand-in for the synthetic stream"""
    def __init__(self, type, value, src, lineno, index):
        self.type, self.value, self.src, self.lineno, self.index = type, value, src, lineno, index
        self.end = index + len(src)


def synthetic(rng):
    """arbitrary token lists (also ones no lexer produces: overlapping, decreasing linenos, values longer than sources)"""
    n = rng.randint(1, 8)
    toks = []
    idx, ln = rng.randint(0, 30), rng.randint(1, 5)
    wild = rng.random() < 0.5
    for i in range(n):
        src = ''.join(rng.choice('ab\'"@\\ \n`x') for _ in range(rng.randint(0, 5)))
        val = src if rng.random() < 0.6 else ''.join(rng.choice('ab\' \n') for _ in range(rng.randint(0, 7)))
        if i:
            if wild and rng.random() < 0.3:
                idx = max(0, idx - rng.randint(0, 6))
                ln = max(0, ln + rng.randint(-1, 1))
            else:
                gap = rng.randint(0, 4)
                if rng.random() < 0.3:
                    ln += rng.randint(1, 2)
                    gap += 0 if wild and rng.random() < 0.3 else 1
                idx += gap
        toks.append(Fake(rng.choice(['QUOTE_STRING', 'DQUOTE_STRING', 'VARIABLE', 'SYSTEM_VARIABLE', 'ID', 'ID', 'ID']),
                         val, src, ln, idx))
        idx += len(val) if rng.random() < 0.8 else len(src)
    return toks


MW_GAPS = [' ', '  ', '\t', '\n', '_', '|', '', ' /*c*/ ', '/**/', ' -- c\n', '--\n', '\r\n', ' \n ', '__', 'x', '       ',
           '\n      ', '\x0b', '\x0c', '/* a\nb */']
MW_PREV = ['', ' ', 'a', '_', '(', '1', '\n', '.']
MW_TAIL = ['', ' x', 'S', '_', '(', '1', ' ', '\n', ',']


def multiword_corr(chk, R, rng, n):
    """the multi-word keyword scanner model (MultiWord.mwMatch) against the real lexer: is the token that starts at the
    first word the keyword token, and how long is it"""
    sd = side()
    lines, expect, metas = [], [], []
    names = sd['multiword']
    cases = []
    for name in names:       # every gap once with neutral context, then random contexts
        w1, w2 = re.findall(r'[A-Z]+', sd['multiword_re'][name].replace('\\b', ' ').replace('\\s', ' '))[:2]
        for g in MW_GAPS:
            cases.append((name, w1, w2, '', g, ' x'))
        for _ in range(n):
            cases.append((name, w1, w2, rng.choice(MW_PREV), rng.choice(MW_GAPS), rng.choice(MW_TAIL)))
    for name, w1, w2, prev, g, tail in cases:
        a = ''.join(c.lower() if rng.random() < 0.5 else c for c in w1)
        b = ''.join(c.lower() if rng.random() < 0.5 else c for c in w2)
        body = a + g + b + tail
        text = prev + body
        got = None
        try:
            for t in R.Lexer().tokenize(text):
                if t.index == len(prev):
                    got = (t.end - t.index) if t.type == name else None
                    break
                if t.index > len(prev):
                    break
        except Exception:
            pass
        lines.append('mw %s %s %s' % (name, ord(prev[-1]) if prev else '-', enc(body)))
        expect.append('none' if got is None else 'some %d' % got)
        metas.append(dict(keyword=name, text=text))
        chk.count(('mw', name, text))
    outs = common.lean_run('TokStr', lines)
    bad = [(m, o, e) for m, o, e in zip(metas, outs, expect) if o != e]
    chk.corr_result('multiword', len(lines), len(bad),
                    dict(bad[0][0], model=bad[0][1], impl=bad[0][2]) if bad else None,
                    dict(keywords=len(names), matched=sum(1 for e in expect if e != 'none')))


LAY_GAPS = [' '] * 6 + ['  ', '\t', '\n', '\n\n', '\n   ', ' \n', ' /* c */ ', '/*c*/', ' -- c\n', '/* m\nl */', '\r\n', '     ', '', '',
                        '--\n', ' /* ) ( */ ', "/*'*/", '\t/*c*/\t', '\n-- x\n\n  ']
LAY_PREFIX = ['', '', '\n', '  ', '\n\n   ', '/* head */ ', '-- head\n', '/* a\nb */\n ']


def layout_corr(chk, R, rng, n):
    """the source-layout model (TokStr.Seg / place / blank / storedSpec / sourceText) against the real lexer and the real
    tokens_to_string: a layout is a list of (gap, lexeme); the text is their concatenation after an ignored prefix"""
    pool = KW + IDS + NUMS + STR_PLAIN + STR_REWR + STR_MULTI + VARL + OPS + ['(', ')']
    lines, exps, metas, skipped = [], [], [], 0
    tries = 0
    while len(lines) < n and tries < 4 * n:
        tries += 1
        k = rng.randint(1, 12)
        lex = [rng.choice(pool) if rng.random() < 0.7 else atom(rng, 0.3) for _ in range(k)]
        gaps = [rng.choice(LAY_GAPS) for _ in range(k)]
        prefix = rng.choice(LAY_PREFIX)
        body = ''.join(g + l for g, l in zip(gaps, lex))
        text = prefix + body
        try:
            toks = R.lex(text)
        except Exception:
            skipped += 1
            continue
        if [text[t.index:t.end] for t in toks] != lex:
            skipped += 1          # lexemes merged / split / swallowed by a comment: not a layout of these lexemes
            continue
        try:
            stored = R.orig(toks)
        except Exception as e:
            stored = 'EXC %s' % type(e).__name__
        segs = ' '.join('%s:%d:%s:%s' % (Q_TYPES.get(t.type, 'o'), g.count('\n'), enc(g), enc(l)) for t, g, l in zip(toks, gaps, lex))
        lines.append('lay %d %d %s' % (len(prefix), 1 + prefix.count('\n'), segs))
        exps.append(dict(place=[(t.lineno, t.index, t.value) for t in toks], stored=stored, source=body))
        metas.append(dict(text=text))
        chk.count(('lay', text))
    outs = common.lean_run('TokStr', lines)
    bad = []
    for o, e, m in zip(outs, exps, metas):
        parts = o.split('|')
        why = None
        if len(parts) != 4:
            why = 'driver: ' + o[:100]
        else:
            mp = []
            for x in parts[0].strip().split(';'):
                a, b, c = x.split(':')
                mp.append((int(a), int(b), dec(c)))
            if mp != e['place']:
                j = next((i for i, (x, y) in enumerate(zip(mp, e['place'])) if x != y), 0)
                why = 'place: token %d model (lineno,index,value) %r, lexer %r' % (j, mp[j], e['place'][j])
            elif dec(parts[3]) != e['source']:
                why = 'sourceText differs from the text'
            elif dec(parts[2]) != e['stored']:
                why = 'tokensToString(place …) %r, tokens_to_string %r' % (dec(parts[2]), e['stored'])
            elif dec(parts[1]) != e['stored']:
                why = 'storedSpec %r, tokens_to_string %r' % (dec(parts[1]), e['stored'])
        if why:
            bad.append(dict(m, why=why))
    chk.corr_result('layout', len(lines), len(bad), bad[0] if bad else None,
                    dict(layouts=len(lines), skipped_not_a_layout=skipped,
                         multi_line_lexeme=sum(1 for e in exps if any('\n' in v for _, _, v in e['place'])),
                         line_changes=sum(1 for e in exps if len({l for l, _, _ in e['place']}) > 1)))


def corpus_selects(R):
    out = []
    for text, types, lexs in streams.corpus_tokens('mindsdb'):
        if types and types[0] == 'SELECT' and 2 <= len(types) <= 40 and types.count('LPAREN') == types.count('RPAREN'):
            d, ok = 0, True
            for t in types:
                d += (t == 'LPAREN') - (t == 'RPAREN')
                ok = ok and d >= 0
            if ok:
                out.append(lexs)
    return out or [['select', '1']]


PADS = [('', ''), ('', ''), (' ', ' '), ('\n  ', '\n'), ('\n', ''), (' /* lead */ ', ' '), ('', ' -- tail\n'), ('\t', '\r\n')]
PREFIX = ['', '', '', '\n', '  ', '\n\n   ', '/* head */ ', '-- head\n']

FIXED = ["select 'Dear customer,\nthank you'||name AS greeting from t", 'select "a\nb"||x as y, 2 from t',
         "select 'a\n\nb'+1 c, d from t", "select x from t where a='l1\nl2'and b = 1 or c like'%\n%'or d in('p\nq',2)x",
         "'x\ny'z w", "select\n'a\nb'\n||c d\nfrom t", "select 'a\nb' ,'c\nd'||'e\nf'g h from t", 'select "a\nb"from t where "c\n"=1 and e',
         "select 'trail\n'\n,'\nlead'x y\nfrom t", "select f('a\nb')g h, ('c\n')i j",
         "select a, b from t where d > '2020-01-01' and (s like '%a' or n in (1, 2.50))", "select * from t where name = ''", "select 'it''s'", "select @v, @@sys", 'select "a\\"b"',
         "select a\n\n   from t -- c\nwhere x /* a\nb */ = 1", "select 'a\nb' , c\n from t", 'select f() , (1+2)',
         'select x not /*c*/ in (1)', 'select 1e5, 1.50, 0x1, 007', 'select `a b`', 'select\t1', "select '\\''", 'select ?',
         'select x is\nnot null, b\nfrom t', 'a', '(a)', 'f()', 'a () (b) ((c))', "select 'x' -- ''\n, 2",
         'select * from t1 where a = "" and b = \'\' or c = \'\'\'\'', 'retrain p1', 'select x is /*c*/ not null',
         "select a from t where d > '2020-01-01' and s like '%a'", "select 1;", "select 1 ; select 2"]


def run(chk):
    quick = chk.tier == 'quick'
    broken = bool(chk.broken())
    n_inner = 3000 if quick and not broken else (8000 if quick else 25000)
    n_syn = 1500 if quick else 30000
    R = Real()
    rng = common.rng_for(chk.seed, 'C16')
    csel = corpus_selects(R)
    dist = {}
    lines, expects, metas = [], [], []
    slice_bad = []

    def bump(k):
        dist[k] = dist.get(k, 0) + 1

    def handle(cname, inners, pads, prefix, mode):
        res = eval_case(R, cname, inners, pads, prefix)
        chk.count((cname, res['text']))
        bump('%s/%s' % (cname, res['status']))
        bump('mode/%s/%s' % (mode, res['status']))
        if res['status'] == 'ok':
            bump('ok/with-rewritten-token' if res['n_rewritten'] else 'ok/no-rewritten-token')
            bump('ok/multi-line' if any('\n' in v for v in inners.values()) else 'ok/single-line')
            if any('/*' in v or '--' in v for v in inners.values()):
                bump('ok/with-comment-marker')
        if res.get('slice_mismatch') and not slice_bad:
            slice_bad.append(res['slice_mismatch'])
        for f in res['failures']:
            chk.classify(f, kf_match)
            chk.fail(f)
            bump('failure/%s' % f['class'])
        for l, e in zip(res['lines'], res['expects']):
            lines.append(l)
            expects.append(e)
            metas.append(dict(command=cname, text=res['text'], key=e['key']))
        return res

    # known findings: do the witnesses still fail, and in their class?
    for k in chk.kf:
        if k['status'] == 'open':
            w = k['witness']
            res = eval_case(R, w['command'], {'q': w['inner'], 'q2': 'select 1'}, {'q': ('', ''), 'q2': ('', '')})
            k['_reproduced'] = any(kf_match(k, f) for f in res['failures'])
    # fixed inner texts through every command
    for inner in FIXED:
        for cname, _, _ in COMMANDS:
            handle(cname, {'q': inner, 'q2': 'select 2 from t2'}, {'q': ('', ''), 'q2': (' ', ' ')}, '', 'fixed')
    # generated inner texts
    names = [c[0] for c in COMMANDS]
    for i in range(n_inner):
        mode, inner = gen_inner(rng, csel)
        mode2, inner2 = gen_inner(rng, csel)
        cmds = names if (not quick and i % 10 == 0) else [names[i % len(names)], rng.choice(names)]
        for cname in cmds:
            pads = {'q': rng.choice(PADS), 'q2': rng.choice(PADS)}
            handle(cname, {'q': inner, 'q2': inner2}, pads, rng.choice(PREFIX), mode)
    n_real = len(lines)
    live_rewriting = side().get('rewriting', [])
    chk.oblige('impl:rawquery-slice', 'impl-check', not slice_bad,
               json.dumps(slice_bad[0], ensure_ascii=False)[:1200] if slice_bad else '')
    # synthetic token lists straight into the real tokens_to_string
    syn = []
    for i in range(n_syn):
        toks = synthetic(rng)
        try:
            out = R.orig(toks)
        except Exception as e:
            out = None
            f = dict(kind='crash', desc='tokens_to_string raised %s on a synthetic token list' % type(e).__name__,
                     synthetic=[(t.type, t.value, t.src, t.lineno, t.index) for t in toks], **{'class': 'crash-synthetic'})
            chk.classify(f, kf_match)
            chk.fail(f)
        lines.append(model_line(None, toks, explicit=True))
        expects.append(dict(out=out, values=[t.value for t in toks], stored=out, key='syn'))
        metas.append(dict(synthetic=[(t.type, t.value, t.src, t.lineno, t.index) for t in toks]))
        chk.count(('syn', lines[-1]))
    # correspondence with the Lean model
    try:
        outs = common.lean_run('TokStr', lines)
        diverged, first = 0, None
        thm_bad = None
        for i, (o, e, m) in enumerate(zip(outs, expects, metas)):
            parts = o.split('|')
            why = None
            if len(parts) != 3:
                why = 'driver: ' + o[:100]
            else:
                m_out = dec(parts[0])
                m_vals = [dec(x) for x in parts[1].split(';')]
                flags = dict(x.split('=') for x in parts[2].split())
                if e['out'] is not None and m_out != e['out']:
                    why = 'tokens_to_string: model %r impl %r' % (m_out, e['out'])
                elif m_vals != e['values']:
                    j = next(k for k, (a, b) in enumerate(zip(m_vals, e['values'])) if a != b)
                    why = 'token action: model value %r impl value %r' % (m_vals[j], e['values'][j])
                elif e['stored'] != e['out']:
                    why = 'glue: the command stores %r, tokens_to_string returned %r' % (e['stored'], e['out'])
                if flags.get('wf') == '1' and flags.get('closed') != '1':
                    thm_bad = thm_bad or 'closed form theorem instance fails on ' + lines[i][:200]
                if i < n_real and not live_rewriting and flags.get('verbatim') != '1':
                    thm_bad = thm_bad or 'instance of theorem C16 fails (stored text is not `verbatim`) on ' + lines[i][:200]
                if i < n_real and flags.get('wf') != '1':
                    thm_bad = thm_bad or 'lexer output violates the position invariant WfBy value: ' + lines[i][:200]
            if why:
                diverged += 1
                first = first or dict(m, why=why, model_input=lines[i][:400])
        chk.corr_result('tokstr', len(lines), diverged, first, dist)
        chk.oblige('model:theorem-instances', 'theorem-instance', thm_bad is None, thm_bad or '')
    except Exception as e:
        chk.oblige('corr:tokstr', 'correspondence', False, 'driver failed: %s' % e)
    try:
        layout_corr(chk, R, rng, 1500 if quick else 20000)
    except Exception as e:
        chk.oblige('corr:layout', 'correspondence', False, 'failed: %s' % e)
    try:
        multiword_corr(chk, R, rng, 40 if quick else 400)
    except Exception as e:
        chk.oblige('corr:multiword', 'correspondence', False, 'failed: %s' % e)
    for m, e in list(zip(metas, expects))[:3]:
        chk.samples.append(dict(command=m.get('command'), text=m.get('text', '')[:200], stored=e['stored']))
    live = side().get('rewriting', [])
    chk.samples.append(dict(live_lexer_rewriting_actions=live, applicable='C16_partial only (regression: some token action rewrites t.value again)' if live else 'C16 : C16_full Gen.C16Data.actCfg (full statement, live configuration)'))
    chk.samples.append(dict(theorem='C16_link : parse Tables_mindsdb.tables mode bad ids fuel = .accept t log → Occ t pre (.node p lhs (l ++ q :: r)) post → lhs ≠ rq → q.root = rqc → tks.map tid = ids → ∃ tpre tl tmid tr tpost v, tks = tpre ++ tl :: (tmid ++ tr :: tpost) ∧ tid tl = LPAREN ∧ tid tr = RPAREN ∧ tmid.map tid = q.yield ∧ tmid ≠ [] ∧ closeIdx 0 ((tmid ++ tr :: tpost).map tid) = some tmid.length ∧ toRQ (size q) q (tmid ++ tr :: tpost) = some (v, tr :: tpost) ∧ v.value = tmid ∧ queryStr v = tokensToString tmid ∧ (LexInv actCfg tmid → queryStr v = verbatim tmid)'))
    chk.samples.append(dict(theorem='C16_partial : ∀ c toks, LexInv c toks → Unrewritten c toks → tokensToString toks = verbatim toks'))
    chk.samples.append(dict(theorem='C16_layout_source : ∀ c idx line s r, (∀ x ∈ r, x.dl ≠ 0 → x.gap ≠ []) → (∀ x ∈ s :: r, action c x.type x.src = x.src) → tokensToString (place c idx line (s :: r)) = storedSpec (s :: r)'))
    chk.samples.append(dict(theorem='C16 : C16_full Gen.C16Data.actCfg;  C16_fixed : C16_full fixedCfg  (C16_full c := ∀ toks, LexInv c toks → tokensToString toks = verbatim toks);  regression: C16_regress_pinned_full_false : ¬ C16_full pinnedCfg'))
    chk.samples.append(dict(theorem='C16_review_layout_source_live : ∀ idx line s r, (∀ x ∈ r, x.dl ≠ 0 → x.gap ≠ []) → tokensToString (place Gen.C16Data.actCfg idx line (s :: r)) = storedSpec (s :: r)'))
    return chk.finish(assumptions=ASSUME, extra=dict(impl_probe=dict(
        oracle='canon(lex(stored)) == canon(lex(inner)) (token sources, multi-word keywords split) and, when the inner text '
               'parses on its own, to_tree equality of parse_sql(stored) and parse_sql(inner); slice check of the tokens '
               'handed to tokens_to_string', distribution={k: v for k, v in dist.items() if k.startswith(('failure', 'ok/', 'mode/'))})))


def replay(path):
    data = json.load(open(path))
    f = data.get('failure')
    if not f:
        print(json.dumps(data, indent=1)[:3000])
        return 1
    R = Real()
    if 'synthetic' in f:
        toks = [Fake(*x) for x in f['synthetic']]
        try:
            R.orig(toks)
            print('not reproduced')
            return 0
        except Exception as e:
            print('REPRODUCED', type(e).__name__, f['synthetic'])
            return 1
    res = eval_case(R, f['command'], f['inners'], {k: tuple(v) for k, v in f['pads'].items()}, f.get('prefix', ''))
    bad = [x for x in res['failures'] if x['kind'] == f['kind']]
    if bad:
        print('REPRODUCED', json.dumps(dict(command=f['command'], text=res['text'], desc=bad[0]['desc']), ensure_ascii=False)[:800])
        return 1
    print('not reproduced', res['status'])
    return 0
