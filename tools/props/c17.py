"""C17 — the renderer honours its fallback contract, never leaks internal errors, never mutates its input."""
import json, os, re, sys, traceback, warnings
from tools.harness import common, streams
from tools.harness.common import DIALECTS

ID = 'C17'
TARGETS = ['MindsVerif.Props.C17']
THEOREMS = ['MindsVerif.Props.C17.' + n for n in (
    # T17.1 wrapper
    'C17_wrapper', 'C17_never_raises_iff', 'C17_without_fallback',
    # T17.2 own code: generic, and for the live tables
    'C17_own_tables', 'C17_repaired_clean', 'C17_repaired_own_tables', 'C17_review_live_tables', 'C17_review_live_own_tables',
    'C17_cast_ok', 'C17_param_ok', 'C17_unop_iff', 'C17_table_position', 'C17_create_table_ok', 'C17_insert_dup_iff',
    'C17_func_name_ok', 'C17_func_post_iff', 'C17_live_func_names',
    # T17.3 mutation
    'C17_no_mutation',
    # the property: live tables, exactness, generic forms, refutation of the unconditional statement
    'C17_review_live', 'C17_live_exact', 'C17_exact', 'C17_partial', 'C17_partial_repaired', 'C17_full_false',
    # repaired constructs on the live tables; regression theorems about the OLD tables; postgres scanner
    'C17_fixed_constructs', 'C17_fixed_cast_fallback', 'C17_fixed_serial', 'C17_fixed_join_type', 'C17_repaired_witnesses',
    'C17_regression_tuple_operand', 'C17_regression_insert_dup', 'C17_regression_func_pyattr', 'C17_witness_pg_backtick', 'C17_live_pg', 'C17_pg_scanner_identity',
    'pins', 'core_types')]
ASSUME = [
    'the theorems are about the hand models of Model/Fallback.lean (wrapper incl. the postgres back-tick scanner, own-code exception '
    'classes of get_query / prepare_* / to_table / to_expression / to_function / get_type, the column loop of prepare_create_table); '
    'tie = this run: wrapper correspondence (fallback-on result predicted from the fallback-off behaviour and str(ast)), own-site '
    'exception correspondence in both directions, column-state correspondence, the tables and three probed behaviours '
    '(tupleIsList, dupExc, pgKeepsLiteral), the attribute names of the Python object sa.func with what getattr yields for them '
    '(funcPyAttrs, funcDunderRule, funcGuard) regenerated from the live module',
    'what SQLAlchemy itself raises (function arities, names, type constructor arguments, compile-time errors) is NOT in any theorem: '
    'hypothesis `saQuiet` of C17_review_live / C17_partial; C17_live_exact shows it is exactly one of the two remaining failure modes; '
    'covered only by the impl-level probe of this run (open finding: VARBINARY without length on MySQL, third-party)',
    'str(ast_query) (the fallback printer) is an input of the wrapper model: that it returns is hypothesis `printerTotal`; probed',
    '`shaped` (hypothesis of the live-table theorems) is an invariant of PARSER output, not of the renderer: evaluated by the driver on '
    'every parsed tree of the streams (obligation assume:parser-output-shaped)',
    'no-mutation beyond the modelled column loop rests on the pinned static scan (no attribute store on a non-self base other than '
    'the two on SQLAlchemy elements, no write through an alias of a parameter) and the deep snapshot oracle of the probe',
    'Python str.upper()/lower() and `\\d` are modelled for ASCII; exception classes are compared up to isinstance of the two caught bases',
    'reading: "the tree\'s own SQL string" = str(ast_query); for postgresql without back-tick IDENTIFIER quotes (back-ticks inside '
    'string literals must be kept: checked against an independent scanner)',
]

RD = ['mysql', 'postgresql', 'postgres', 'sqlite', 'mssql', 'oracle', 'Snowflake']
RENDER_FILE = 'sqlalchemy_render.py'

# own-site raises that are decided by SQLAlchemy signatures / values, not by the renderer's tables (not modelled):
UNMODELLED_OWN = [
    ('TypeError', 'to_expression', r'takes no arguments|positional argument|unexpected keyword|missing \d+ required'),
    ('TypeError', 'to_function', r''),
    ('TypeError', 'prepare_create_table', r'takes no arguments|positional argument|unexpected keyword'),
    ('TypeError', 'prepare_update', r'got multiple values for argument'),     # a SET column named like a parameter of sqlalchemy's values()
    # guards that translate a SQLAlchemy signature / naming failure into NotImplementedError:
    # they belong to "SQLAlchemy's part" of the model (`saQuiet`), wherever they are raised
    ('NotImplementedError', r'op|to_function', r'^Function (?!name:)'),     # the NAME check is modelled (funcNameRaise)
    ('NotImplementedError', r'to_expression|prepare_create_table', r'^Type '),
    ('NotImplementedError', r'get_table_name', r'^Table name: '),
    ('NotImplementedError', r'to_column', r'^Empty identifier part'),
]

_render = {}


def renderer(rd):
    if rd not in _render:
        from mindsdb_sql.render.sqlalchemy_render import SqlalchemyRender
        _render[rd] = SqlalchemyRender(rd)
    return _render[rd]


# ---------------------------------------------------------------------------------------------- serialisation
def hx(s):
    return 'x' + str(s).encode('utf-8', 'surrogatepass').hex()


class Ser:
    """dumb transcription of the attributes the renderer reads into the line format of Driver/Fallback.lean"""

    def __init__(self):
        from mindsdb_sql.parser import ast
        self.ast = ast
        self.opaque = False      # a Tuple flows somewhere the model does not follow (see notes)
        self.unmodelled = False  # attribute shapes outside the model (non-str type names, …)
        self.tags = set()

    def al(self, n):
        a = getattr(n, 'alias', None)
        if not a:
            return '-'
        if not hasattr(a, 'parts'):
            self.unmodelled = True
            return '-'
        return str(len(a.parts))

    def tbl(self, n):
        if isinstance(n, self.ast.Identifier):
            if any(not isinstance(p, str) for p in n.parts):
                pass  # Star in a table name: SQLAlchemy decides
            return str(len(n.parts))
        return '-'

    def opt(self, n):
        return '( nil )' if n is None else self.node(n)

    def grp(self, xs):
        return '( grp %s )' % ' '.join(self.node(x) for x in xs) if xs else '( grp )'

    def node(self, t, tuple_ok=False):
        ast = self.ast
        if t is None or isinstance(t, (str, int, float)):
            self.tags.add('raw')
            return '( const - )'
        name = type(t).__name__
        if isinstance(t, ast.Star):
            r = '( star )'
        elif isinstance(t, ast.Last):
            r = '( last )'
        elif isinstance(t, ast.Constant):
            r = '( const %s )' % self.al(t)
        elif isinstance(t, ast.Identifier):
            first = t.parts[0] if t.parts and isinstance(t.parts[0], str) else ''
            if len(t.parts) == 1 and not isinstance(t.parts[0], str):
                self.unmodelled = True
            r = '( ident %d %s %s )' % (len(t.parts), hx(first), self.al(t))
        elif isinstance(t, ast.Select):
            mode = '-' if t.mode is None else ('F' if t.mode == 'FOR UPDATE' else 'O')
            ctes = []
            for c in (t.cte or []):
                has = c.columns is not None and len(c.columns) > 0
                npar = len(c.name.parts) if (c.name is not None and hasattr(c.name, 'parts')) else 0
                ctes.append('( cte %d %d %s )' % (has, npar, self.node(c.query)))
            order = [f.field for f in (t.order_by or [])]
            r = '( select %s %s %s ( grp %s ) %s %s %s %s %s )' % (
                mode, self.al(t), self.grp(t.targets), ' '.join(ctes), self.opt(t.from_table), self.opt(t.where),
                self.grp(t.group_by or []), self.opt(t.having), self.grp(order))
        elif isinstance(t, (ast.Union, ast.Except, ast.Intersect)):
            r = '( union %d %s %s %s )' % (isinstance(t, ast.Union), self.al(t), self.node(t.left), self.node(t.right))
        elif isinstance(t, ast.Function):
            kids = [t.from_arg] if t.from_arg is not None else t.args
            r = '( func %s %d %d %s %s )' % (hx(t.op), bool(t.distinct), t.from_arg is not None, self.al(t),
                                          ' '.join(self.node(k) for k in kids))
        elif isinstance(t, ast.BinaryOperation):
            inop = t.op.lower() in ('in', 'not in')
            r = '( binop %s %s %s %s )' % (hx(t.op), self.al(t), self.node(t.args[0]), self.node(t.args[1], tuple_ok=inop))
        elif isinstance(t, ast.UnaryOperation):
            r = '( unop %s %s %s )' % (hx(t.op), self.al(t), self.node(t.args[0]))
        elif isinstance(t, ast.BetweenOperation):
            r = '( between %s %s )' % (self.al(t), ' '.join(self.node(k) for k in t.args[:3]))
        elif isinstance(t, ast.Interval):
            r = '( interval %s )' % self.al(t)
        elif isinstance(t, ast.WindowFunction):
            r = '( window %s %s %s %s )' % (self.al(t), self.node(t.function), self.grp(t.partition or []),
                                            self.grp([f.field for f in (t.order_by or [])]))
        elif isinstance(t, ast.TypeCast):
            if not isinstance(t.type_name, str):
                self.unmodelled = True
            r = '( cast %s %s %s )' % (hx(t.type_name), self.al(t), self.node(t.arg))
        elif isinstance(t, ast.Parameter):
            r = '( param %d )' % bool(t.alias)
        elif isinstance(t, ast.Tuple):
            if not tuple_ok:
                self.opaque = True
            r = '( tuple %s )' % ' '.join(self.node(k) for k in t.items)
        elif isinstance(t, ast.Variable):
            r = '( variable )'
        elif isinstance(t, ast.Latest):
            r = '( latest )'
        elif isinstance(t, (ast.Exists, ast.NotExists)):
            r = '( exists %s %s )' % (self.al(t), self.node(t.query))
        elif isinstance(t, ast.Case):
            flat = []
            for c, v in t.rules:
                flat += [c, v]
            r = '( case %s %s %s %s )' % (self.al(t), self.grp(flat), self.opt(t.default), self.opt(t.arg))
        elif isinstance(t, ast.Join):
            r = '( join %d %s %s %s %s )' % (bool(t.implicit), hx(t.join_type), self.node(t.left), self.node(t.right),
                                             self.opt(t.condition))
        elif isinstance(t, ast.NativeQuery):
            r = '( native %s )' % self.al(t)
        elif isinstance(t, ast.Insert):
            if t.columns is None:
                cols = 'N'
            else:
                cols = 'L' + ','.join(hx(self.colkey(c.name)) for c in t.columns)
            if t.values is not None:
                vals = [v for row in t.values for v in row]
                kids = self.grp(vals)
            else:
                kids = self.node(t.from_select) if t.from_select is not None else '( other )'
            r = '( insert %s %s %d %d %s )' % (self.tbl(t.table), cols, bool(t.is_plain), t.values is not None, kids)
        elif isinstance(t, ast.Update):
            if t.update_columns is None and t.from_select is None:
                self.unmodelled = True
            r = '( update %s %d %s %s )' % (self.tbl(t.table), t.from_select is not None,
                                            self.grp(list((t.update_columns or {}).values())), self.opt(t.where))
        elif isinstance(t, ast.Delete):
            r = '( delete %s %s )' % (self.tbl(t.table), self.opt(t.where))
        elif isinstance(t, ast.CreateTable):
            cols = 'N' if t.columns is None else 'K' + ','.join(col_str(c) for c in t.columns)
            r = '( create %s %s )' % (self.tbl(t.name), cols)
        elif isinstance(t, ast.DropTables):
            r = '( drop %d %s )' % (len(t.tables), self.tbl(t.tables[0]) if t.tables else '-')
        else:
            name = 'other'
            r = '( other )'
        self.tags.add(name)
        return r

    def colkey(self, name):
        from mindsdb_sql.parser.ast.base import ASTNode
        if isinstance(name, str):
            return 's' + name
        if isinstance(name, ASTNode):
            return 'n' + str(name.to_tree())
        self.unmodelled = True   # bool / int / None names compare with Python's mixed-type ==
        return 'r' + repr(name)


def col_str(c):
    return '%s:%d' % (hx(c.type) if isinstance(c.type, str) else '~', bool(c.is_primary_key))


# ---------------------------------------------------------------------------------------------- observation of the real code
def snap(x, depth=0):
    """deep structural snapshot: every object of a mindsdb_sql class by its class name and ALL its attributes, lists /
    tuples / sets element-wise, dicts as the ORDERED sequence of (type and repr of key, value) — so a renamed, re-typed
    or re-ordered key, an appended / removed element or a rebound attribute anywhere below the root shows up"""
    if depth > 300:
        return '<deep>'
    mod = getattr(type(x), '__module__', '') or ''
    if mod.startswith('mindsdb_sql') and hasattr(x, '__dict__'):
        return (type(x).__name__, tuple((k, snap(v, depth + 1)) for k, v in sorted(vars(x).items())))
    if isinstance(x, (list, tuple)):
        return (type(x).__name__, tuple(snap(i, depth + 1) for i in x))
    if isinstance(x, (set, frozenset)):
        return (type(x).__name__, tuple(sorted(repr(i) for i in x)))
    if isinstance(x, dict):
        return ('dict', tuple(('%s:%r' % (type(k).__name__, k), snap(v, depth + 1)) for k, v in x.items()))
    return '%s:%r' % (type(x).__name__, x)


def snapshot(a):
    try:
        t = (a.to_tree(), str(a))
    except Exception as e:
        t = ('exc', type(e).__name__)
    return (snap(a), t)


def snap_diff(a, b, path=''):
    """paths (indices normalised) at which two snapshots differ"""
    if a == b:
        return []
    if isinstance(a, tuple) and isinstance(b, tuple) and len(a) == 2 and len(b) == 2 and a[0] == b[0] \
            and isinstance(a[1], tuple) and isinstance(b[1], tuple) and len(a[1]) == len(b[1]):
        out = []
        for i, (x, y) in enumerate(zip(a[1], b[1])):
            if isinstance(x, tuple) and len(x) == 2 and isinstance(x[0], str) and isinstance(y, tuple) and len(y) == 2 and x[0] == y[0] \
                    and a[0] not in ('list', 'tuple'):
                out += snap_diff(x[1], y[1], path + '.' + x[0])
            else:
                out += snap_diff(x, y, path + '[N]')
        return out or [path]
    return [path]


def strip_outside_literals(sql):
    """str(ast) without back-tick identifier quotes; back-ticks inside '...' literals are kept (reference for postgresql)"""
    out, in_string, in_ident, i = [], False, False, 0
    while i < len(sql):
        ch = sql[i]
        if in_string:
            out.append(ch)
            if ch == '\\' and i + 1 < len(sql):
                i += 1
                out.append(sql[i])
            elif ch == "'":
                in_string = False
        elif ch == '`':
            in_ident = not in_ident
        elif ch == "'" and not in_ident:
            in_string = True
            out.append(ch)
        else:
            out.append(ch)
        i += 1
    return ''.join(out)


def backtick_constant(x, depth=0):
    """some Constant of the tree holds a str value containing a back-tick"""
    from mindsdb_sql.parser.ast.base import ASTNode
    from mindsdb_sql.parser.ast import Constant
    if depth > 200:
        return False
    if isinstance(x, Constant) and isinstance(x.value, str) and '`' in x.value:
        return True
    if isinstance(x, ASTNode) or type(x).__name__ == 'TableColumn':
        return any(backtick_constant(v, depth + 1) for v in vars(x).values())
    if isinstance(x, (list, tuple)):
        return any(backtick_constant(v, depth + 1) for v in x)
    if isinstance(x, dict):
        return any(backtick_constant(v, depth + 1) for v in x.values())
    return False


def type_names(x, acc=None, depth=0):
    """upper-cased type names used by the TypeCast nodes / TableColumns of a tree"""
    from mindsdb_sql.parser.ast.base import ASTNode
    acc = set() if acc is None else acc
    if depth > 200:
        return acc
    n = type(x).__name__
    if n == 'TypeCast' and isinstance(x.type_name, str):
        acc.add(x.type_name.upper())
    if n == 'TableColumn' and isinstance(x.type, str):
        acc.add(x.type.upper())
    if isinstance(x, ASTNode) or n == 'TableColumn':
        for v in vars(x).values():
            type_names(v, acc, depth + 1)
    elif isinstance(x, (list, tuple)):
        for v in x:
            type_names(v, acc, depth + 1)
    elif isinstance(x, dict):
        for v in x.values():
            type_names(v, acc, depth + 1)
    return acc


def func_names(x, acc=None, depth=0):
    """names of the Function nodes of a tree"""
    from mindsdb_sql.parser.ast.base import ASTNode
    acc = set() if acc is None else acc
    if depth > 200:
        return acc
    if type(x).__name__ == 'Function' and isinstance(getattr(x, 'op', None), str):
        acc.add(x.op)
    if isinstance(x, ASTNode) or type(x).__name__ == 'TableColumn':
        for v in vars(x).values():
            func_names(v, acc, depth + 1)
    elif isinstance(x, (list, tuple)):
        for v in x:
            func_names(v, acc, depth + 1)
    elif isinstance(x, dict):
        for v in x.values():
            func_names(v, acc, depth + 1)
    return acc


def exc_class(e):
    from sqlalchemy.exc import SQLAlchemyError
    from mindsdb_sql.render.sqlalchemy_render import RenderError
    if isinstance(e, SQLAlchemyError):
        return 'sa'
    if isinstance(e, NotImplementedError):
        return 'notImpl'
    for c, n in ((KeyError, 'key'), (AttributeError, 'attr'), (TypeError, 'type'), (IndexError, 'index')):
        if isinstance(e, c):
            return n
    if type(e) is Exception or isinstance(e, RenderError):
        return 'exception'
    return 'other'


def site_of(e):
    tb = traceback.extract_tb(e.__traceback__)
    frs = [f for f in tb if '/mindsdb_sql/' in f.filename]
    fr = frs[-1] if frs else tb[-1]
    last = tb[-1]
    sa = ''
    if '/mindsdb_sql/' not in last.filename:
        fn = last.filename.split('site-packages/')[-1] if 'site-packages/' in last.filename else '/'.join(last.filename.split('/')[-2:])
        sa = fn + ':' + last.name
    return dict(exc=type(e).__name__, file=fr.filename.split('/')[-1], func=fr.name, sa=sa,
                own=(sa == '' and fr.filename.endswith(RENDER_FILE)))


def call(rd, a, fb, params=False):
    """one real call; returns ('ret', value) or ('raise', exception)"""
    r = renderer(rd)
    try:
        if params:
            return 'ret', r.get_exec_params(a, with_failback=fb)
        return 'ret', r.get_string(a, with_failback=fb)
    except Exception as e:
        return 'raise', e


def failure(kind, d, rd, fb, text, e=None, **kw):
    f = dict(kind=kind, dialect=d, render=rd, fallback=fb, text=text)
    if e is not None:
        s = site_of(e)
        m = str(e)[:300]
        f.update(exc=s['exc'], file=s['file'], func=s['func'], sa=s['sa'], msg=m)
        norm = re.sub(r"'[^']*'", "'_'", re.sub(r'\d+', 'N', m))[:70]
        f['class'] = '%s/%s/%s:%s/%s/%s' % (kind, s['exc'], s['file'], s['func'], s['sa'], norm)
        f['desc'] = 'get_string(with_failback=%s) on %s raised %s (%s) in %s:%s%s' % (
            fb, rd, s['exc'], m[:80], s['file'], s['func'], (' via ' + s['sa']) if s['sa'] else '')
    f.update(kw)
    return f


def kf_match(k, f):
    s = k.get('sig', {})
    if s.get('kind') != f.get('kind'):
        return False
    if f['kind'] == 'raise' and 'type_names' in s:
        # a tree that names one of the listed non-type keys of types_map, failing inside SQLAlchemy's type machinery
        return (f.get('exc') in s.get('excs', []) and bool(set(s['type_names']) & set(f.get('types', [])))
                and re.fullmatch(s.get('func_re', ''), f.get('func', '')) is not None)
    if f['kind'] == 'raise' and 'func_names' in s and not (set(s['func_names']) & set(f.get('funcs', []))):
        return False        # the finding is about trees that call one of the listed function names
    if f['kind'] == 'raise':
        return (s.get('exc') == f.get('exc') and re.fullmatch(s.get('func_re', ''), f.get('func', '')) is not None
                and re.search(s.get('file_re', ''), f.get('file', '')) is not None
                and re.fullmatch(s.get('sa_re', ''), f.get('sa', '')) is not None
                and re.search(s.get('msg_re', ''), f.get('msg', '')) is not None
                and not (s.get('msg_not_re') and re.search(s['msg_not_re'], f.get('msg', ''))))
    if f['kind'] == 'mutation':
        return s.get('cls') == f.get('cls') and sorted(s.get('paths', [])) == sorted(f.get('paths', []))
    if f['kind'] == 'fallback-text':
        return s.get('dialect_name') == f.get('dialect_name') and s.get('how') == f.get('how')
    return False


def probe_tree(d, text, a, S=None):
    """the property's oracle on one parsed tree: all 7 dialect names x fallback on/off.
    returns (failures, observations) — observations feed the correspondence streams"""
    from sqlalchemy.exc import SQLAlchemyError
    fails, obs = [], {}
    before = snapshot(a)
    for rd in RD:
        kind0, v0 = call(rd, a, False)
        after = snapshot(a)
        kind1, v1 = call(rd, a, True)
        after1 = snapshot(a)
        try:
            ptext = ('ret', str(a))
        except Exception as e:
            ptext = ('raise', e)
        obs[rd] = (kind0, v0, kind1, v1, ptext)
        if kind0 == 'raise' and not isinstance(v0, (SQLAlchemyError, NotImplementedError)):
            fails.append(failure('raise', d, rd, False, text, v0))
        if kind1 == 'raise':
            fails.append(failure('raise', d, rd, True, text, v1))
        elif kind0 == 'ret' and v1 != v0:
            fails.append(failure('fallback-text', d, rd, True, text, how='differs-from-rendering',
                                 dialect_name=renderer(rd).dialect.name, got=v1[:300], expected=v0[:300],
                                 desc='with fallback the result differs from the rendering obtained without fallback',
                                 **{'class': 'fallback-text/differs-from-rendering'}))
        elif kind0 == 'raise' and ptext[0] == 'ret' and v1 != (
                strip_outside_literals(ptext[1]) if renderer(rd).dialect.name == 'postgresql' else ptext[1]):
            # reading (notes/C17.md): for postgresql "the tree's own SQL string" is str(ast) without back-tick IDENTIFIER
            # quoting; a back-tick removed from inside a '...' literal changes the data the text denotes and is reported
            how = 'other'
            if v1 == ptext[1].replace('`', ''):
                how = 'backtick-removed-from-string-constant' if renderer(rd).dialect.name == 'postgresql' else 'backticks-stripped'
            fails.append(failure('fallback-text', d, rd, True, text, how=how, dialect_name=renderer(rd).dialect.name,
                                 got=v1[:300], expected=ptext[1][:300],
                                 desc='the fallback result is neither the rendering nor str(ast): ' + how,
                                 **{'class': 'fallback-text/%s/%s' % (renderer(rd).dialect.name, how)}))
        if type(a).__name__ == 'Insert' and rd == 'mysql':
            # get_exec_params proper (with_params=True: plain VALUES are passed as parameters, not rendered)
            for fb in (False, True):
                kp, vp = call(rd, a, fb, params=True)
                obs['params', fb] = (kp, vp)
                if kp == 'raise' and (fb or not isinstance(vp, (SQLAlchemyError, NotImplementedError))):
                    fails.append(failure('raise', d, rd, fb, text, vp))
            after1 = snapshot(a)
        for aft in (after, after1):
            if aft != before:
                paths = sorted(set(snap_diff(before[0], aft[0]))) or ['<to_tree/str>']
                fails.append(failure('mutation', d, rd, aft is after1, text, cls=type(a).__name__, paths=paths,
                                     desc='rendering changed the input tree at %s' % paths,
                                     **{'class': 'mutation/%s/%s' % (type(a).__name__, ','.join(paths))}))
                for f in fails:
                    f['types'] = sorted(type_names(a))
                    f['funcs'] = sorted(func_names(a))
                return fails, obs, True
    if fails:
        tn, fn = sorted(type_names(a)), sorted(func_names(a))
        for f in fails:
            f['types'] = tn
            f['funcs'] = fn
    return fails, obs, False


def parse(d, text):
    from mindsdb_sql import parse_sql
    try:
        return parse_sql(text, d)
    except Exception:
        return None


# ---------------------------------------------------------------------------------------------- streams
SHAPES = [
    'select cast(a as foo)', 'select cast(a as int8), cast(b as float4), cast(c as varchar(10)), cast(d as Bool)',
    'select count(a, b)', 'select count(distinct a, b) from t', 'select a::foo from t', 'select cast(a as date(3)) from t',
    'select (a, b) + 1 from t', 'select (a, b) = (1, 2) from t', 'select -(a, b)', 'select not (a, b) from t',
    'select * from t where (a, b) in ((1, 2), (3, 4))', 'select * from t where a in b', 'select * from t where a not in (select 1)',
    'select ? as x', 'select ? from t where a = ?', 'select * from ?', 'select * from a.b.c.d', 'select a from t as x.y',
    'select * from t1 join t2 join t3 on t1.a = t3.a', 'select * from t1, t2 left join t3 on 1 = 1',
    'select * from t1 right join t2 on t1.a = t2.a', 'select * from t1 left outer join t2 on 1 = 1 full outer join t3 on 2 = 2',
    'select * from t1 inner join t2 on 1 = 1 cross join t3', 'select * from t1 right outer join t2 on a = cast(b as foo)',
    'select a between 1 and 2 as x, exists (select 1) as y, case when a then 1 end as z from t',
    'select * from (select 1) as s join (select 2) as r', 'select * from t for update', 'select a from t limit 1 offset 2',
    'with x as (select 1) select * from x', 'with x (a) as (select 1) select * from x',
    'insert into t (a, a) values (1, 2)', 'insert into t (a, b) values (1, 2), (3, 4)', 'insert into t values (1)',
    'insert into t (a) select b from s', 'insert into a.b.c (x) values (1)',
    'update t set a = 1, b = cast(c as foo) where d = 2', 'update t set a = s.a from (select 1 a) s where t.b = s.b',
    'delete from t where a = cast(b as foo)', 'delete from a.b.c where 1 = 1',
    'create table t (a serial, b int)', 'create table t (a SERIAL)', 'create table t (a foo)', 'create table t (a int, b serial, c foo, d serial)',
    'create table t select * from s', 'create table a.b.c (x int)', 'drop table a', 'drop table a, b', 'drop table a.b.c',
    'select * from t union select * from s', 'select * from (select 1 union select 2) as u',
    'select * from (select 1 except select 2) as u', 'select * from (select 1 intersect select 2)', 'select * from t join (select 1 except select 2) as u',
    'select case when a then cast(b as foo) else 1 end from t', 'select a between 1 and cast(b as foo) from t',
    'select exists (select cast(a as foo))', 'select row_number() over (partition by a order by b desc) from t',
    'select interval 1 day', 'select @a, @@b', 'select current_date, CURRENT_USER from t', 'select a in current_date from t',
    'select * + 1', 'select a ~ b, a !~ b, a || b from t', 'show tables', 'use x', 'select __a__(1)', 'select a_(1)',
    "select 'a`b' from a.b.c.d", 'select `a b` from a.b.c.d', 'select trim(both from a)', 'select extract(year from a)',
    'select last', 'select * from t where a > last', 'select * from t where a > latest',
    'select * from int1 (select raw query) t1 join pred m', 'select * from proj (select 1) t',
    'CREATE MODEL m PREDICT a USING x = CODE ( k = v )', 'CREATE MODEL m PREDICT a USING x = CODE ( k = 1 ), y = z',
]


def func_shapes(rng, n):
    """calls of SQLAlchemy's registered generic functions with 0..3 arguments (their arities are SQLAlchemy's business)"""
    try:
        from sqlalchemy.sql import functions as F
        names = sorted(F._registry.get('_default', {}).keys())
    except Exception:
        names = ['count', 'sum', 'max', 'min', 'coalesce', 'now', 'concat', 'char_length', 'random']
    out = []
    for _ in range(n):
        f = rng.choice(names)
        k = rng.randint(0, 3)
        args = ', '.join(rng.choice(['a', '1', "'s'", 'b + 1', '*', '(1, 2)', 'null']) for _ in range(k))
        out.append('select %s(%s%s) from t' % (f, rng.choice(['', '', 'distinct ']) if k else '', args))
    return out


INTERVALS = ["INTERVAL '1 day'", "INTERVAL '01:30:00'", "INTERVAL '1'", "INTERVAL '1day'", "INTERVAL ''", "INTERVAL '1' day",
             "INTERVAL '2' HOURS", "INTERVAL 1 day", "INTERVAL 30 minute", "interval 2 hours", "INTERVAL '3 months 2 days'",
             "INTERVAL '1 year' month", "INTERVAL 0 second", "INTERVAL '-1 week'", "interval '1   day'", "INTERVAL ' 1 day'"]
INTERVAL_CTX = ['select %s', 'select %s as x from t', 'select a + %s from t', 'select * from t where a > now() - %s',
                'select * from t where a between %s and %s', 'select * from t1 join t2 on t1.a = t2.a + %s',
                'select * from t1 left join t2 on t1.a > %s', 'select * from (select %s as i from s) as q',
                'select (select %s) from t', 'select * from t where a in (select b + %s from s)', 'select date_add(a, %s) from t',
                'select case when a > %s then %s else 1 end from t', 'select a from t group by a + %s order by a - %s',
                'select * from t where exists (select 1 from s where s.a < %s)', 'select cast(%s as varchar) from t',
                'insert into t (a) values (%s)', 'update t set a = a + %s where b < %s', 'delete from t where a < now() - %s',
                'select %s union select %s']
TYPE_ARGS = ['', '(11)', '(0)', '(10, 2)']


def type_shapes(d):
    """every key of the live types_map (+ the MySQL spellings) x optional length / (precision, scale):
    as column type of CREATE TABLE and as target type of CAST"""
    names = list(renderer('mysql').types_map.keys()) if d == 'mindsdb' else []
    names += ['int', 'bigint', 'tinyint', 'smallint', 'integer', 'int8', 'float8', 'double', 'datetime', 'date', 'timestamp',
              'varchar', 'char', 'text', 'decimal', 'numeric', 'bool', 'serial', 'json']
    out = []
    for n in names:
        for arg in TYPE_ARGS:
            out.append('create table t (id %s%s)' % (n, arg))
            out.append('select cast(a as %s%s) from t' % (n, arg))
        out.append('create table t (a int, b %s(20) default x, c %s primary key, d %s(1) not null)' % (n, n, n))
    out.append('create table t (id int(11), big bigint(20), d date(3), name varchar(255), primary key (id))')
    out.append('create table a.b (id int(11) default 0, ts timestamp(6) default current_timestamp, f float(8) null)')
    return out


def interval_shapes(d='mindsdb'):
    out = []
    for i, c in enumerate(INTERVAL_CTX if d == 'mindsdb' else INTERVAL_CTX[::2]):
        for j, iv in enumerate(INTERVALS):
            k = c.count('%s')
            out.append(c % tuple(INTERVALS[(j + m * 5) % len(INTERVALS)] if m else iv for m in range(k)))
    return out


_cov = {}
_cov_ok = {}


def grammar_shapes(d, rng, n):
    """production-forcing derivations (tools/harness/gen.Grammar): EVERY production reachable from `expr` is forced once —
    the production is expanded, then wrapped upwards along a shortest chain of productions to `expr`, siblings derived
    minimally — and put into one of six contexts; `table_column` productions inside CREATE TABLE; then `n` least-used-first
    derivations of `expr`.  Each case carries the productions it used, so coverage can be counted over the sentences
    that actually parsed."""
    from tools.harness import gen
    G = gen.Grammar(d)
    ctxs = ['select %s', 'select %s from t', 'select * from t where %s', 'select * from t1 join t2 on %s',
            'select * from (select %s from s) as q', 'select a from t group by a having %s']
    parent, queue = {'expr': None}, ['expr']
    while queue:
        y = queue.pop(0)
        for j in G.by_lhs.get(y, []):
            for x in G.prods[j]['rhs']:
                if x not in G.termset and x not in parent:
                    parent[x] = j
                    queue.append(x)
    reach = [i for i, p in enumerate(G.prods) if p['lhs'] in parent]

    def expand(j, hole=None, hole_types=None):
        out, used = [], False
        G.used[j] += 1
        for y in G.prods[j]['rhs']:
            if y in G.termset:
                out.append(y)
            elif y == hole and not used:
                out += hole_types
                used = True
            else:
                out += G.derive(rng, depth=rng.randint(1, 3), sym=y)
        return out

    def forced(i):
        types, x = expand(i), G.prods[i]['lhs']
        while parent.get(x) is not None:
            j = parent[x]
            types, x = expand(j, x, types), G.prods[j]['lhs']
        return types

    def emit(types, wrap, before):
        t = gen.render(d, types, rng)
        if t is None:
            return None
        prods = [i for i, u in enumerate(G.used) if u != before[i]]
        return dict(src='exprgen', text=wrap(t), prods=prods, cov=d)
    out = []
    for i in reach:
        for attempt in range(4):      # siblings are random: retry until the real parser accepts the sentence
            before = list(G.used)
            c = rng.choice(ctxs)
            r = emit(forced(i), lambda t: c % t, before)
            if r and (attempt == 3 or parse(d, r['text']) is not None):
                out.append(r)
                break
    for i in G.by_lhs.get('table_column', []) + G.by_lhs.get('table_column_list', []):
        for rep in range(3):
            before = list(G.used)
            types = []
            G.used[i] += 1
            for y in G.prods[i]['rhs']:
                types += [y] if y in G.termset else G.derive(rng, depth=rng.randint(2, 5), sym=y)
            r = emit(types, lambda t: 'create table t ( %s )' % t, before)
            if r:
                out.append(r)
    for k in range(n):
        before = list(G.used)
        r = emit(G.derive(rng, depth=rng.randint(2, 7), sym='expr'), lambda t: ctxs[k % len(ctxs)] % t, before)
        if r:
            out.append(r)
    _cov[d] = dict(expr_reachable_productions=len(reach), forced=len(reach), used_in_derivations=sum(1 for i in reach if G.used[i]))
    _cov_ok[d] = (set(reach), set())
    return out


def note_parsed(case):
    """coverage bookkeeping: the productions of a generated sentence count once the real parser accepted it"""
    if case.get('cov') in _cov_ok:
        reach, ok = _cov_ok[case['cov']]
        ok.update(i for i in case['prods'] if i in reach)
        _cov[case['cov']]['exercised_by_parsed_sentences'] = len(ok)


NAMES = ['a', 'MyCol', 'UPPER', '`my col`', '`order`', '`select`', '`MixedCase`', '`a``b`', '`from`', '"q col"', 'col_1', '`1x`']
TABLES = ['t', 'Db1.Tab1', '`my db`.`my table`', '`order`', 'db.`select`']
NAME_TEMPLATES = [
    'update {t} set {n} = 1, b = 2 where id = 3',
    'update {t} set b = 2, {n} = {n} + 1, {m} = \'x\' where {m} > 0',
    'update {t} set {n} = (select {m} from s) where {n} is null',
    'insert into {t} ({n}, {m}) values (1, 2), (3, 4)',
    'insert into {t} ({n}) select {m} from s where {n} = 1',
    'delete from {t} where {n} = 1 and {m} in (1, 2)',
    'create table {t} ({n} int, {m} varchar(10), c serial)',
    'create table {t} ({n} int default 0, primary key ({n}))',
    'drop table {t}',
    'select {n}, {m} as {n} from {t} as {m} where {n} > 1 group by {n} order by {m} desc',
    'select x.{n} from {t} x join {t} y on x.{n} = y.{m}',
    'with {n} as (select 1) select * from {n}',
]


def name_shapes(d):
    """every statement class the renderer handles, with plain / mixed-case / back-quoted / reserved-word / double-quoted
    names in every name position (SET keys, INSERT columns, column definitions, table paths, aliases, CTE names)"""
    out = []
    for i, tpl in enumerate(NAME_TEMPLATES):
        for j, n in enumerate(NAMES):
            m = NAMES[(j + 3 + i) % len(NAMES)]
            for k, t in enumerate(TABLES):
                if d != 'mindsdb' and (j + k) % 2:
                    continue        # the statement grammar is shared: half of the product on the two smaller parsers
                out.append(tpl.format(t=t, n=n, m=m))
    return out


def pyname_shapes(d):
    """names drawn from the attribute names of the Python objects the renderer looks names up on — dir(sa.func), other dunder
    names, names ending in `_` (sa.func strips one underscore), `opts`, the names of sqlalchemy.types (types and helpers),
    Python keywords and builtins — as function names (0 / 1 / 2 / DISTINCT arguments, with namespace), type names (CAST,
    CREATE TABLE) and column / alias / table names"""
    import keyword
    import sqlalchemy as sa
    fnames = sorted(set(dir(sa.func)) | {'__a__', '__foo', '__', '___', '__x_', '_', 'a_', 'count_', 'opts_', '_x', 'x__', 'opts',
                                         '__len__', '__iter__', '__bool__', '__getitem__', '__mro__', '__name__', '__slots__',
                                         'mro', 'self', 'cls', 'label', 'type', 'name', 'c', 'columns', 'select', 'filter'})
    tnames = sorted(dir(sa.types)) + ['__class__', '__repr__', 'type', 'object', 'str']
    words = sorted(set(keyword.kwlist) | {'print', 'len', 'id', 'type', 'object', 'self', 'None_', '__dict__', '__class__'})
    out = []
    for n in fnames + (words if d == 'mindsdb' else []):
        out += ['select %s()' % n, 'select %s(1)' % n, 'select %s(a, b) from t' % n, 'select %s(distinct a) from t' % n]
        if d == 'mindsdb':
            out += ['select ns.%s(a) from t' % n, 'select * from t where %s() = %s(a) order by %s()' % (n, n, n)]
    for n in (tnames if d == 'mindsdb' else tnames[::3]):
        out += ['select cast(a as %s) from t' % n, 'select cast(a as %s) from t' % n.lower(), 'create table t (c %s)' % n]
    for n in (words + [x for x in fnames if x.startswith('_')] if d == 'mindsdb' else []):
        out += ['select %s from t' % n, 'select a as %s from t' % n, 'select * from %s' % n, 'select t.%s from t' % n,
                'update t set %s = 1' % n, 'insert into t (%s) values (1)' % n]
    return out


def case_stream(d, rng, n_mut, n_sent, n_func):
    for s in SHAPES:
        yield dict(src='shape', text=s)
    for s in pyname_shapes(d):
        yield dict(src='pynames', text=s)
    for s in name_shapes(d):
        yield dict(src='names', text=s)
    for s in type_shapes(d):
        yield dict(src='types', text=s)
    for s in interval_shapes(d):
        yield dict(src='interval', text=s)
    yield from grammar_shapes(d, rng, max(100, n_sent // 5))
    for s in func_shapes(rng, n_func):
        yield dict(src='func', text=s)
    yield from streams.statement_stream(d, rng, n_mut, n_sent)


# ---------------------------------------------------------------------------------------------- the check
def model_sites_ok(site, msg):
    """own-site raises the model does not claim to decide"""
    for exc, func, rx in UNMODELLED_OWN:
        if site['exc'] == exc and re.fullmatch(func, site['func']) and re.search(rx, msg):
            return True
    return False


def run(chk):
    warnings.simplefilter('ignore')
    quick = chk.tier == 'quick'
    deep = (not quick) or bool(chk.broken())
    n_mut, n_sent, n_func = (300, 500, 100) if not deep else (6000, 9000, 600)
    if quick and deep:
        n_mut, n_sent, n_func = 1500, 2500, 200

    # known findings: do the witnesses still fail?
    for k in chk.kf:
        if k['status'] == 'open':
            w = k['witness']
            a = parse(w['dialect'], w['text'])
            fs = probe_tree(w['dialect'], w['text'], a)[0] if a is not None else []
            k['_reproduced'] = any(kf_match(k, f) for f in fs)
            if not k['_reproduced']:
                chk.notes.append('known finding %s no longer reproduces' % k['id'])

    lines_r, meta_r = [], []      # own-table exception correspondence
    lines_w, meta_w = [], []      # wrapper correspondence
    lines_c, meta_c = [], []      # column-state correspondence
    dist = {}
    seen_trees = set()
    for d in DIALECTS:
        rng = common.rng_for(chk.seed, 'C17/' + d)
        for case in case_stream(d, rng, n_mut, n_sent, n_func):
            text = case['text']
            a = parse(d, text)
            if a is None:
                continue
            note_parsed(case)
            S = Ser()
            try:
                line = S.node(a)
            except Exception as e:
                line = None
                chk.notes.append('serialiser failed on %r: %r' % (text[:80], e))
            key = (line, str(type(a))) if line else (d, text)
            src = case['src'].split(':')[0].split('+')[0]
            chk.count((d, text))
            # column model input must be taken before rendering
            cols_before = None
            from mindsdb_sql.parser.ast import CreateTable
            if isinstance(a, CreateTable) and a.columns is not None:
                cols_before = [col_str(c) for c in a.columns]
            fails, obs, mutated = probe_tree(d, text, a)
            for f in fails:
                chk.classify(f, kf_match)
                chk.fail(f)
            k2 = '%s/%s/%s' % (d, src, 'fail' if fails else 'ok')
            dist[k2] = dist.get(k2, 0) + 1
            if cols_before is not None:
                a2 = parse(d, text)
                kind, v = call('mysql', a2, False)
                lines_c.append('C ' + ' '.join(cols_before))
                meta_c.append((d, text, [col_str(c) for c in a2.columns], exc_class(v) if kind == 'raise' else 'none',
                               site_of(v) if kind == 'raise' else None))
            # wrapper: predict the fallback-on result from the fallback-off behaviour and str(ast)
            for rd in RD:
                kind0, v0, kind1, v1, ptext = obs.get(rd) or (None,) * 5
                if kind0 is None or mutated:
                    continue
                inner = 'ret' if kind0 == 'ret' else exc_class(v0)
                pr = 'ret' if ptext[0] == 'ret' else exc_class(ptext[1])
                lines_w.append('W %s %s 1 %s %s' % (inner, pr, rd, hx(ptext[1]) if ptext[0] == 'ret' else 'x'))
                meta_w.append((d, rd, text, kind0, v0, kind1, v1))
            # own tables: once per distinct serialised tree
            if line is not None and key not in seen_trees and not S.unmodelled:
                seen_trees.add(key)
                kind0, v0 = obs['mysql'][0], obs['mysql'][1]
                if mutated:
                    kind0, v0 = call('mysql', parse(d, text), False)
                lines_r.append('R 0 ' + line)
                meta_r.append((d, text, kind0, v0, S.opaque, sorted(S.tags)))
                if ('params', False) in obs and not mutated:
                    kp, vp = obs['params', False]
                    lines_r.append('R 1 ' + line)
                    meta_r.append((d, text, kp, vp, S.opaque, sorted(S.tags) + ['with_params']))
    # ---- run the models
    try:
        outs = common.lean_run('Fallback', lines_r + lines_w + lines_c)
        out_r, out_w, out_c = outs[:len(lines_r)], outs[len(lines_r):len(lines_r) + len(lines_w)], outs[len(lines_r) + len(lines_w):]
    except Exception as e:
        chk.oblige('corr:driver', 'correspondence', False, 'driver failed: %s' % e)
        return chk.finish(assumptions=ASSUME)

    # (1) own-table exception classes, both directions
    div, first, rd_dist = 0, None, {}
    unshaped = []
    for (d, text, kind0, v0, opaque, tags), o in zip(meta_r, out_r):
        m = re.match(r'raise=(\w+) clean=(\d) shaped=(\d)', o)
        why = None
        if m and m.group(3) != '1':
            unshaped.append(dict(dialect=d, text=text, tags=tags))
        if not m:
            why = 'driver: ' + o
        else:
            pred = m.group(1)
            real = exc_class(v0) if kind0 == 'raise' else 'none'
            site = site_of(v0) if kind0 == 'raise' else None
            msg = str(v0) if kind0 == 'raise' else ''
            if pred != 'none':
                if kind0 != 'raise':
                    why = 'model predicts %s, implementation returns' % pred
                elif not site['own'] and not (site['file'] != RENDER_FILE):
                    rd_dist['preempted-by-sqlalchemy'] = rd_dist.get('preempted-by-sqlalchemy', 0) + 1
                elif not site['own']:
                    rd_dist['preempted-by-sqlalchemy'] = rd_dist.get('preempted-by-sqlalchemy', 0) + 1
                elif model_sites_ok(site, msg):
                    rd_dist['preempted-by-unmodelled-own-site'] = rd_dist.get('preempted-by-unmodelled-own-site', 0) + 1
                elif real != pred:
                    if not opaque:
                        why = 'model predicts %s, implementation raises %s (%s in %s)' % (pred, real, msg[:80], site['func'])
                if m.group(2) == '1' and pred not in ('sa', 'notImpl'):
                    why = 'clean=1 but model raises ' + pred
            else:
                if kind0 == 'raise' and site['own'] and not model_sites_ok(site, msg) and not opaque:
                    why = 'model predicts no own-site exception, implementation raises %s (%s) in %s' % (
                        type(v0).__name__, msg[:80], site['func'])
            k3 = 'pred=%s' % pred
            rd_dist[k3] = rd_dist.get(k3, 0) + 1
        if why:
            div += 1
            if first is None:
                first = dict(dialect=d, text=text, why=why, model=o, tags=tags)
    chk.corr_result('own-table-exceptions', len(lines_r), div, first, rd_dist)
    # assumption of C17_partial_repaired: every parser-produced tree satisfies the shape invariant `shaped`
    chk.oblige('assume:parser-output-shaped', 'assumption', not unshaped,
               '' if not unshaped else 'first tree violating `shaped`: %s' % json.dumps(unshaped[0])[:600])

    # (2) wrapper
    div, first, w_dist = 0, None, {}
    for (d, rd, text, kind0, v0, kind1, v1), o in zip(meta_w, out_w):
        if o == 'rendering':
            ok = kind1 == 'ret' and kind0 == 'ret' and v1 == v0
        elif o.startswith('fallback '):
            ok = kind1 == 'ret' and hx(v1) == o.split(' ')[1]
        elif o.startswith('raised '):
            ok = kind1 == 'raise' and exc_class(v1) == o.split(' ')[1]
        else:
            ok = False
        kk = o.split(' ')[0] + ('' if not o.startswith('raised') else ':' + o.split(' ')[1])
        w_dist[kk] = w_dist.get(kk, 0) + 1
        if not ok:
            div += 1
            if first is None:
                first = dict(dialect=d, render=rd, text=text, model=o[:200],
                             impl=('ret ' + str(v1)[:200]) if kind1 == 'ret' else 'raise ' + type(v1).__name__)
    chk.corr_result('wrapper', len(lines_w), div, first, w_dist)

    # (3) prepare_create_table column state
    div, first = 0, None
    for (d, text, cols_after, real, site), o in zip(meta_c, out_c):
        m = re.match(r'raise=(\w+) cols=(.*)$', o)
        pred_cols = m.group(2).split() if m else None
        ok = m is not None and pred_cols == cols_after
        if ok and m.group(1) != 'none' and real != m.group(1) and (site is None or site['own']):
            ok = False
        if ok and m.group(1) == 'none' and site is not None and site['func'] == 'get_type':
            ok = False
        if not ok:
            div += 1
            if first is None:
                first = dict(dialect=d, text=text, model=o, impl_cols=cols_after, impl_raise=real)
    chk.corr_result('create-table-columns', len(lines_c), div, first)

    for (d, text, kind0, v0, opaque, tags), o in list(zip(meta_r, out_r))[:3]:
        chk.samples.append(dict(dialect=d, text=text[:200], model=o, impl=('raise ' + type(v0).__name__) if kind0 == 'raise' else 'returns'))
    chk.samples.append(dict(theorem='C17_never_raises_iff: ∀ inner printer dn kl, (getExecParams inner printer true dn kl).isRaised = false ↔ '
                                    '(match inner with | ret _ => True | raise e => e.caught ∧ ∃ s, printer = ret s)'))
    chk.samples.append(dict(theorem='C17_review_live_own_tables: ∀ w ctx t, shaped G w ctx t = true → saRaises G w ctx t ∈ {none, some sa, some notImpl}  (G = live tables)'))
    chk.samples.append(dict(theorem='C17_live_exact: ∀ w t saPart printer dn, shaped G w stmt t → ((getExecParams (innerOf G w t saPart) printer true dn).isRaised = true ↔ '
                                    '(saRaises G w stmt t = none ∧ saQuiet saPart = false) ∨ (inner raised a caught class ∧ printerTotal printer = false))'))
    chk.samples.append(dict(theorem='C17_no_mutation: ∀ tables cols, (prepareCols tables cols).1 = cols'))
    return chk.finish(assumptions=ASSUME, extra=dict(impl_probe=dict(distribution=dist, expr_coverage=_cov), notes=chk.notes[:20]))


def replay(path):
    warnings.simplefilter('ignore')
    data = json.load(open(path))
    f = data.get('failure')
    if not f:
        print(json.dumps(data, indent=1)[:3000])
        return 1
    a = parse(f['dialect'], f['text'])
    fs = probe_tree(f['dialect'], f['text'], a)[0] if a is not None else []
    same = [g for g in fs if g.get('class') == f.get('class')]
    r = same[0] if same else (fs[0] if fs else None)
    print('REPRODUCED' if r else 'not reproduced', json.dumps(r or f, default=str)[:800])
    return 1 if r else 0
