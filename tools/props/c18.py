"""C18 — tree copies are independent; equality of trees, steps and plans is lawful."""
import copy, json, os, re, sys
from tools.harness import common, heap as H
from tools.harness.common import DIALECTS

ID = 'C18'
TARGETS = ['MindsVerif.Props.C18']
THEOREMS = ['MindsVerif.Props.C18.' + n for n in (
    # the full statement and its parts
    'C18', 'C18_review_full_live', 'C18_copy_print_stable', 'C18_structural_local', 'C18_unfold_local',
    'C18_copy_generic', 'C18_copy_fixed', 'C18_copy_live', 'C18_copy_iso', 'C18_copy_iso_generic', 'C18_copy_iso_live',
    'C18_iso_sound', 'C18_witness_6',
    # remarks: the unrestricted formulation is false
    'C18_copy_full_fixed_false', 'C18_full_unrestricted_false',
    # Tie B obligations and pins
    'phi18', 'phi18_paren', 'phi18_ident_attrs', 'phi18_ident_shape', 'pin_custom_copy', 'pin_eq_defs', 'pin_plan_variant',
    'pin_single_line', 'phi18_plan_rows', 'phi18_step_rows',
    # equality
    'C18_ast_eq', 'C18_single_line_refines', 'C18_step_eq_refl', 'C18_step_eq_symm_partial', 'C18_witness_4',
    'C18_list_eq', 'C18_plan_eq_list', 'C18_plan_eq_fixed', 'C18_witness_8', 'C18_result_eq', 'C18_result_hash_contract', 'C18_witness_9', 'C18_col_eq', 'C18_witness_5',
    # regression theorems about the former code (repaired; the findings are fixed)
    'C18_copy_partial', 'C18_old_hook_witness_1', 'C18_old_hook_witness_1a', 'C18_old_hook_witness_1b',
    'C18_old_plan_eq_witness_2', 'C18_old_hash_witness_3', 'C18_old_single_line_witness_7')]
ASSUME = [
    'Python object model as in Model/Heap.lean: an object is its vars() in order, lists/dicts are cells, '
    'str/int/float/bool/None/type are atoms; copy.deepcopy of CPython 3.12 Lib/copy.py and Identifier.__deepcopy__ are '
    'hand-transcribed (tie: copy correspondence stream of this run, real parser trees + synthetic graphs with sharing and cycles); '
    'a tuple with mutable content is modelled like a list (memoised before its items; CPython memoises a tuple after them — only '
    'observable for a tuple inside a cycle, which no tree contains)',
    'which Identifier hook / QueryPlan.__eq__ / Result.__hash__ / to_single_line variant the tree has is decided by behaviour probing '
    '(tools/extract/x_copy.py); C18_full requires the repaired variants, the former ones are regression models (C18_old_*)',
    'C18_full (theorem C18) holds for heaps with parenAtomicB (Identifier.parentheses holds an immutable value: it is passed by reference) '
    'and identShapeB (standard Identifier attribute list); both are checked on the probed rows and on every tree of the run',
    'that str / to_tree of the real classes are functions of the unfolding (no id(), no global state) is assumed and probed '
    '(copy == orig, same str, same to_tree on the real objects); termination of deepcopy is not proved (fuel; exhaustion is never a successful copy)',
    'the __eq__ methods are transcribed literally; == on attribute values is abstract (veq: reflexivity / symmetry of the components are '
    'hypotheses of the step laws — a bare NaN attribute is outside them); str / to_tree are abstract deterministic functions; '
    'Result.__hash__ is tied by the hash stream with the tuple hash of (\'Result\', n) as oracle value',
]

CATALOG = dict(
    integrations=['int', 'int2', 'mysql', 'pg', {'name': 'proj', 'type': 'project'}],
    predictor_namespace='mindsdb', default_namespace='mindsdb',
    predictor_metadata=[
        {'name': 'pred', 'integration_name': 'mindsdb'}, {'name': 'pred2', 'integration_name': 'mindsdb'},
        {'name': 'tp3', 'integration_name': 'mindsdb', 'timeseries': True, 'order_by_column': 'pickup_hour',
         'group_by_columns': ['vendor_id'], 'window': 10, 'horizon': 1}])

EXTRA_SQL = [
    ('mindsdb', 'select t.* from t1 as t'), ('mysql', 'select t.*, a from t'), ('sqlite', 'select * from t'),
    ('mindsdb', 'select a.* from int.tab1 a join mindsdb.pred p'),
    ('mindsdb', 'select * from (select x.* from int.t x) as s'),
    ('mindsdb', "select case when a then b else c end as k, cast(a as int), f(x, y) from t where a in (1,2) order by a limit 1"),
    ('mindsdb', "update t set a = 1, b = 'x' where c = 2"), ('mindsdb', "insert into t (a, b) values (1, 2), (3, 4)"),
    ('mindsdb', "create table t (a int, b text)"), ('mindsdb', "select 1 union select 2"),
    ('mindsdb', "with c as (select 1) select * from c"),
    # regression examples of KF-C18-4 (fixed in d4ecde6 / 8f322bc): whitespace inside a quoted alias that to_tree omits
    ('mysql', "select * as `a b` from t"), ('mindsdb', "select * from int (select 1) as `a b`"),
    ('mysql', "select * from (commit) as `a b`"),
    ('mindsdb', "select MYDB.fn(a), sum(x) over (partition by y order by z rows between 1 preceding and current row) from t"),
    ('mindsdb', "select * from int.tab1 t join mindsdb.pred m using a = 1"),
    ('mindsdb', "select * from int.tab1 t join mindsdb.pred m"),
    ('mindsdb', "select 1 except select 2"), ('mindsdb', "select 1 intersect select 2"),
    ('mindsdb', "select * from t where exists (select 1 from u)"), ('mindsdb', "select * from t where not exists (select 1 from u)"),
    ('mindsdb', "select interval '1 day' from t"), ('mindsdb', "show index from t"),
]


def single_line(s):
    from mindsdb_sql.parser.utils import to_single_line
    return to_single_line(s)


def side():
    return json.load(open(os.path.join(common.ROOT, 'gen', 'copyrows.json')))


# --------------------------------------------------------------------------- impl-level probes

def holders(root, target):
    """(holder class, attribute) pairs through which `target` is held in the graph below root;
    a list that is the value of attribute k of object x counts as (type(x), k)"""
    out = set()
    for o in H.walk(root):
        if isinstance(o, (list, tuple, dict, set)):
            continue
        for k, v in vars(o).items():
            if v is target:
                out.add((type(o).__name__, k))
            elif isinstance(v, (list, tuple)) and any(x is target for x in v):
                out.add((type(o).__name__, k))
            elif isinstance(v, dict) and any(x is target for x in v.values()):
                out.add((type(o).__name__, k))
    return sorted(out)


def snapshot(t):
    return (str(t), t.to_tree())


def probe_tree(t, rng, meta, max_mut=80):
    """all C18 oracles for one tree; returns a list of failure dicts (empty = fine)"""
    fails = []

    def fail(cls, desc, **kw):
        d = dict(probe='tree', desc=desc, **meta)
        d.update(kw)
        d['class'] = cls
        fails.append(d)
    tn = type(t).__name__
    try:
        before = snapshot(t)
    except Exception as e:       # a tree that cannot print itself is not a C18 subject
        return fails
    try:
        c = t.copy()
        c2 = copy.deepcopy(t)
    except RecursionError:
        return fails
    except Exception as e:
        fail('copy-raises/%s' % type(e).__name__, 'copy() raised %s: %s' % (type(e).__name__, str(e)[:100]))
        return fails
    if snapshot(t) != before:
        fail('copy-mutates-original/' + tn, 'copy() changed the original')
    for name, cc in (('copy()', c), ('deepcopy', c2)):
        try:
            eq1, eq2 = (cc == t), (t == cc)
        except Exception as e:
            fail('eq-raises/' + tn, '%s == original raised %s' % (name, type(e).__name__))
            continue
        if eq1 is not True or eq2 is not True:
            fail('copy-unequal/' + tn, '%s is not equal to the original (%r, %r)' % (name, eq1, eq2))
        if str(cc) != before[0] or cc.to_tree() != before[1]:
            fail('copy-print-differs/' + tn, '%s prints differently: %r vs %r' % (name, str(cc)[:200], before[0][:200]))
    # no shared mutable object
    try:
        shared = H.shared_objects(t, c)
    except H.Opaque as e:
        fail('opaque/' + str(e), 'object of unmodelled type %s in the tree' % e)
        return fails
    shared_ids = {}
    for o in shared:
        hs = holders(c, o)
        shared_ids[id(o)] = hs
        star = type(o).__name__ == 'Star' and hs and all(h == ('Identifier', 'parts') for h in hs)
        fail('shared-star' if star else 'shared/%s@%s' % (type(o).__name__, ','.join('%s.%s' % h for h in hs)),
             'copy shares the mutable %s object at %s with the original' % (type(o).__name__, H.path_to(c, o)),
             shared_type=type(o).__name__, holders=['%s.%s' % h for h in hs])
    # reflexivity, hash-free
    try:
        r = (t == t)
        if r is not True:
            fail('eq-not-reflexive/' + tn, 't == t is %r' % (r,))
        if (t != t) is not False:
            fail('eq-not-reflexive/' + tn, 't != t is not False')
    except Exception as e:
        fail('eq-raises/' + tn, 't == t raised %s' % type(e).__name__)
    # single mutations of the copy never show in the original
    muts = H.mutations(c, rng, limit=max_mut)
    saved = [(o, dict(vars(o)) if hasattr(o, '__dict__') else (list(o) if isinstance(o, list) else dict(o) if isinstance(o, dict) else None))
             for o in shared]
    # the objects the copy shares with the original first: they are where a mutation can leak
    muts.sort(key=lambda m: 0 if id(m[0]) in shared_ids else 1)
    nm = 0
    for o, what, apply in muts:
        try:
            apply()
        except Exception:
            continue
        nm += 1
        try:
            after = snapshot(t)
        except Exception as e:
            after = ('<raises %s>' % type(e).__name__, None)
        if after != before:
            hs = shared_ids.get(id(o))
            star = hs is not None and type(o).__name__ == 'Star' and all(h == ('Identifier', 'parts') for h in hs)
            fail('shared-star' if star else 'mutation-visible/%s/%s' % (type(o).__name__, what.split(' ')[0]),
                 'mutating the copy (%s on the %s at %s) changed what the original prints: %r -> %r' % (
                     what, type(o).__name__, H.path_to(c, o), before[0][:200], after[0][:200]),
                 mutation=what, mutated=type(o).__name__, shared_type=type(o).__name__ if hs is not None else None,
                 holders=['%s.%s' % h for h in hs] if hs else [])
            before = after
    for o, sv in saved:          # undo what leaked into the original through shared objects
        if hasattr(o, '__dict__'):
            vars(o).clear()
            vars(o).update(sv)
        elif isinstance(o, list):
            o[:] = sv
        elif isinstance(o, dict):
            o.clear()
            o.update(sv)
    meta['_mutations'] = nm
    return fails


def string_sites(root):
    """(object index in H.walk order, key, value) for every string- or bool-valued attribute / list item / dict value"""
    out = []
    for i, o in enumerate(H.walk(root)):
        if isinstance(o, list):
            out += [(i, j, v) for j, v in enumerate(o) if isinstance(v, (str, bool))]
        elif isinstance(o, dict):
            out += [(i, k, v) for k, v in o.items() if isinstance(v, (str, bool))]
        elif hasattr(o, '__dict__') and not isinstance(o, (tuple, set, frozenset)):
            out += [(i, k, v) for k, v in vars(o).items() if isinstance(v, (str, bool))]
    return out


def string_variants(v, rng):
    """one-value near misses: letter case, one character, whitespace; a bool is toggled"""
    if isinstance(v, bool):
        return [('toggle', not v)]
    out = []
    if v.swapcase() != v:
        out.append(('case', v.swapcase()))
        if v.lower() != v:
            out.append(('lower', v.lower()))
        if v.upper() != v:
            out.append(('upper', v.upper()))
    if v:
        j = rng.randrange(len(v))
        c = 'x' if v[j] != 'x' else 'y'
        out.append(('char', v[:j] + c + v[j + 1:]))
    out.append(('space-after', v + ' '))
    out.append(('space-before', ' ' + v))
    if ' ' in v:
        out.append(('space-double', v.replace(' ', '  ', 1)))
        out.append(('space-newline', v.replace(' ', '\n', 1)))
    elif len(v) > 1:
        out.append(('space-inside', v[:len(v) // 2] + ' ' + v[len(v) // 2:]))
    return out


def set_site(root, site, value):
    i, k, _ = site
    o = H.walk(root)[i]
    if isinstance(o, (list, dict)):
        o[k] = value
    else:
        setattr(o, k, value)


def layout_norm(x):
    """collapse whitespace runs outside quotes ('…', "…", `…`) to one space; text inside quotes is kept
    (backslash escapes the next character inside '…' and "…")"""
    out, q, esc, sp = [], None, False, False
    for ch in x:
        if q:
            out.append(ch)
            if esc:
                esc = False
            elif ch == '\\' and q != '`':
                esc = True
            elif ch == q:
                q = None
            continue
        if ch.isspace():
            sp = True
            continue
        if sp and out:
            out.append(' ')
        sp = False
        out.append(ch)
        if ch in '\'"`':
            q = ch
    return ''.join(out)


def same_sql(x, y):
    """the two printed texts are the same SQL: identical up to layout (whitespace outside quoted text)"""
    return x == y or layout_norm(x) == layout_norm(y)


def check_near_miss(a, b, meta, site, kind, new):
    """oracle: a == b  =>  same printed SQL and same to_tree; == symmetric.  a, b differ in one string"""
    tn = type(a).__name__
    owner = H.walk(a)[site[0]]
    where = '%s.%s' % (kind_of_site(owner), site[1] if not isinstance(site[1], int) else 'item')
    if isinstance(owner, (list, dict)):        # name the attribute that holds the container
        for o in H.walk(a):
            if hasattr(o, '__dict__') and not isinstance(o, (list, dict, tuple, set)):
                ks = [k for k, v in vars(o).items() if v is owner]
                if ks:
                    where = '%s.%s' % (type(o).__name__, ks[0])
                    break
    base = dict(probe='nearmiss', site=[site[0], site[1]], old=site[2], new=new, variant=kind, where=where, **meta)
    try:
        ab, ba = (a == b), (b == a)
        sa, sb = str(a), str(b)
        ta, tb = a.to_tree(), b.to_tree()
    except Exception:
        return []           # a variant that can no longer be printed is not an equality question
    fails = []
    if ab is not ba:
        fails.append(dict(base, desc='%s: a == b is %r but b == a is %r after changing %s %r -> %r' % (tn, ab, ba, where, site[2], new),
                          **{'class': 'eq-asymmetric/%s/%s' % (where, kind.split('-')[0])}))
    if ab is True or ba is True:
        if not same_sql(sa, sb):
            fails.append(dict(base, desc='equal trees print different SQL (%s %r vs %r): %r vs %r' % (where, site[2], new, sa[:200], sb[:200]),
                              print_a=sa[:400], print_b=sb[:400],
                              **{'class': ('eq-print-differs-ws-in-quotes/%s' % where) if single_line(sa) == single_line(sb)
                                 else 'eq-print-differs/%s/%s' % (where, kind.split('-')[0])}))
        if ta != tb:
            fails.append(dict(base, desc='equal trees have different to_tree() (%s %r vs %r)' % (where, site[2], new),
                              **{'class': 'eq-tree-differs/%s/%s' % (where, kind.split('-')[0])}))
    return fails


def kind_of_site(o):
    return H.kind_of(o)


def check_variant_copy(a, b, meta, site, kind, new):
    """the copy oracle on a tree that differs from a parser tree in one attribute value (a flag set, a name
    changed): copy() must keep *every* value, not only the ones a constructor would default to"""
    try:
        sb, tb = str(b), b.to_tree()
    except Exception:
        return []
    owner = H.walk(a)[site[0]]
    where = '%s.%s' % (kind_of_site(owner), site[1] if not isinstance(site[1], int) else 'item')
    base = dict(probe='nearmiss-copy', site=[site[0], site[1]], old=site[2], new=new, variant=kind, where=where, **meta)
    try:
        c = b.copy()
        ok_eq = (c == b) is True and (b == c) is True
        sc, tc = str(c), c.to_tree()
    except Exception as e:
        return [dict(base, desc='copy() of the tree with %s = %r raised %s' % (where, new, type(e).__name__),
                     **{'class': 'copy-raises-variant/%s' % where})]
    if not ok_eq or sc != sb or tc != tb:
        return [dict(base, desc='after setting %s = %r (was %r) copy() is not a faithful copy: %r vs %r' % (where, new, site[2], sc[:160], sb[:160]),
                     **{'class': 'copy-unequal-variant/%s/%s' % (where, kind)})]
    return []


def probe_near_miss(t, rng, meta, limit=None):
    """all single-string near misses of one tree (a random sample of `limit` sites x all variants)"""
    try:
        b = copy.deepcopy(t)
        sites = string_sites(t)
        str(t), t.to_tree()
    except Exception:
        return [], 0
    if limit is not None and len(sites) > limit:
        sites = rng.sample(sites, limit)
    fails, n = [], 0
    for site in sites:
        for kind, new in string_variants(site[2], rng):
            try:
                set_site(b, site, new)
            except Exception:
                continue
            n += 1
            fails += check_near_miss(t, b, meta, site, kind, new)
            fails += check_variant_copy(t, b, meta, site, kind, new)
            set_site(b, site, site[2])
    return fails, n


def abstract_value(v, it):
    """token for an attribute value such that equal tokens <-> == (mirror of the value classes' __eq__)"""
    from mindsdb_sql.parser.ast.base import ASTNode
    from mindsdb_sql.planner.step_result import Result
    from mindsdb_sql.planner.steps import PlanStep
    if isinstance(v, ASTNode):
        k = ('N', v.to_tree(), single_line(str(v)))
    elif isinstance(v, Result):
        k = ('R', v.step_num)
    elif isinstance(v, PlanStep):
        k = ('S',) + tuple(abstract_step(v, it))
    elif type(v).__name__ == 'TableColumn':
        k = ('C',) + tuple(abstract_value(getattr(v, f), it) for f in ('name', 'is_primary_key', 'type', 'default', 'length'))
    elif isinstance(v, (list, tuple)):
        k = (type(v).__name__,) + tuple(abstract_value(x, it) for x in v)
    elif isinstance(v, dict):
        k = ('D',) + tuple(sorted((repr(a), abstract_value(b, it)) for a, b in v.items()))
    elif isinstance(v, bool) or isinstance(v, (int, float)):
        k = ('num', float(v))
    else:
        k = (type(v).__name__, repr(v))
    return it.setdefault(k, 'v%d' % len(it))


def abstract_step(s, it):
    return [type(s).__name__] + ['%s=%s' % (k, abstract_value(v, it)) for k, v in vars(s).items()]


def call_eq(a, b):
    try:
        r = a.__eq__(b)
    except Exception as e:
        return 'raises'
    return {True: 'true', False: 'false', None: 'none'}.get(r, 'other') if isinstance(r, (bool, type(None))) else 'other'


def catalog_of(name):
    """plan_query kwargs: None -> the fixed catalog of this module, else a catalog of tools/harness/plangen.py"""
    if not name:
        return copy.deepcopy(CATALOG)
    from tools.harness import plangen
    return copy.deepcopy(plangen.probe_catalogs()[name])


def probe_plan(sql, meta, cat=None):
    """equality oracles on the plan of one query (planned twice from two parses)"""
    from mindsdb_sql import parse_sql
    from mindsdb_sql.planner import plan_query
    fails = []

    def fail(cls, desc, **kw):
        d = dict(probe='plan', desc=desc, sql=sql, cat=cat, **meta)
        d.update(kw)
        d['class'] = cls
        fails.append(d)
    try:
        p1 = plan_query(parse_sql(sql, 'mindsdb'), **catalog_of(cat))
        p2 = plan_query(parse_sql(sql, 'mindsdb'), **catalog_of(cat))
    except Exception:
        return None, None, fails
    steps_equal = len(p1.steps) == len(p2.steps)
    for i, (a, b) in enumerate(zip(p1.steps, p2.steps)):
        sn = type(a).__name__
        try:
            if (a == a) is not True:
                fail('step-eq-not-reflexive/' + sn, 'step %d: s == s is not True' % i)
            ab, ba = (a == b), (b == a)
            if ab is not ba:
                fail('step-eq-asymmetric/' + sn, 'step %d: a == b is %r but b == a is %r' % (i, ab, ba))
            if ab is not True:
                steps_equal = False
                fail('step-eq-unstable/' + sn, 'step %d of two plans of the same query differ: %r vs %r' % (i, a, b))
            ka = [k for k in vars(a) if k != 'result_data']
            kb = [k for k in vars(b) if k != 'result_data']
            if sorted(ka) != sorted(kb):
                fail('step-keys-differ/' + sn, 'step %d: attribute names differ (%s vs %s): hypothesis of C18_step_eq_symm_partial' % (i, ka, kb))
        except Exception as e:
            steps_equal = False
            fail('step-eq-raises/%s/%s' % (sn, type(e).__name__), 'step %d: == raised %s' % (i, e))
    if steps_equal:
        for name, x, y in (('p == p', p1, p1), ('p1 == p2', p1, p2), ('p2 == p1', p2, p1)):
            r = call_eq(x, y)
            if r != 'true':
                fail('plan-eq-' + r, 'two plans built from equal steps: %s is %s' % (name, r), result=r)
                break
        try:
            if (p1 != p2) is not False and call_eq(p1, p2) == 'true':
                fail('plan-ne', 'p1 != p2 although equal')
        except Exception:
            pass
    return p1, p2, fails


def probe_result(n):
    from mindsdb_sql.planner.step_result import Result
    fails = []
    a, b = Result(n), Result(n)
    if (a == b) is not True or (a == a) is not True or (a == Result(n + 1)) is not False or (a == n) is not False:
        fails.append(dict(probe='result', n=n, desc='Result.__eq__ is not equality of step numbers', **{'class': 'result-eq'}))
    try:
        h1, h2 = hash(a), hash(b)
        if h1 != h2:
            fails.append(dict(probe='result', n=n, desc='equal Results hash differently', **{'class': 'result-hash-incongruent'}))
    except Exception as e:
        fails.append(dict(probe='result', n=n, exc=type(e).__name__,
                          desc='hash(Result(%d)) raises %s: %s' % (n, type(e).__name__, e),
                          **{'class': 'result-hash-raises/' + type(e).__name__}))
    return fails


def mkplan(p, idx):
    """a plan made of the steps of p at the given positions (the step objects are shared: compared, never changed)"""
    q = type(p)()
    q.steps = [p.steps[i] for i in idx]
    return q


def plan_index_variants(n, rng):
    """index lists into the steps of a plan with n steps: the plan itself, every proper prefix (the empty plan
    included), a suffix, extensions, one step dropped / duplicated / replaced, two steps swapped, reversed"""
    full = list(range(n))
    out = [('self', full), ('empty', [])]
    out += [('prefix%d' % k, full[:k]) for k in range(1, n)]
    if n:
        out += [('extend-first', full + [0]), ('extend-last', full + [n - 1]), ('dup-prefix', [0] + full)]
    if n >= 2:
        i = rng.randrange(n)
        j = (i + 1 + rng.randrange(n - 1)) % n
        out += [('suffix', full[1:]), ('drop', full[:i] + full[i + 1:]), ('swap', [j if x == i else i if x == j else x for x in full]),
                ('replace', [j if x == i else x for x in full]), ('reversed', full[::-1])]
    return out


def ref_plan_eq(a, b):
    """reference reading of plan equality: same type, same number of steps, pairwise equal steps"""
    return type(a) is type(b) and len(a.steps) == len(b.steps) and all((x == y) is True for x, y in zip(a.steps, b.steps))


def probe_plan_laws(p, sql, cat, rng, limit=9):
    """equality laws on the family of plans derived from p: == agrees with the reference reading (in particular a
    plan never equals a proper prefix / extension / the empty plan), is symmetric, transitive, consistent with !="""
    fails = []
    var = plan_index_variants(len(p.steps), rng)
    if len(var) > limit:
        var = var[:2] + rng.sample(var[2:], limit - 2)
    fam = [(name, idx, mkplan(p, idx)) for name, idx in var]

    def fail(cls, desc, **kw):
        d = dict(probe='planpair', sql=sql, cat=cat, desc=desc, **kw)
        d['class'] = cls
        fails.append(d)
    res = {}
    for na, ia, a in fam:
        for nb, ib, b in fam:
            r = call_eq(a, b)
            res[(na, nb)] = r
            want = 'true' if ref_plan_eq(a, b) else 'false'
            if r != want:
                fail('plan-eq-wrong/%s-vs-%s/%s' % (re.sub(r'\d+', '', na), re.sub(r'\d+', '', nb), r),
                     'plans with steps %s and %s of the plan of %r (%d steps): == is %s, but they have %s' % (
                         ia, ib, sql[:120], len(p.steps), r,
                         'the same number of pairwise equal steps' if want == 'true' else 'different steps (%d vs %d)' % (len(ia), len(ib))),
                     idx_a=ia, idx_b=ib, got=r, want=want)
            try:
                ne = (a != b)
                if r in ('true', 'false') and ne is not (r == 'false'):
                    fail('plan-ne-inconsistent', 'a != b is %r while a == b is %s' % (ne, r), idx_a=ia, idx_b=ib)
            except Exception:
                pass
    names = [n for n, _, _ in fam]
    idx_of = {n: i for n, i, _ in fam}
    for x in names:
        for y in names:
            if res[(x, y)] != res[(y, x)]:
                fail('plan-eq-asymmetric', 'a == b is %s but b == a is %s (steps %s vs %s)' % (res[(x, y)], res[(y, x)], idx_of[x], idx_of[y]),
                     idx_a=idx_of[x], idx_b=idx_of[y])
            if res[(x, y)] == 'true':
                for z in names:
                    if res[(y, z)] == 'true' and res[(x, z)] != 'true':
                        fail('plan-eq-not-transitive', 'a == b and b == c but a == c is %s (steps %s, %s, %s)' % (
                            res[(x, z)], idx_of[x], idx_of[y], idx_of[z]), idx_a=idx_of[x], idx_b=idx_of[z], idx_mid=idx_of[y])
    return fails, len(fam) ** 2


def container_variants(v, rng):
    """variants of a list / dict attribute value that are certainly different containers: (name, new value)"""
    out = []
    if isinstance(v, list):
        if v:
            out += [('list-drop-last', v[:-1]), ('list-drop-first', v[1:]), ('list-dup-last', v + [v[-1]]), ('list-empty', [])]
        else:
            out += [('list-add', [None])]
    elif isinstance(v, dict):
        if v:
            k = next(iter(v))
            out += [('dict-drop', {a: b for a, b in v.items() if a != k}), ('dict-empty', {})]
        out += [('dict-add', dict(v, zz_key=1))]
    return out


def probe_step_containers(a, sql, cat, i, rng):
    """a step must differ from a copy whose list / dict attribute (sub-steps, columns, params …) is a proper
    prefix / extension of the original's, in both directions"""
    fails, n = [], 0
    for k, v in list(vars(a).items()):
        if k == 'result_data':
            continue
        for name, new in container_variants(v, rng):
            b = copy.copy(a)
            setattr(b, k, new)
            n += 1
            ab, ba = call_eq(a, b), call_eq(b, a)
            if ab != 'false' or ba != 'false':
                d = dict(probe='stepcontainer', sql=sql, cat=cat, step_index=i, attr=k, variant=name, ab=ab, ba=ba,
                         desc='%s step %d of the plan of %r: a copy whose attribute %s is changed by %s compares %s / %s to the original' % (
                             type(a).__name__, i, sql[:120], k, name, ab, ba))
                d['class'] = 'step-eq-container/%s.%s/%s' % (type(a).__name__, k, name)
                fails.append(d)
    return fails, n


def probe_dataclass_eq(cls):
    """laws of a dataclass-generated __eq__ (planner-internal records such as TableInfo)"""
    import dataclasses
    fails = []
    req = [f for f in dataclasses.fields(cls) if f.default is dataclasses.MISSING and f.default_factory is dataclasses.MISSING]
    args = ['v%d' % i for i in range(len(req))]
    try:
        a, b = cls(*args), cls(*args)
    except Exception:
        return fails
    checks = [('reflexive', call_eq(a, a) == 'true'), ('equal-fields', call_eq(a, b) == 'true' and call_eq(b, a) == 'true'),
              ('non-instance', (a == 1) is False and (a == None) is False)]  # noqa: E711
    for f in dataclasses.fields(cls):
        if not f.compare:
            continue
        c = cls(*args)
        setattr(c, f.name, 'zz_other')
        checks.append(('field:' + f.name, call_eq(a, c) == 'false' and call_eq(c, a) == 'false'))
    for name, ok in checks:
        if not ok:
            fails.append(dict(probe='dataclass', cls=cls.__name__, desc='%s.__eq__ violates %s' % (cls.__name__, name),
                              **{'class': 'dataclass-eq/%s/%s' % (cls.__name__, name.split(':')[0])}))
    return fails


STEP_NUMS = [0, 1, 2, 10, '0', '1', '2', '10', '2_0', '1_0', '01', ' 1', '1 ', '', 1.0, True, False, None]


def sn_token(v):
    """driver token of a step number the model covers (int / str), else None"""
    if isinstance(v, bool):
        return None
    if isinstance(v, int):
        return 'i%d' % v
    if isinstance(v, str) and v and all(ch.isalnum() or ch == '_' for ch in v):
        return 's' + v
    return None


def probe_eq_hash(cls, make, values, value_equality=False):
    """eq / hash contract and reference reading for a hashable class with __eq__ whose instances are made from one
    value: a == b ⇒ hash(a) == hash(b); == symmetric; and, for classes whose equality is equality of that value
    (Result: the step number), make(x) == make(y) iff x == y"""
    fails = []
    objs = []
    for v in values:
        try:
            objs.append((v, make(v)))
        except Exception:
            pass
    for x, a in objs:
        for y, b in objs:
            ab, ba = call_eq(a, b), call_eq(b, a)
            base = dict(probe='eqhash', cls=cls, x=repr(x), y=repr(y))
            if ab != ba:
                fails.append(dict(base, desc='%s(%r) == %s(%r) is %s but the converse is %s' % (cls, x, cls, y, ab, ba),
                                  **{'class': 'eqhash-asymmetric/%s' % cls}))
            if ab == 'true':
                try:
                    ha, hb = hash(a), hash(b)
                except Exception as e:
                    fails.append(dict(base, desc='hash(%s(%r)) raises %s' % (cls, x, type(e).__name__),
                                      **{'class': 'eqhash-raises/%s/%s' % (cls, type(e).__name__)}))
                    continue
                if ha != hb:
                    fails.append(dict(base, desc='%s(%r) == %s(%r) but their hashes differ (%d vs %d): equal objects are different dict / set keys' % (
                        cls, x, cls, y, ha, hb), **{'class': 'eqhash-contract/%s/%s-%s' % (cls, type(x).__name__, type(y).__name__)}))
            want = 'true' if (x == y) is True else 'false'
            if value_equality and ab != want:
                fails.append(dict(base, desc='%s(%r) == %s(%r) is %s although the values are %s' % (
                    cls, x, cls, y, ab, 'equal' if want == 'true' else 'different'),
                    **{'class': 'eq-not-value-equality/%s/%s-%s' % (cls, type(x).__name__, type(y).__name__)}))
    return fails, len(objs) ** 2


def hashable_eq_classes():
    """every class of the package (introspection) that defines __eq__ and has a usable __hash__, with a one-value maker"""
    import importlib, inspect, pkgutil
    import mindsdb_sql
    out, seen = [], set()
    for mi in pkgutil.walk_packages(mindsdb_sql.__path__, 'mindsdb_sql.'):
        try:
            mod = importlib.import_module(mi.name)
        except Exception:
            continue
        for _, c in inspect.getmembers(mod, inspect.isclass):
            if c in seen or not getattr(c, '__module__', '').startswith('mindsdb_sql'):
                continue
            seen.add(c)
            if any('__eq__' in vars(k) for k in c.__mro__[:-1]) and getattr(c, '__hash__', None) is not None:
                out.append(c)
    return out


def kf_match(k, f):
    sig = k.get('signature', {})
    if sig.get('class') != f.get('class'):
        return False
    if sig.get('class') == 'shared-star':
        return f.get('shared_type') == 'Star' and f.get('holders') and all(h == 'Identifier.parts' for h in f['holders'])
    return True


def reproduce_kf(k, rng):
    from mindsdb_sql import parse_sql
    w = k['witness']
    if w.get('probe') == 'nearmiss':
        a = parse_sql(w['sql'], w['dialect'])
        b = copy.deepcopy(a)
        site = (w['site'][0], w['site'][1], w['old'])
        set_site(b, site, w['new'])
        fs = check_near_miss(a, b, dict(dialect=w['dialect'], sql=w['sql']), site, w['variant'], w['new'])
    elif w.get('probe') == 'tree':
        fs = probe_tree(parse_sql(w['sql'], w['dialect']), rng, dict(dialect=w['dialect'], sql=w['sql']))
    elif w.get('probe') == 'plan':
        fs = probe_plan(w['sql'], {}, w.get('cat'))[2]
    else:
        fs = probe_result(w['n'])
    return any(kf_match(k, f) for f in fs)


# --------------------------------------------------------------------------- streams

NAME_TEMPLATES = ["select {q} from t", "select t.{q} from t", "select {q}.c from t", "select a.{q}.c from t", "select x as {q} from t",
                  "select * from {q}", "select * from db.{q}", "select * from t as {q}", "select * from {q}.t as u", "select f({q}) from t",
                  "select * from t where t.{q} = 1", "select * from t order by t.{q}", "select * from a join {q} on a.x = {q}.x",
                  "insert into {q} (a) values (1)", "update {q} set {q} = 1", "delete from db.{q} where {q} = 1"]
NAME_TEXTS = [' b', 'b ', ' b c ', 'B', 'b  c', 'select', 'a.b', '1b', "b'c", ' ']


def name_shape_sql(dialect):
    """statements with a quoted name in every name position (first / middle / last part, alias, table, function
    argument …), in every quoting style, with edge blanks / case / inner blanks / keywords / dots in the name:
    values a constructor could normalise when a copy is rebuilt through it"""
    for tmpl in NAME_TEMPLATES:
        for txt in NAME_TEXTS:
            for q in ('`%s`' % txt, '"%s"' % txt):
                yield tmpl.format(q=q)


def tree_stream(chk, quick, deep, wide=False):
    """(meta, tree) for parser-produced trees: corpus x dialects, hand cases, grammar-derived sentences"""
    from mindsdb_sql import parse_sql
    from tools.harness import corpus, streams
    seen = set()
    for d, s in EXTRA_SQL:
        try:
            yield dict(src='hand', dialect=d, sql=s), parse_sql(s, d)
        except Exception:
            pass
    for s in corpus.load():
        for d in DIALECTS:
            try:
                t = parse_sql(s, d)
            except Exception:
                continue
            key = (type(t).__name__, t.to_tree(), str(t))
            if key in seen:
                continue
            seen.add(key)
            yield dict(src='corpus', dialect=d, sql=s), t
    for d in DIALECTS:
        for s in name_shape_sql(d):
            try:
                t = parse_sql(s, d)
                key = (type(t).__name__, t.to_tree(), str(t))
            except Exception:
                continue
            if key in seen:
                continue
            seen.add(key)
            yield dict(src='names', dialect=d, sql=s), t
    n_mut, n_sent = (3000, 6000) if deep else ((600, 1000) if wide else (150, 250))
    for d in DIALECTS:
        rng = common.rng_for(chk.seed, 'C18/sent/' + d)
        for case in streams.statement_stream(d, rng, n_mut, n_sent, with_corpus=False):
            try:
                t = parse_sql(case['text'], d)
                key = (type(t).__name__, t.to_tree(), str(t))
            except Exception:
                continue
            if key in seen:
                continue
            seen.add(key)
            yield dict(src=case['src'].split(':')[0].split('+')[0], dialect=d, sql=case['text']), t


class Obj:
    """generic object for synthetic graphs"""
    pass


def synthetic_graph(rng, hook):
    """random object graph over list / dict / Obj / Identifier / Star with sharing; cycles only when no Identifier is present"""
    from mindsdb_sql.parser.ast import Identifier, Star
    n = rng.randint(1, 9)
    with_ident = rng.random() < 0.7
    kinds = []
    for i in range(n):
        kinds.append(rng.choice(['list', 'dict', 'Obj', 'Identifier', 'Star', 'Identifier'] if with_ident else ['list', 'dict', 'Obj', 'Star']))
    nodes = []
    for k in kinds:
        if k == 'list':
            nodes.append([])
        elif k == 'dict':
            nodes.append({})
        elif k == 'Obj':
            nodes.append(Obj())
        elif k == 'Star':
            nodes.append(Star())
        else:
            nodes.append(Identifier(parts=['p']))
    atoms = ['a', 'b', 1, None, True, 2.5]

    def pick(i):
        """a value for node i: an atom or a node with a larger index (or any node when cycles are allowed)"""
        if rng.random() < 0.45 or (with_ident and i + 1 >= n):
            return rng.choice(atoms)
        if with_ident:
            return nodes[rng.randrange(i + 1, n)]
        return nodes[rng.randrange(0, n)]
    for i, (k, o) in enumerate(zip(kinds, nodes)):
        if k == 'list':
            for _ in range(rng.randint(0, 3)):
                o.append(pick(i))
        elif k == 'dict':
            for j in range(rng.randint(0, 3)):
                o['k%d' % j] = pick(i)
        elif k == 'Obj':
            for j in range(rng.randint(0, 3)):
                setattr(o, 'f%d' % j, pick(i))
        elif k == 'Star':
            if rng.random() < 0.3:
                o.alias = pick(i)
        else:
            parts = [rng.choice(['x', 'y', 'z'])] + [pick(i) for _ in range(rng.randint(0, 2))]
            o.parts = parts
            o.alias = pick(i) if rng.random() < 0.5 else None
            if rng.random() < 0.15:
                o.parentheses = pick(i)
            if rng.random() < 0.3:
                o.sub_select = pick(i)
            if rng.random() < 0.2:
                o.zz_extra = pick(i)
    return nodes[0]


def copy_line(root, hook):
    cells, rv, addr, order, it = H.serialise(root)
    return 'copy %s %s | %s' % (hook, rv, ' | '.join(cells)), addr, it


# --------------------------------------------------------------------------- run

def run(chk):
    quick = chk.tier == 'quick'
    deep = not quick
    wide = quick and bool(chk.broken())      # an obligation is broken: search wider, but bounded (~2 min)
    sd = side()
    hook = sd['hook']
    rng = common.rng_for(chk.seed, 'C18/main')
    byid = {}
    for k in chk.kf:            # a proposed entry replaces the committed one with the same id
        byid[k['id']] = k
    chk.kf[:] = list(byid.values())
    # known findings: do the witnesses still fail?
    for k in chk.kf:
        if k['status'] == 'open':
            try:
                k['_reproduced'] = reproduce_kf(k, common.rng_for(chk.seed, 'C18/kf'))
            except Exception:
                k['_reproduced'] = False
    lines, expect, dist = [], [], {}

    def bump(key):
        dist[key] = dist.get(key, 0) + 1

    per_class = {}

    def add_failures(fs):
        for f in fs:
            per_class[f.get('class')] = per_class.get(f.get('class'), 0) + 1
            if per_class[f.get('class')] > 25:          # enough examples of one class; keep the run bounded
                continue
            f.pop('_mutations', None)
            chk.classify(f, kf_match)
            chk.fail(f)

    # ---- trees: probe + copy correspondence
    trees = []
    n_trees = n_muts = n_near = 0
    bad_shape = []
    for meta, t in tree_stream(chk, quick, deep, wide):
        n_trees += 1
        chk.count(('tree', meta['dialect'], meta['sql']))
        bump('tree/%s/%s' % (meta['src'], type(t).__name__ if meta['src'] == 'hand' else 'any'))
        try:
            line, addr, it = copy_line(t, hook)
            c = copy.deepcopy(t)
            lines.append(line)
            expect.append(('copy', meta, H.canon(c, addr, it) + ' # iso=%d' % H.iso_check(t, c, it)))
        except (H.Opaque, RecursionError):
            bump('tree/unserialisable')
        except Exception:
            bump('tree/copy-raises')     # reported by probe_tree below
        try:      # hypothesis of C18_copy_iso for the hooks: Identifier objects carry exactly the attributes the hook copies
            bad_shape += [dict(meta, attrs=list(vars(x))) for x in H.walk(t) if type(x).__name__ == 'Identifier'
                          and list(vars(x)) not in (['alias', 'parentheses', 'parts'], ['alias', 'parentheses', 'parts', 'sub_select'])][:1]
        except H.Opaque:
            pass
        m = dict(meta)
        fs = probe_tree(t, rng, m, max_mut=60 if quick else 400)
        n_muts += m.get('_mutations', 0)
        add_failures(fs)
        bump('tree/%s' % ('fail' if fs else 'ok'))
        nf, nn = probe_near_miss(t, rng, dict(meta), limit=None if deep else (40 if wide else 12))
        n_near += nn
        add_failures(nf)
        if nf:
            bump('nearmiss/fail')
        if len(trees) < 400:
            trees.append((meta, t))
    chk.oblige('hyp:identShape-on-every-tree', 'hypothesis', not bad_shape, json.dumps(bad_shape[:2], default=str)[:600])
    chk.evaluations += n_muts + n_near
    dist['mutations_applied'] = n_muts
    dist['near_miss_pairs'] = n_near
    # pairwise equality laws on trees (symmetry, equal => same print)
    for i in range(min(len(trees), 300)):
        (ma, a), (mb, b) = trees[i], trees[rng.randrange(len(trees))]
        try:
            ab, ba = (a == b), (b == a)
            if ab is not ba:
                add_failures([dict(probe='pair', desc='a == b is %r but b == a is %r' % (ab, ba), a=ma, b=mb,
                                   **{'class': 'eq-asymmetric/%s' % type(a).__name__})])
            if ab and single_line(str(a)) != single_line(str(b)):
                add_failures([dict(probe='pair', desc='equal trees print differently', a=ma, b=mb,
                                   **{'class': 'eq-print-differs/%s' % type(a).__name__})])
            for other in (None, 1, 'x', [a]):
                if (a == other) is not False or (other == a) is not False:
                    add_failures([dict(probe='pair', desc='tree == %r is not False' % (other,), a=ma,
                                       **{'class': 'eq-non-node'})])
        except Exception as e:
            add_failures([dict(probe='pair', desc='== raised %s' % type(e).__name__, a=ma, b=mb,
                               **{'class': 'eq-raises/%s' % type(a).__name__})])
    # ---- synthetic graphs: copy correspondence only (sharing, cycles, Star / objects in parts, extra attributes)
    srng = common.rng_for(chk.seed, 'C18/synthetic')
    for i in range(400 if quick else 20000):
        g = synthetic_graph(srng, hook)
        try:
            line, addr, it = copy_line(g, hook)
            try:
                c = copy.deepcopy(g)
                want = H.canon(c, addr, it) + ' # iso=%d' % H.iso_check(g, c, it)
            except RecursionError:
                continue
            except Exception as e:
                want = 'none'
            lines.append(line)
            expect.append(('copy-syn', dict(src='synthetic', n=i), want))
            chk.count(('syn', line))
            bump('synthetic/' + ('raises' if want == 'none' else ('shares' if re.search(r'=o\d', want) else 'separate')))
            bump('synthetic/' + want[-5:] if want != 'none' else 'synthetic/none')
        except H.Opaque:
            pass
    # ---- plans: step / plan equality, model correspondence
    from tools.harness import corpus
    it_v = {}
    plans = []
    for s in corpus.load() + [s for d, s in EXTRA_SQL if d == 'mindsdb']:
        p1, p2, fs = probe_plan(s, dict(src='corpus'))
        if p1 is None:
            continue
        chk.count(('plan', s))
        bump('plan/%s' % ('fail' if fs else 'ok'))
        add_failures(fs)
        plans.append(((s, None), p1, p2))
    # typed planner generator (tools/harness/plangen.py): statements x catalogs
    from tools.harness import plangen
    grng = common.rng_for(chk.seed, 'C18/plangen')
    gen_cases = list(plangen.FIXED) + list(plangen.probe_stream(grng, 8000 if deep else (2000 if wide else 600)))
    seen_g = set()
    for sql_g, cat_g in gen_cases:
        if (sql_g, cat_g) in seen_g:
            continue
        seen_g.add((sql_g, cat_g))
        p1, p2, fs = probe_plan(sql_g, dict(src='plangen'), cat_g)
        if p1 is None:
            bump('plangen/rejected')
            continue
        chk.count(('plan', cat_g, sql_g))
        bump('plangen/%s' % ('fail' if fs else 'ok'))
        add_failures(fs)
        plans.append(((sql_g, cat_g), p1, p2))
    prng = common.rng_for(chk.seed, 'C18/plans')
    fixed = '1' if sd['plan'] == 'true' else '0'
    # plan-level equality laws on derived families (prefixes, the empty plan, extensions, reorderings) and on
    # steps whose container attributes are shortened / extended
    lrng = common.rng_for(chk.seed, 'C18/planlaws')
    n_law = 0
    for (sql_p, cat_p), p1, p2 in plans:
        fs, n = probe_plan_laws(p1, sql_p, cat_p, lrng, limit=16 if deep or wide else 9)
        n_law += n
        add_failures(fs)
        for i, st in enumerate(p1.steps):
            fs, n = probe_step_containers(st, sql_p, cat_p, i, lrng)
            n_law += n
            add_failures(fs)
    chk.evaluations += n_law
    dist['plan_law_pairs'] = n_law
    # classes with a generated (dataclass) __eq__ found by the extractor's introspection
    import dataclasses, importlib, pkgutil, inspect
    import mindsdb_sql
    for cname, meths in sd.get('eqdefs', []):
        if '__eq__@dataclass' in meths:
            for mi in pkgutil.walk_packages(mindsdb_sql.__path__, 'mindsdb_sql.'):
                try:
                    c = getattr(importlib.import_module(mi.name), cname, None)
                except Exception:
                    c = None
                if inspect.isclass(c) and dataclasses.is_dataclass(c):
                    add_failures(probe_dataclass_eq(c))
                    chk.count(('dataclass', cname))
                    break
    for idx, (s, p1, p2) in enumerate(plans):
        other = plans[prng.randrange(len(plans))][1]
        for q in (p2, p1, other, 'not a plan'):
            same = '1' if type(q) is type(p1) else '0'
            ta = ['_'] + [abstract_value(x, it_v) for x in p1.steps]
            tb = ['_'] + ([abstract_value(x, it_v) for x in q.steps] if same == '1' else [])
            lines.append('planeq %s %s %s | %s' % (fixed, same, ' '.join(ta), ' '.join(tb)))
            expect.append(('planeq', dict(sql=s), call_eq(p1, q)))
            if same == '1':
                want = 'true' if ref_plan_eq(p1, q) else 'false'
                got = call_eq(p1, q)
                if got != want:
                    add_failures([dict(probe='plan', sql=s[0], cat=s[1], got=got, want=want,
                                       desc='plans of %d and %d steps: == is %s but the reference reading (same length, pairwise equal steps) is %s' % (
                                           len(p1.steps), len(q.steps), got, want), **{'class': 'plan-eq-wrong/cross/%s' % got})])
        steps = list(p1.steps)
        for a in steps:
            b = prng.choice(steps + list(p2.steps) + list(other.steps))
            variants = [b]
            if prng.random() < 0.3:
                b2 = copy.copy(b)
                ks = [k for k in vars(b2)]
                r = prng.random()
                if r < 0.3 and len(ks) > 1:
                    delattr(b2, prng.choice(ks))
                elif r < 0.6:
                    b2.zz_extra = 1
                else:
                    b2.result_data = [1]
                variants.append(b2)
            for bb in variants:
                for x, y in ((a, bb), (bb, a)):
                    lines.append('stepeq %s | %s' % (' '.join(abstract_step(x, it_v)), ' '.join(abstract_step(y, it_v))))
                    expect.append(('stepeq', dict(sql=s, a=repr(x)[:200], b=repr(y)[:200]), call_eq(x, y)))
    dist['plans'] = len(plans)
    # symmetry / no exception on pairs of planner-produced steps of the same class (across plans)
    by_type = {}
    for s, p1, p2 in plans:
        for st in p1.steps:
            by_type.setdefault(type(st).__name__, []).append((s, st))
    for tn, lst in sorted(by_type.items()):
        groups = {}
        for sa, a in lst:          # one representative per distinct attribute-name set: compared with everything
            groups.setdefault(tuple(sorted(k for k in vars(a) if k != 'result_data')), (sa, a))
        reps = list(groups.values()) if len(groups) > 1 else []
        for i, (sa, a) in enumerate(lst):
            partners = [lst[prng.randrange(len(lst))] for _ in range(3 if quick else 12)] + reps
            for sb, b in partners:
                ab, ba = call_eq(a, b), call_eq(b, a)
                chk.count(('steppair', tn, sa, sb))
                if ab != ba or 'raises' in (ab, ba) or ab not in ('true', 'false'):
                    ka = sorted(k for k in vars(a) if k != 'result_data')
                    kb = sorted(k for k in vars(b) if k != 'result_data')
                    add_failures([dict(probe='steppair', sql=sa[0], cat=sa[1], sql_b=sb[0], cat_b=sb[1], step=tn, ab=ab, ba=ba, keys_a=ka, keys_b=kb,
                                       desc='%s steps of the plans of two queries: a == b is %s but b == a is %s (attributes %s vs %s)' % (tn, ab, ba, ka, kb),
                                       **{'class': 'step-eq-asymmetric/%s/%s-%s' % (tn, ab, ba)})])
    dist['step_classes'] = {k: len(v) for k, v in by_type.items()}
    # ---- eq / hash contract for every hashable class with __eq__ (found by introspection), Result streams
    from mindsdb_sql.planner.step_result import Result
    for c in hashable_eq_classes():
        try:
            c(1)
        except Exception:
            dist.setdefault('eqhash/unconstructible', []).append(c.__name__)
            continue
        fs, n = probe_eq_hash(c.__name__, c, STEP_NUMS + [prng.randrange(1000) for _ in range(3)], value_equality=c is Result)
        chk.evaluations += n
        add_failures(fs)
        bump('eqhash/' + c.__name__)
    toks = [(v, sn_token(v)) for v in STEP_NUMS + [prng.randrange(1000) for _ in range(6)] + ['%d_%d' % (prng.randrange(9), prng.randrange(4)) for _ in range(4)]]
    toks = [(v, t) for v, t in toks if t]
    for x, tx in toks:
        for y, ty in toks:
            lines.append('reseq %s %s' % (tx, ty))
            expect.append(('reseq', dict(x=repr(x), y=repr(y)), call_eq(Result(x), Result(y))))
    for n, tn_ in [(v, t) for v, t in toks]:
        add_failures(probe_result(n) if isinstance(n, int) else [])
        chk.count(('result', n))
        # the `hash` stream ties the variant the tree has: live = hash of the key ('Result', step_num) (oracle value:
        # the tuple hash), former = resultHash (TypeError)
        try:
            got = 'ok %d' % hash(Result(n))
        except TypeError:
            got = 'TypeError'
        except Exception as e:
            got = type(e).__name__
        if sd['hash_ok']:
            lines.append('hash fixed %s %d' % (tn_, hash(('Result', n))))
        elif isinstance(n, int):
            lines.append('hash pinned %d' % n)
        else:
            continue
        expect.append(('hash', dict(n=n), got))
    # ---- to_single_line: model (variant probed by the extractor) vs the real function
    sl_texts = [str(t) for m_, t in trees[:150]]
    sl_alpha = [' ', ' ', '\n', '\t', 'a', 'b', "'", '"', '`', '\\', 'x', '.', '(']
    for _ in range(20000 if deep else 600):
        sl_texts.append(''.join(prng.choice(sl_alpha) for _ in range(prng.randint(0, 16))))
    for x in sl_texts:
        if all(ord(ch) < 128 and (ch >= ' ' or ch in '\n\t') for ch in x):
            lines.append('sline %s %s' % (sd.get('sl_variant', 'pinned'), ','.join(str(ord(ch)) for ch in x)))
            expect.append(('sline', dict(text=x[:200]), ','.join(str(ord(ch)) for ch in single_line(x))))
    from mindsdb_sql.parser.ast.create import TableColumn
    vals = ['a', 'b', 'int', None, True, False, 3]
    it_c = {}
    for i in range(200):
        fa = [prng.choice(vals) for _ in range(6)]
        fb = [x if prng.random() < 0.8 else prng.choice(vals) for x in fa]
        mk = lambda f: TableColumn(name=f[0], type=f[1], is_primary_key=f[2], default=f[3], length=f[4], nullable=f[5])
        tok = lambda f: ' '.join(it_c.setdefault(('num', float(x)) if isinstance(x, (bool, int)) else repr(x), 'c%d' % len(it_c)) for x in f)
        lines.append('coleq %s | %s' % (tok(fa), tok(fb)))
        expect.append(('coleq', dict(a=fa, b=fb), call_eq(mk(fa), mk(fb))))
    # ---- run the model
    try:
        outs = common.lean_run('Heap', lines)
        per = {}
        for (kind, meta, want), got, line in zip(expect, outs, lines):
            st = per.setdefault(kind, dict(cases=0, diverged=0, first=None))
            st['cases'] += 1
            if got.strip() != want.strip():
                st['diverged'] += 1
                if st['first'] is None:
                    st['first'] = dict(meta=meta, model=got[:600], impl=want[:600], line=line[:1200])
        bad_iso = [m for (kind, m, want), got in zip(expect, outs) if kind == 'copy' and not got.strip().endswith('iso=1')]
        chk.oblige('iso:model-copy-of-every-tree', 'theorem-instance', not bad_iso,
                   'Heap.isoCheck rejects the model copy of %s' % json.dumps(bad_iso[:1], default=str)[:600] if bad_iso else '')
        for kind, st in sorted(per.items()):
            chk.corr_result(kind, st['cases'], st['diverged'], st['first'], dist if kind == 'copy' else None)
    except Exception as e:
        chk.oblige('corr:heap', 'correspondence', False, 'driver failed: %s' % e)
    for (kind, meta, want), line in list(zip(expect, lines))[:2]:
        chk.samples.append(dict(kind=kind, meta=meta, line=line[:300], result=want[:300]))
    chk.samples.append(dict(theorem='C18 : C18_full := (∀ h0 v, wfB h0 → v.okB h0.length → parenAtomicB h0 → CopyBody identHook h0 v) ∧ '
                                    '(∀ h0 v, wfB h0 → v.okB h0.length → identShapeB h0 → CopyIso identHook h0 v) ∧ planEqOnEqual = .true ∧ resultHashOk = true'))
    chk.samples.append(dict(theorem='CopyBody hook h0 v := ∀ fuel h\' v\', deepcopy hook fuel h0 v = some (h\', v\') → (∀ a < h0.length, h\'[a]? = h0[a]?) ∧ '
                                    '(∀ b, Reach h\' v\' b → ¬ Reach h\' v b) ∧ (∀ F Local, ∀ mutations ms of cells ≥ h0.length, F (mutateAll h\' ms) v = F h0 v) ∧ …;  '
                                    'CopyIso hook h0 v := … → (∀ n, unfold n h0 v = unfold n h\' v\') ∧ ∀ F Structural, F h0 v = F h\' v\''))
    chk.samples.append(dict(theorem='C18_plan_eq_list : planEq seq true st a b = .true ↔ st = true ∧ eqList seq a b = true;  ext ≠ [] → planEq … a (a ++ ext) ≠ .true'))
    return chk.finish(assumptions=ASSUME, extra=dict(probed=sd, trees=n_trees, mutations=n_muts))


def replay(path):
    data = json.load(open(path))
    f = data.get('failure')
    if not f:
        print(json.dumps(data, indent=1)[:3000])
        return 1
    from mindsdb_sql import parse_sql
    rng = common.rng_for(0, 'C18/replay')
    if f.get('probe') == 'tree':
        fs = probe_tree(parse_sql(f['sql'], f['dialect']), rng, dict(dialect=f['dialect'], sql=f['sql']), max_mut=None)
    elif f.get('probe') == 'plan':
        fs = probe_plan(f['sql'], {}, f.get('cat'))[2]
    elif f.get('probe') == 'result':
        fs = probe_result(f['n'])
    elif f.get('probe') == 'nearmiss':
        a = parse_sql(f['sql'], f['dialect'])
        b = copy.deepcopy(a)
        site = (f['site'][0], f['site'][1], f['old'])
        set_site(b, site, f['new'])
        fs = check_near_miss(a, b, dict(dialect=f['dialect'], sql=f['sql']), site, f['variant'], f['new'])
    elif f.get('probe') == 'nearmiss-copy':
        a = parse_sql(f['sql'], f['dialect'])
        b = copy.deepcopy(a)
        site = (f['site'][0], f['site'][1], f['old'])
        set_site(b, site, f['new'])
        fs = check_variant_copy(a, b, dict(dialect=f['dialect'], sql=f['sql']), site, f['variant'], f['new'])
    elif f.get('probe') == 'eqhash':
        fs = [g for c in hashable_eq_classes() if c.__name__ == f['cls']
              for g in probe_eq_hash(c.__name__, c, STEP_NUMS, value_equality=c.__name__ == 'Result')[0] if g['class'] == f['class'] and g['x'] == f['x'] and g['y'] == f['y']]
    elif f.get('probe') == 'planpair':
        from mindsdb_sql.planner import plan_query
        p = plan_query(parse_sql(f['sql'], 'mindsdb'), **catalog_of(f.get('cat')))
        a, b = mkplan(p, f['idx_a']), mkplan(p, f['idx_b'])
        got, want = call_eq(a, b), ('true' if ref_plan_eq(a, b) else 'false')
        fs = [dict(f, got=got, want=want)] if (got != want or call_eq(b, a) != got or f['class'] == 'plan-eq-not-transitive'
                                                and call_eq(a, mkplan(p, f['idx_mid'])) == 'true' and call_eq(mkplan(p, f['idx_mid']), b) == 'true' and got != 'true') else []
    elif f.get('probe') == 'stepcontainer':
        from mindsdb_sql.planner import plan_query
        p = plan_query(parse_sql(f['sql'], 'mindsdb'), **catalog_of(f.get('cat')))
        fs = [g for g in probe_step_containers(p.steps[f['step_index']], f['sql'], f.get('cat'), f['step_index'], rng)[0]
              if g['class'] == f['class']]
    elif f.get('probe') == 'steppair':
        from mindsdb_sql.planner import plan_query
        fs = []
        pa = plan_query(parse_sql(f['sql'], 'mindsdb'), **catalog_of(f.get('cat')))
        pb = plan_query(parse_sql(f['sql_b'], 'mindsdb'), **catalog_of(f.get('cat_b')))
        for a in pa.steps:
            for b in pb.steps:
                if type(a).__name__ == f['step'] == type(b).__name__:
                    ab, ba = call_eq(a, b), call_eq(b, a)
                    if ab != ba or 'raises' in (ab, ba):
                        fs.append(dict(f, ab=ab, ba=ba))
    else:
        print(json.dumps(f, indent=1)[:3000])
        return 1
    hit = [g for g in fs if g['class'] == f['class']] or fs
    print('REPRODUCED' if hit else 'not reproduced', json.dumps(hit[0] if hit else f, default=str)[:800])
    return 1 if hit else 0
