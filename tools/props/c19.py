"""C19 — syntax errors point at the offending token and suggestions really help (mindsdb dialect)."""
import json, re, sys
from tools.harness import common, lr, gen, streams

ID = 'C19'
D = 'mindsdb'
TARGETS = ['MindsVerif.Props.C19', 'MindsVerif.Props.C19Lex']
_P = 'MindsVerif.Props.C19.'
THEOREMS = [_P + n for n in (
    # the part of the full statement that is proved
    'C19_partial', 'C19_partial_mindsdb', 'C19_full_caret_holds', 'C19_parser_bad_token_holds',
    'C19_parser_suggestion_holds', 'C19_accepted_is_viable',
    # clause 1 (location), live part-by-part variant
    'C19_caret_split', 'C19_caret_uniform', 'C19_review_caret_uniform_line', 'C19_review_full_caret_holds',
    'C19_eof_caret_uniform', 'C19_review_srcChain_example', 'C19_review_srcChain_example2', 'C19_lexer_caret',
    # round 5: the lexer-error path over texts (every line-separator character is an ordinary character of a line)
    'C19_full_lexer_caret_holds', 'C19_lexer_caret_text', 'C19_lexer_line_unique', 'C19_partial_r5',
    'C19_regress_splitlines_crlf', 'C19_regress_splitlines_wrong_line', 'C19_regress_splitlines_separator_char',
    # clause 2 (which token), parser level
    'C19_bad_token_prefix', 'C19_bad_token_prefix_mindsdb', 'C19_bad_token_deterministic',
    'C19_no_accepted_continuation', 'C19_bad_token_deterministic_mindsdb',
    # clause 3 (suggestions)
    'C19_suggestions_checked', 'C19_suggestions_sentence_mindsdb', 'C19_suggestion_is_row_key',
    'C19_key_classification', 'C19_shift_key_extends', 'C19_kept_token_extends', 'C19_review_errStack_errAtSt',
    'C19_review_kept_expected_extends', 'C19_review_suggestion_extends', 'C19_key_totals_mindsdb',
    'C19_witness_replace_previous', 'C19_witness_replace_index0',
    # history: the one-piece variant (reached only through errorLocationV_true_eq) and regression theorems
    'C19_caret_partial', 'C19_caret_source', 'C19_eof_caret', 'C19_variant_agrees', 'C19_caret_partial_v',
    'C19_eof_caret_v', 'C19_regress_rewritten_value_short_caret', 'C19_regress_onepiece_newline_in_token',
    'C19_outside_layout_truncation')] + [
    # round 6: the hypothesis SrcChain is what the lexer MODEL produces (Props/C19Lex.lean over Model/SlyLex + Gen/LexRe_mindsdb)
    'MindsVerif.Props.C19Lex.lexed_srcChain', 'MindsVerif.Props.C19Lex.lexed_err_srcChain',
    'MindsVerif.Props.C19Lex.lexed_srcChain_mindsdb', 'MindsVerif.Props.C19Lex.chain_srcChain',
    'MindsVerif.Props.C19Lex.lexed_example']
ASSUME = [
    'ErrorHandling.error_location (live part-by-part variant) / make_suggestion / process and MindsDBLexer.error are '
    'hand-modelled (MindsVerif.Err); tie = stream `err-message` of this run (model message == real message, byte for byte)',
    'MindsDBLexer.error over TEXTS (C19_full_lexer_caret_holds): the complete message incl. the header is the model `lexErrorMsg`; '
    'tie = stream `err-lex` of this run (texts under every line-separator family: LF, CRLF, CR, LF CR, mixed, Unicode / control '
    'separators inside tokens / comments and as the offending character) + the extractor flags ErrLex.lexLineSeps = [10], '
    'ErrLex.lexCaretOnChar; WHICH offset the lexer reports is an input taken from the real LexError (lexer not modelled); repr of the '
    'character is exact below U+0100 and for U+2028/9, other code points are assumed printable (non-printable ones are skipped in the stream)',
    'round 6: SrcChain is PROVED for the output of the regex-level lexer model (lexed_srcChain, every text) decorated as '
    'MindsDBLexer.tokenize decorates its tokens (value = text[index:end], lineno = 1 + newlines before index); those two decoration '
    'facts and the token boundaries are tied to the real lexer by the stream slylex (run by C02; every token of every text). Before: '
    'the lexer is not modelled: its semantics (value = source slice, lineno = 1 + newlines before index, tokens in text order '
    'without overlap) is the hypothesis SrcChain of C19_full_caret_holds; it is checked on every token list of the stream '
    '(obligations `probe:value-is-source`, `probe:lineno-uniform`, `probe:layout-invariant`) and pinned by the extractor flags '
    'ErrLex.splitValues / ErrLex.uniformLineno, not proved about sly/lex.py',
    'which token is bad, in which state, with which action-row keys (ErrInfo of LR.parse) is tied on the C19 inputs by the '
    'stream `lr` of this run (same comparison as C05/C02: outcome, reduction log, bad index, state, expected set)',
    'MindsDBParser._can_take is hand-modelled (LR.canTake, fuelled); tie = stream `can-take` (kept keys == stored expected_tokens)',
    'query_is_valid = acceptance by the LR model AND no semantic action raising; the semantic actions of the re-parse are NOT '
    'modelled: which synthesised lists make an action raise is an INPUT of the driver taken from the real run (`raises`); the '
    'theorems about the checked branch hold for every `raises`',
    'grammar-level clauses of C19_full (the bad token is the first the GRAMMAR cannot continue; a suggestion can be completed '
    'to a sentence) are search only (Earley oracle over the exported productions); the first is false today: KF-C19-3',
    'probe readings: a sentence rejected by a semantic action, an action of the first parse firing before the bad token, and '
    'a LexError pre-empting an earlier syntax error are not judged; a token spanning lines is marked on its first line; a chained '
    '%nonassoc operator (explicit error entry of the action row) is the grammar\'s bad token; shown lines are compared with the '
    'comment-blanked source up to blanks',
]

import collections
KIND_STATS = collections.Counter()
COMMENT_RE = re.compile(r'/\*[\s\S]*?\*/|--[^\n]*')


# --------------------------------------------------------------------------- real code access

def strip_sql(sql):
    return re.sub(r'[\s;]+$', '', sql)


def real_message(text):
    """-> (kind, message) with kind in accept / syn / lex / crash:<type>"""
    from mindsdb_sql import parse_sql
    from mindsdb_sql.exceptions import ParsingException
    from sly.lex import LexError
    try:
        parse_sql(text, D)
        return 'accept', None
    except ParsingException as e:
        return 'syn', str(e)
    except LexError as e:
        return 'lex', str(e)
    except RecursionError:
        return 'crash:RecursionError', ''
    except Exception as e:
        return 'crash:' + type(e).__name__, str(e)


def real_error_info(text, with_reparse=False):
    """tokens and error_info of the real lexer/parser (fresh objects); None when lexing fails"""
    from mindsdb_sql import get_lexer_parser
    lexer, parser = get_lexer_parser(D)
    sql = strip_sql(text)
    try:
        toks = list(lexer.tokenize(sql))
    except Exception as e:
        return dict(sql=sql, lexerr=getattr(e, 'error_index', None))
    rec = {}
    orig_error = parser.error

    def error(p, expected_tokens=None):
        if 'state' not in rec:
            rec['state'] = parser.state      # SLY state number of the error state (this process)
        return orig_error(p, expected_tokens=expected_tokens)
    parser.error = error
    try:
        res = parser.parse(iter(toks))
    except Exception as e:
        return dict(sql=sql, toks=toks, action_exc=type(e).__name__)
    if res is not None:
        return dict(sql=sql, toks=toks, accepted=True)
    info = parser.error_info
    alltoks = [t for t in info['tokens'] if t is not None]
    bad = info['bad_token']
    k = None if bad is None else next(i for i, t in enumerate(alltoks) if t is bad)
    row = parser._lrtable.lr_action.get(rec.get('state'), {})
    kinds = {name: ('none' if v is None else 'shift' if v > 0 else 'reduce' if v < 0 else 'accept')
             for name, v in row.items()}
    out = dict(sql=sql, toks=alltoks, bad=k, expected=list(info['expected_tokens']), raising=[], key_kinds=kinds)
    if with_reparse:
        # which synthesised lists make a semantic action of the re-parse raise (input of the model,
        # which does not model the actions): instrumented subclass, harness side only
        from mindsdb_sql import ErrorHandling
        rec = out['raising']

        class EH(ErrorHandling):
            def query_is_valid(self, tokens):
                tokens = list(tokens)
                try:
                    self.parser.parse(iter(tokens))
                except Exception:
                    rec.append([t.type for t in tokens])
                return super().query_is_valid(tokens)
        try:
            EH(lexer, parser).process(dict(info))
        except Exception:
            pass
    return out


def enc(s):
    return ','.join(str(ord(c)) for c in s) if s else '-'


def dec(s):
    return '' if s == '-' else ''.join(chr(int(x)) for x in s.split(','))


def model_line_syn(R, info):
    f = ['P', 'eof' if info['bad'] is None else str(info['bad']),
         ','.join(str(R.tid[x]) for x in info['expected']) or '-',
         ';'.join(','.join(str(R.tid[x]) for x in l) for l in info.get('raising', [])) or '-']
    for t in info['toks']:
        f += [str(R.tid[t.type]), str(t.lineno), str(t.index), enc(str(t.value))]
    return ' '.join(f)


# --------------------------------------------------------------------------- the property's own oracle

def blank_comments(sql):
    return COMMENT_RE.sub(lambda m: ''.join(c if c == '\n' else ' ' for c in m.group(0)), sql)


def norm(s):
    return ' '.join(s.split())


def parse_message(msg):
    """-> dict(header, shown=[lines without '>'], caret=(dashes, carets) or None, suggestions=[...], raw)"""
    lines = msg.split('\n')
    out = dict(header=lines[0], shown=[], caret=None, suggestions=[], ok=True)
    ci = None
    for i in range(len(lines) - 1, 0, -1):
        if re.fullmatch(r'-*\^+', lines[i]):
            ci = i
            break
    if ci is None:
        out['ok'] = False
        return out
    m = re.fullmatch(r'(-*)(\^+)', lines[ci])
    out['caret'] = (len(m.group(1)), len(m.group(2)))
    body = lines[1:ci]
    out['body_raw'] = body
    out['shown'] = [l[1:] for l in body if l.startswith('>')]
    out['body_ok'] = all(l.startswith('>') for l in body)
    rest = lines[ci + 1:]
    if rest:
        m = re.fullmatch(r'(Possible inputs|Expected symbol): "(.*)"', '\n'.join(rest), flags=re.S)
        if not m:
            out['ok'] = False
        else:
            out['suggestions'] = m.group(2).split('", "')
            out['sugg_kind'] = m.group(1)
    return out


_sugg_types = {}


def suggestion_types(s):
    """token types a displayed suggestion can stand for ([] = not a concrete single token)"""
    if s in _sugg_types:
        return _sugg_types[s]
    if s == '[identifier]':
        r = ['ID']
    elif s == '[number]':
        r = ['INTEGER', 'FLOAT']
    elif s == '[string]':
        r = ['QUOTE_STRING', 'DQUOTE_STRING']
    else:
        from mindsdb_sql import get_lexer_parser
        lexer, _ = get_lexer_parser(D)
        try:
            toks = list(lexer.tokenize(s))
            r = [toks[0].type] if len(toks) == 1 else []
        except Exception:
            r = []
    _sugg_types[s] = r
    return r


def fail(cls, desc, text, **kw):
    return dict(desc=desc, dialect=D, text=text, **{'class': cls}, **kw)


def probe_case(text, earley, kind=None, msg=None):
    """impl-level oracle of C19 applied to the real parse_sql message; returns list of failure dicts"""
    if kind is None:
        kind, msg = real_message(text)
    if kind == 'accept' or kind.startswith('crash'):
        return []      # crashes are C02's business (KF-C02-*)
    sql = strip_sql(text)
    out = []
    if kind == 'lex':
        return probe_lex(text, sql, msg)
    from mindsdb_sql import get_lexer_parser
    lexer, _ = get_lexer_parser(D)
    try:
        toks = list(lexer.tokenize(sql))
    except Exception:
        if not msg.startswith('Syntax error'):
            # a semantic action of the first parse raised before the lazy lexer reached the illegal
            # character: the message is that action's, not judged (same reading as below)
            return []
        return [fail('syn-msg-but-lexerror', 'located syntax-error message although the text does not lex', text, msg=msg)]
    if not toks:
        return [] if msg == 'Empty input' else [fail('empty', 'no tokens but message is not "Empty input"', text, msg=msg)]
    pm = parse_message(msg)
    types = [t.type for t in toks]
    if not msg.startswith('Syntax error') or not pm['ok'] or pm['caret'] is None:
        if not msg.startswith('Syntax error') and earley.accepts(types):
            # a sentence of the grammar rejected by a semantic action: there is no token "the grammar cannot
            # accept", the property's location clause does not apply
            return []
        info = real_error_info(text)
        if 'expected' not in info:
            # a semantic action of the FIRST parse rejected the statement before the parser reached the offending
            # token: the message is that action's, the syntax-error clauses are not judged
            return []
        return [fail('no-location', 'ParsingException for a text that is not a sentence of the grammar carries no source '
                     'location (message: %s)%s' % (msg[:80], '; raised by the re-parse of a synthesised token list inside '
                                                   'make_suggestion' if 'expected' in info else ''),
                     text, msg=msg, from_reparse='expected' in info)]
    k = earley.viable_prefix_len(types)
    info = real_error_info(text)
    pk = info.get('bad', 'n/a') if 'expected' in info else 'n/a'
    pk = len(toks) if pk is None else pk
    if isinstance(pk, int) and pk < k and pk < len(toks) and info.get('key_kinds', {}).get(toks[pk].type) == 'none':
        # the action row of the error state holds an explicit error entry for this token: a %nonassoc operator
        # chained without parentheses (a < b < c).  The precedence declaration is part of the grammar, the
        # context-free Earley oracle does not know it: the parser's bad token IS the grammar's
        k = pk
    src = blank_comments(sql)
    starts = [0]
    for i, c in enumerate(sql):
        if c == '\n':
            starts.append(i + 1)

    def line_of(ix):
        n = 0
        for j, s in enumerate(starts):
            if s <= ix:
                n = j
        return n
    srclines = src.split('\n')
    dashes, carets = pm['caret']
    shown = pm['shown']
    rew = [i for i, t in enumerate(toks) if str(t.value) != sql[t.index:t.end]]
    kk = min(pk if isinstance(pk, int) else k, k, len(toks) - 1)
    cur_line = line_of(toks[kk].index)
    tok_lines = sorted({l for t in toks for l in range(line_of(t.index), line_of(max(t.index, t.end - 1)) + 1)})
    near = set([cur_line] + [l for l in tok_lines if l < cur_line][-2:])
    rew_near = [i for i in rew if line_of(toks[i].index) in near]
    bad_end = max(t.end for t in toks if t.lineno == toks[kk].lineno)
    nl_tok = any('\n' in sql[t.index:t.end] and t.index < bad_end for t in toks) or any(
        '\n' in m.group(0) and m.group(0).startswith('/*') and m.start() < bad_end for m in COMMENT_RE.finditer(sql))
    nl_val = any('\n' in sql[t.index:t.end] and t.index < bad_end for t in toks)
    ctx = dict(msg=msg, bad_index=k, parser_bad_index=pk, rewritten=rew_near, newline_in_token=nl_tok,
               newline_in_value=nl_val)
    if not shown or not pm['body_ok']:
        out.append(fail('no-source-line', 'message shows no source line', text, **ctx))
        return out
    last = shown[-1]
    if isinstance(pk, int) and pk < k:
        # the LALR parser (conflict / precedence resolution) gives up before the grammar does
        t = toks[pk]
        want = sql[t.index:t.end].split('\n')[0]   # a token spanning lines: one caret line can mark its first line only
        col = dashes - 1
        under = last[col:col + carets] if col >= 0 else None
        good = under == want and carets == len(want) and 'unknown input' in pm['header']
        out.append(fail('bad-token-early' if good else 'caret-span',
                        'parser reports token %d %r as bad, but the grammar can continue up to token %d (Earley)%s'
                        % (pk, want, k, '' if good else '; and the carets do not even mark the parser\'s bad token: %r' % under),
                        text, under=under, want=want, **ctx))
        return out
    if k == len(toks):
        # end of input: caret of length 1 just after the last token
        if 'unexpected end of query' not in pm['header']:
            out.append(fail('bad-token-early', 'parser reports a bad token although every token continues some '
                            'sentence (Earley): expected the end-of-query message', text, **ctx))
            return out
        t = toks[-1]
        col = dashes - 1
        # the last source line is the one on which the last token ENDS (it may span lines: IS\nNOT, 'a\nb')
        want_line = srclines[line_of(max(t.index, t.end - 1))]
        end_col = t.end - starts[line_of(max(t.index, t.end - 1))]
        if carets != 1 or col != len(last) or norm(last) != norm(want_line) or \
                norm(last[:col]) != norm(want_line[:end_col]):
            cls = 'eof-caret'
            out.append(fail(cls, 'end-of-query caret is not one past the last token of the last source line', text,
                            shown=last, want=want_line, **ctx))
    else:
        if 'unknown input' not in pm['header']:
            out.append(fail('bad-token-late', 'parser reports end of query but token %d cannot continue any sentence' % k,
                            text, **ctx))
            return out
        t = toks[k]
        want = sql[t.index:t.end].split('\n')[0]   # a token spanning lines: one caret line can mark its first line only
        col = dashes - 1
        under = last[col:col + carets] if col >= 0 else None
        ln = line_of(t.index)
        want_line = srclines[ln]
        wcol = t.index - starts[ln]
        if under != want or carets != len(want):
            # which token does the caret point at?
            out.append(fail('caret-span', 'carets do not mark exactly the characters of the first token the grammar '
                            'cannot accept (token %d %r): under the carets: %r' % (k, want, under), text,
                            under=under, want=want, shown=last, **ctx))
        elif norm(last) != norm(want_line) or norm(last[:col]) != norm(want_line[:wcol]):
            out.append(fail('source-line', 'the shown line is not the source line of the offending token',
                            text, shown=last, want=want_line, **ctx))
    # context lines: the token-bearing source lines just before
    if not out and len(shown) > 1:
        tl = tok_lines
        cur = line_of(toks[k].index) if k < len(toks) else line_of(max(toks[-1].index, toks[-1].end - 1))
        prev = [l for l in tl if l < cur][-(len(shown) - 1):]
        if [norm(srclines[l]) for l in prev] != [norm(s) for s in shown[:-1]]:
            out.append(fail('context-lines', 'context lines are not the preceding source lines', text,
                            shown=shown[:-1], want=[srclines[l] for l in prev], **ctx))
    # suggestions
    unchecked = len(pm['suggestions']) == 1 or k == len(toks)
    for s in pm['suggestions']:
        tys = suggestion_types(s)
        if unchecked:
            kk = [info.get('key_kinds', {}).get(ty) for ty in tys]
            KIND_STATS['unchecked-suggestion/' + ('shift' if 'shift' in kk else 'reduce' if 'reduce' in kk else 'none')] += 1
        if not tys:
            out.append(fail('suggestion-not-a-token', 'suggestion %r is not a concrete keyword or symbol '
                            '(it does not lex to one token)' % s, text, suggestion=s, **ctx))
            continue
        if not any(earley.viable_prefix_len(types[:k] + [ty]) == k + 1 for ty in tys):
            # Φ19: is the suggested key a shift key or only a reduce look-ahead of the error state?
            kk = [info.get('key_kinds', {}).get(ty) for ty in tys]
            kind = 'shift' if 'shift' in kk else 'reduce' if 'reduce' in kk else 'none'
            ctx = dict(ctx, key_kind=kind)
            out.append(fail('suggestion-useless', 'suggestion %r can neither be inserted before nor substituted for the '
                            'offending token %d: %s + [%s] is not a prefix of any sentence' % (s, k, types[max(0, k - 3):k], tys[0]),
                            text, suggestion=s, n_suggestions=len(pm['suggestions']), **ctx))
    return out


LINE_BREAKS = '\n\r\x0b\x0c\x1c\x1d\x1e\x85\u2028\u2029'      # the boundaries of str.splitlines()
BREAK_RE = re.compile('\r\n|[' + LINE_BREAKS + ']')


def eol_family(sql):
    """which line-separator convention(s) the text uses (for the distribution / failure context)"""
    kinds = set(BREAK_RE.findall(sql))
    base = kinds & {'\n', '\r\n', '\r'}
    names = {'\n': 'lf', '\r\n': 'crlf', '\r': 'cr'}
    out = 'one-line' if not kinds else 'mixed' if len(base) > 1 else names[next(iter(base))] if base else 'uni-only'
    return out + ('+uni' if kinds - base and base else '')


def probe_lex(text, sql, msg):
    """oracle for the illegal-character report, independent of the line-separator convention of the text and of the
    one the implementation chooses: the echoed line is a piece of the source bounded by line boundaries (start / end of
    text, or any separator str.splitlines knows) that CONTAINS the offending offset, and the caret column is the
    distance of that offset from the start of the piece, so that echoed[col] is the offending character"""
    from mindsdb_sql import get_lexer_parser
    lexer, _ = get_lexer_parser(D)
    ix = None
    try:
        list(lexer.tokenize(sql))
    except Exception as e:
        ix = getattr(e, 'error_index', None)
    if ix is None:
        return [fail('lex-msg-but-lexes', 'LexError although the text lexes', text, msg=msg)]
    lines = msg.split('\n')
    m = re.fullmatch(r'(-*)\^', lines[-1])
    ln = sql.count('\n', 0, ix)
    colnl = ix - (sql.rfind('\n', 0, ix) + 1)
    ctx = dict(msg=msg, line=ln, col=colnl, nlines=sql.count('\n') + 1, index=ix, eol=eol_family(sql))
    want = "Illegal character %r:" % sql[ix]
    body = lines[1:-1]
    if not m or lines[0] != want or not body or not all(l.startswith('>') for l in body):
        return [fail('lex-format', 'unexpected LexError message', text, **ctx)]
    echoed = body[-1][1:]
    col = len(m.group(1)) - 1
    start = ix - col
    end = start + len(echoed)
    if col < 0 or start < 0 or col >= len(echoed) or sql[start:end] != echoed:
        at = echoed[col:col + 1] if col >= 0 else None
        return [fail('lex-caret', 'illegal-character caret does not sit under the character in its shown source line: the '
                     'caret column %d of the echoed line %r holds %r, the offending character %r is at offset %d (line %d, '
                     'column %d counting \\n)' % (col, echoed, at, sql[ix], ix, ln, colnl), text, **ctx)]
    if not ((start == 0 or sql[start - 1] in LINE_BREAKS) and (end == len(sql) or sql[end] in LINE_BREAKS)):
        return [fail('lex-caret', 'the echoed line %r is not a whole line of the source (it is not bounded by line '
                     'boundaries)' % echoed, text, **ctx)]
    if len(body) > 2:
        return [fail('lex-context', 'more than one context line', text, **ctx)]
    if len(body) == 2:
        prev = body[0][1:]
        head = sql[:start]
        ok = False
        for brk in ['\r\n'] + list(LINE_BREAKS):
            if head.endswith(prev + brk):
                p0 = len(head) - len(brk) - len(prev)
                if p0 == 0 or sql[p0 - 1] in LINE_BREAKS:
                    ok = True
        if not ok:
            return [fail('lex-context', 'illegal-character context line is not the previous source line', text, **ctx)]
    return []


def kf_match(k, f):
    sig = k.get('signature', {})
    if f.get('class') not in sig.get('classes', []):
        return False
    need = sig.get('requires')
    if need == 'rewritten-token-on-or-before-error-line':
        return bool(f.get('rewritten')) and not f.get('newline_in_token')
    if need == 'newline-inside-token-or-comment':
        return bool(f.get('newline_in_token'))
    if need == 'newline-inside-token-value':
        # since repo 582d86b comments advance lineno: only a TOKEN (string, quoted id, variable, two-word
        # keyword) whose text contains a newline is covered
        return bool(f.get('newline_in_value'))
    if need == 'first-line-of-multiline':
        return f.get('line') == 0 and f.get('nlines', 0) > 1 and f.get('col') is not None
    if need == 'regex-residue':
        return bool(re.search(sig['suggestion_re'], f.get('suggestion', '')))
    if need == 'raised-in-suggestion-reparse':
        return bool(f.get('from_reparse'))
    if need == 'parser-earlier-than-grammar':
        return isinstance(f.get('parser_bad_index'), int) and f['parser_bad_index'] < f.get('bad_index', -1)
    if need == 'raw-action-row-key':
        # unchecked branch AND the key is only a reduce look-ahead of the error state (Φ19: a shift key of
        # the error state extends the parser's path, C19_shift_key_extends, so it must help)
        return (f.get('n_suggestions') == 1 or 'unexpected end of query' in f.get('msg', '')) \
            and f.get('key_kind') == 'reduce'
    return need is None


# --------------------------------------------------------------------------- stream

SEPS = [' ', ' ', ' ', '\n', '  ', '\t', ' /* x */ ', ' -- y\n', '\n\n ', '\n    ', '\n']
LEAD = ['', '', '', '  ', '\n', '\t', '\n  ', '/* h */ ', '-- h\n']
ILLEGAL = ['#', '^', '&', 'é', '\\', '!']


def relayout(text, rng, hard=False):
    from mindsdb_sql import get_lexer_parser
    lexer, _ = get_lexer_parser(D)
    try:
        toks = list(lexer.tokenize(text))
    except Exception:
        return None
    lex = [text[t.index:t.end] for t in toks]
    seps = SEPS + ([' /* a\n b */ '] if hard else [])
    return rng.choice(LEAD) + ''.join(l + rng.choice(seps) for l in lex)


def case_stream(rng, n_mut, n_sent, grammar, rng_eol=None):
    # round 5: the small multi-line layouts under every separator family come first (own generator state), so that the first
    # replay of a broken line / column computation is a short text
    for c in eol_lines(rng_eol or rng, min(max(400, n_mut // 2), 3000)):
        yield c
    for case in streams.statement_stream(D, rng, n_mut, n_sent, grammar=grammar):
        yield case
        r = rng.random()
        if r < 0.5:
            t = relayout(case['text'], rng, hard=rng.random() < 0.1)
            if t is not None:
                yield dict(src=case['src'] + '+layout', text=t)
        elif r < 0.58 and case['text']:
            t = case['text']
            i = rng.randrange(len(t) + 1)
            yield dict(src=case['src'] + '+illegal', text=t[:i] + rng.choice(ILLEGAL) + t[i:])
        elif r < 0.67 and case['text']:
            fam, t = relayout_eol(case['text'], rng)
            if t is not None:
                if rng.random() < 0.4:
                    sp = [j for j, ch in enumerate(t) if ch in ' \r\n']
                    j = rng.choice(sp) if sp else len(t)
                    t = t[:j] + rng.choice(ILLEGAL + UNI_BREAKS) + t[j:]
                    yield dict(src='eolrl:%s:ill+' % fam + case['src'], text=t)
                else:
                    yield dict(src='eolrl:%s:syn+' % fam + case['src'], text=t)
    for c in lex_after_multiline(rng, max(150, n_mut // 4)):
        yield c
    for c in syn_after_multiline(rng, max(150, n_mut // 4)):
        yield c
    for c in eof_after_multiline(rng, max(150, n_mut // 4)):
        yield c
    for g in ["select /* a\n b */ 1 #", "select 'a\nb' #", "select a IS\nNOT null #", "select /* a\n b */ 1\n#\nfrom t",
              "select 'a\n\nb',\n c\n from t &", "# /* a\n b */", "select a from t where a IS\nNOT", "select a from t where x in (1, 'p\nq'", "insert into `my\ntable`", "select a IS\nNOT null null", "select a NOT\n\n IN (1) (2)", "select `x\ny` from from", "select @'a\nb' @b", "select #\nfrom t", "select a\nfrom t #", "select @aa @bb", "select 'it''s' 'x' from", "select 1 1",
              "  select\n    a b c d\n  from t t t", "select a /* c\n c */ from from", "select 'a\nb' from from",
              "select a from t1 join", "from", "\n\n  from", "select\n\n\n1\n\n\n2", "select * from t where a not b c",
              "select a from t where", "create", "select a,\n  b,\n  c c c\nfrom t", "\tselect\t1\t1", "select 1 )",
              "select (1", "select a from t order by", "insert into t values (1,", "select a from t limit 1 1",
              "create model m predict", "select a from t where x in (1, 2", "select case when 1 then 2",
              "select a\r\nfrom t #", "select a,\r\n b,\r\n c from from", "select a\rfrom t\rwhere !", "select a\x0c,b", "select 'a\u2028b',\n c #",
              "select /* a\r\n b */ 1\r\n, #", "select a,\n\r b ! c", "select\r\n\r\n a #", "select 'a\r\nb' b\r\nfrom from", "select a -- c\x0cd\r\nfrom t t t",
              "select a\r\nfrom t\r\nwhere", "select `a\x85b` c\r\nfrom\r\n from",
              "select 1;\nselect 2", "select a from b.c d e", "CREATE MODEL IF", "show", "show tables from", "drop", "use a b"]:
        yield dict(src='fixed', text=g)


MULTI = ["/* a\n b */", "/*\n\n*/", "'a\nb'", "'x\n\ny'", '"a\nb"', "IS\nNOT", "NOT\n  IN", "NOT\n\nLIKE", "is \n not",
         "KNOWLEDGE\nBASE", "PRIMARY\nKEY", "NOT\nEXISTS", "@'a\nb'", "`a\nb`"]
WORDS = ['select', 'a', ',', 'b', 'from', 't', 'where', 'x', '=', '1', 'and', 'y', '(', ')', 'c']


def other_break(cons, rng):
    """round 5: the break inside a multi-line construct is not always '\\n': CRLF, CR, LF CR or one of the Unicode / control
    separators of str.splitlines (all of them are white space for the two-word keyword rules)"""
    if rng.random() < 0.6:
        return cons
    b = rng.choice(['\r\n', '\r', '\n\r'] + UNI_BREAKS)
    return cons.replace('\n', b)


def lex_after_multiline(rng, n):
    """illegal characters placed after something that spans a line break (multi-line comment, string with a
    newline, two-word keyword split over lines): on the line where the construct ends, on the next line, on later
    lines, on the last line; plus controls with the character before the construct / on the first line"""
    def words(k):
        return ' '.join(rng.choice(WORDS) for _ in range(k))
    for _ in range(n):
        pre = [words(rng.randint(1, 4)) for _ in range(rng.randint(0, 2))]
        head = words(rng.randint(0, 3))
        cons = [other_break(rng.choice(MULTI), rng) for _ in range(rng.randint(1, 2))]
        where = rng.choice(['same', 'same', 'next', 'later', 'last', 'before', 'first'])
        ill = rng.choice(ILLEGAL)
        mid = (head + ' ' if head else '') + (' ' + words(rng.randint(0, 2)) + ' ').join(cons)
        tail_same = words(rng.randint(0, 3))
        after = [words(rng.randint(1, 4)) for _ in range(rng.randint(0, 3))]
        if where == 'same':
            mid = mid + ' ' + tail_same + ' ' + ill + ' ' + words(rng.randint(0, 2))
        elif where == 'next':
            after = [rng.choice(['', '  ', '\t']) + words(rng.randint(0, 2)) + ill + words(rng.randint(0, 2))] + after
        elif where == 'later':
            after = after + [''] * rng.randint(0, 2) + [words(rng.randint(0, 3)) + ' ' + ill] + [words(1)] * rng.randint(0, 2)
        elif where == 'last':
            after = after + [words(rng.randint(0, 3)) + ' ' + ill]
        elif where == 'before':
            mid = words(rng.randint(0, 2)) + ill + ' ' + mid
        else:
            pre = [words(rng.randint(0, 2)) + ill + words(rng.randint(0, 2))] + pre
        yield dict(src='lexml:' + where, text='\n'.join(pre + [mid] + after))


def syn_after_multiline(rng, n):
    """syntax errors placed after a token / comment that spans a line break (string, quoted id, variable, IS\\nNOT …):
    the doubled or stray token sits on the line where the construct ends, on the next or on a later line"""
    def words(k):
        return ' '.join(rng.choice(WORDS) for _ in range(k))
    for _ in range(n):
        cons = other_break(rng.choice(MULTI), rng)
        head = rng.choice(['select a,', 'select', 'select b from t where x', 'select 1,', 'select a from t where a'])
        if cons.upper().split()[0] in ('IS', 'NOT', 'KNOWLEDGE', 'PRIMARY'):
            head = 'select a from t where a'
        bad = rng.choice(['from from', ') x', 'c c c', 'where where', ', ,', '1 1 1'])
        where = rng.choice(['same', 'next', 'later'])
        pre = [words(rng.randint(1, 3))] if rng.random() < 0.3 else []
        sep = {'same': ' ', 'next': '\n' + rng.choice(['', '  ']), 'later': '\n\n  b\n'}[where]
        text = '\n'.join(pre + [head + ' ' + cons + ' b' + sep + bad])
        yield dict(src='synml:' + where, text=text)


EOF_HEADS_KW = ['select a from t where a', 'select a from t where b = 1 and a', 'select * from t1 join t2 on x']
EOF_KW = ['IS{nl}NOT', 'NOT{nl}IN', 'NOT{nl}LIKE', 'is{nl}not', 'not{nl}in']
EOF_HEADS_VAL = ['select a from t where x in (1,', 'select (', 'select f(1,', 'select a from t where x = (', 'select a,\n b from t where (',
                 'select a from (select', 'select case when']
EOF_VALS = ["'p{nl}q'", '"p{nl}q"', '`a{nl}b`', "@'a{nl}b'", "@`a{nl}b`", "'x{nl}{nl}y'"]
EOF_HEADS_ID = ['insert into', 'update', 'select * from t where x in (select a from', 'create table', 'drop table']
EOF_IDS = ['`my{nl}table`', '`a{nl}{nl}b`', 'db.`t{nl}1`']
EOF_OTHER = ['select a from t where NOT{nl}EXISTS', 'create table t (a int PRIMARY{nl}KEY', 'create KNOWLEDGE{nl}BASE',
             'select a from t where not{nl}exists']


def eof_after_multiline(rng, n):
    """truncated statements (input ends too early) whose LAST token spans a line break: a keyword pair lexed as one token and
    written on two lines, a string literal / quoted identifier / quoted variable containing a newline; every head x token kind,
    with one or two newlines and varying indentation inside the token, optional leading blank lines / blanks / comment lines;
    plus the same shapes with an ordinary last token after the multi-line one (control)"""
    shapes = [(h, k) for h in EOF_HEADS_KW for k in EOF_KW] + [(h, v) for h in EOF_HEADS_VAL for v in EOF_VALS] + \
             [(h, i) for h in EOF_HEADS_ID for i in EOF_IDS] + [('', o) for o in EOF_OTHER]
    rng.shuffle(shapes)
    for i in range(n):
        head, tok = shapes[i % len(shapes)]
        nl = rng.choice(['\n', '\n', '\n  ', '\n\n', ' \n\t', '\n    '])
        lead = rng.choice(['', '', '  ', '\n', '\n\n  ', '-- c\n', '/* c */ ', '/* a\n b */\n'])
        tail = rng.choice(['', '', '', ' ', '\n', ' -- t', ' ,'])   # ' ,' : an ordinary last token (control)
        if rng.random() < 0.3:
            head = head.replace(' ', '\n', 1) if head else head
        text = lead + (head + ' ' if head else '') + tok.replace('{nl}', nl) + tail
        yield dict(src='eofml', text=text)


# ---- round 5: every line-separator convention, lexer errors and parser errors -------------------------------------
EOL_FAMILIES = ['lf', 'crlf', 'cr', 'mixed', 'lfcr']
UNI_BREAKS = ['\x0b', '\x0c', '\x1c', '\x1d', '\x1e', '\x85', '\u2028', '\u2029']
EOL_STATEMENTS = [
    ['select a,', 'b,', 'c', 'from t', 'where x = 1', 'and y = 2', 'order by a', 'limit 5'],
    ['select *', 'from t1', 'join t2', 'on t1.a = t2.b', 'where t1.c > 0', 'and t2.d < 9'],
    ['insert into t (a, b)', 'values (1, 2),', '(3, 4)'],
    ['update t', 'set a = 1,', 'b = 2', 'where c = 3'],
    ['create model m', 'from db (select * from t)', 'predict y', 'using engine = 1'],
    ['select a', 'from t', 'where a = 1 and b = 2'],
    ['select count(*),', 'max(b)', 'from t', 'group by c', 'having max(b) > 3'],
    ['delete from t', 'where a in (1, 2, 3)', 'and b is not null'],
]
STRAY = [')', 'from from', ', ,', 'c c c', 'where where', '1 1 1', '= =']


def eol_of(family, rng):
    if family == 'lf':
        return '\n'
    if family == 'crlf':
        return '\r\n'
    if family == 'cr':
        return '\r'
    if family == 'lfcr':
        return '\n\r'
    return rng.choice(['\n', '\r\n', '\r', '\n\r', '\r\r\n', '\n\n', '\r\n\r\n'])


def brk_of(family, rng, uni):
    """a line break INSIDE a token / comment: the family's, or one of the Unicode / control separators"""
    return rng.choice(UNI_BREAKS) if uni else eol_of(family, rng)


def eol_lines(rng, n):
    """statements laid out on several lines under each line-separator family (LF, CRLF, CR only, LF CR, mixed), optionally with
    tokens / comments that contain a break themselves (the family's or a Unicode / control separator), and ONE error: an illegal
    character (an ordinary one, or one of the separators str.splitlines knows) or a stray token, on line 1, 2 or >= 3, at the
    start, in the middle or at the very end of its line; plus the same without error (control, must be accepted)"""
    for i in range(n):
        family = EOL_FAMILIES[i % len(EOL_FAMILIES)]
        lines = list(rng.choice(EOL_STATEMENTS))
        uni = rng.random() < 0.35
        deco = rng.choice(['none', 'none', 'string', 'comment', 'linecomment', 'qid', 'comment-line'])
        k_deco = rng.randrange(len(lines))
        if deco == 'string' and re.search(r'\b\d\b', lines[k_deco]):
            lines[k_deco] = re.sub(r'\b\d\b', lambda m: "'p%sq'" % brk_of(family, rng, uni), lines[k_deco], count=1)
        elif deco == 'comment':
            c = '/* a%sb */' % brk_of(family, rng, uni)
            lines[k_deco] = rng.choice([c + ' ' + lines[k_deco], lines[k_deco] + ' ' + c])
        elif deco == 'linecomment':
            lines[k_deco] = lines[k_deco] + ' -- c' + (rng.choice(UNI_BREAKS) + 'd' if uni else '')
        elif deco == 'qid':
            lines[k_deco] = re.sub(r'\bt\b', lambda m: '`t%s1`' % brk_of(family, rng, uni), lines[k_deco], count=1)
        elif deco == 'comment-line':
            lines.insert(k_deco, '/* a%sb */' % brk_of(family, rng, uni))
        kind = rng.choice(['ill', 'ill', 'ill', 'ill-sep', 'tok', 'tok', 'none'])
        where = rng.choice(['first', 'second', 'later', 'later', 'last'])
        k = {'first': 0, 'second': min(1, len(lines) - 1), 'last': len(lines) - 1}.get(where)
        if k is None:
            k = rng.randrange(min(2, len(lines) - 1), len(lines))
        pos = rng.choice(['start', 'mid', 'end', 'end'])
        if kind != 'none':
            ins = {'ill': rng.choice(ILLEGAL), 'ill-sep': rng.choice(UNI_BREAKS), 'tok': rng.choice(STRAY)}[kind]
            glue = rng.choice(['', ' ']) if kind != 'tok' else ' '
            line = lines[k]
            if pos == 'start':
                line = ins + glue + line
            elif pos == 'end':
                line = line + glue + ins
            else:
                sp = [j for j, ch in enumerate(line) if ch == ' ']
                j = rng.choice(sp) if sp else len(line)
                line = line[:j] + ' ' + ins + glue + line[j:]
            lines[k] = line
        indent = rng.choice(['', '', '  ', '\t'])
        text = lines[0] + ''.join(eol_of(family, rng) + (indent if rng.random() < 0.5 else '') + l for l in lines[1:])
        if rng.random() < 0.15:
            text = eol_of(family, rng) + text
        yield dict(src='eol:%s:%s:%s:%s%s' % (family, kind, where, pos, ':uni' if uni else ''), text=text)


def relayout_eol(text, rng):
    """the lexemes of a statement of the stream (valid or not) joined by blanks and line breaks of ONE separator family,
    with comments / breaks of that family between them"""
    from mindsdb_sql import get_lexer_parser
    lexer, _ = get_lexer_parser(D)
    try:
        toks = list(lexer.tokenize(text))
    except Exception:
        return None, None
    family = rng.choice(EOL_FAMILIES)
    lex = [text[t.index:t.end] for t in toks]

    def sep():
        r = rng.random()
        e = eol_of(family, rng)
        if r < 0.55:
            return ' '
        if r < 0.85:
            return e + rng.choice(['', '', '  ', '\t'])
        if r < 0.90:
            return ' ' + e
        if r < 0.95:
            return ' /* x%sy */ ' % brk_of(family, rng, rng.random() < 0.4)
        return e + e
    out = (eol_of(family, rng) if rng.random() < 0.1 else '') + ''.join(l + sep() for l in lex)
    return family, out


def layout_invariant(toks, sql):
    """the hypotheses of C19_caret_partial, checked on the real token list: index/lineno monotone,
    value no longer than the gap to the next token"""
    for a, b in zip(toks, toks[1:]):
        if not (a.lineno <= b.lineno and a.index + len(str(a.value)) <= b.index):
            return False
    return True


def run(chk):
    quick = chk.tier == 'quick'
    deep = (not quick) or bool(chk.broken())
    n_mut, n_sent = (700, 350) if not deep else (20000, 10000)
    rng = common.rng_for(chk.seed, 'C19')
    R = lr.real(D)
    E = gen.Earley(D)
    G = gen.Grammar(D)
    # known findings: do the witnesses still fail the oracle in their class?
    for k in chk.kf:
        if k['status'] == 'open':
            fs = probe_case(k['witness']['text'], E)
            k['_reproduced'] = any(kf_match(k, f) for f in fs)
    lines, metas, dist = [], [], {}
    klines, kmetas = [], []
    lrlines, lrmetas = [], []
    mlines, mmetas = [], []
    lay_bad = None
    src_bad = None
    lno_bad = None
    for case in case_stream(rng, n_mut, n_sent, G, common.rng_for(chk.seed, 'C19/eol')):
        text = case['text']
        kind, msg = real_message(text)
        key0 = case['src'].split(':')[0].split('+')[0] + ('+layout' if '+layout' in case['src'] else '')
        dist['%s/%s' % (key0, kind.split(':')[0])] = dist.get('%s/%s' % (key0, kind.split(':')[0]), 0) + 1
        if case['src'].startswith('eol'):
            fam = case['src'].split(':')[1]
            dist['eol/%s/%s' % (fam, kind.split(':')[0])] = dist.get('eol/%s/%s' % (fam, kind.split(':')[0]), 0) + 1
        if kind == 'accept':
            continue
        chk.count((text,))
        fs = probe_case(text, E, kind, msg)
        for f in fs:
            f['src'] = case['src']
            chk.classify(f, kf_match)
            chk.fail(f)
        dist['probe/' + ('fail:' + fs[0]['class'] if fs else 'ok')] = dist.get('probe/' + ('fail:' + fs[0]['class'] if fs else 'ok'), 0) + 1
        # correspondence: model message vs real message
        if kind == 'syn' and msg.startswith('Syntax error') or kind == 'syn' and msg == 'Empty input':
            info = real_error_info(text, with_reparse=True)
            if 'bad' in info:
                if info['raising']:
                    dist['corr/reparse-action-raised'] = dist.get('corr/reparse-action-raised', 0) + 1
                if not layout_invariant(info['toks'], info['sql']) and lay_bad is None:
                    lay_bad = text
                if src_bad is None and any(str(t.value) != info['sql'][t.index:t.end] for t in info['toks']):
                    src_bad = text
                if lno_bad is None and any(t.lineno != 1 + info['sql'].count('\n', 0, t.index) for t in info['toks']):
                    lno_bad = text
                lines.append(model_line_syn(R, info))
                metas.append((case, msg))
                # Φ19 / _can_take: the expected tokens stored by MindsDBParser.error vs the model's keptExpected
                # tie of ErrInfo (bad index, state, action-row keys) of LR.parse on this very input
                py = R.run(info['toks'], False)
                py.pop('parser', None); py.pop('result', None)
                lrlines.append(lr.model_line(D, [R.tid[t.type] for t in info['toks']], False))
                lrmetas.append((case, py))
                klines.append('K ' + ' '.join(str(R.tid[t.type]) for t in info['toks']))
                kmetas.append((case, ','.join(str(x) for x in sorted(R.tid[x] for x in info['expected']))))
                nl = len({t.lineno for t in info['toks']})
                dist['corr/lines:%s' % min(nl, 4)] = dist.get('corr/lines:%s' % min(nl, 4), 0) + 1
                b = 'eof' if info['bad'] is None else 'tok'
                dist['corr/bad:' + b] = dist.get('corr/bad:' + b, 0) + 1
                sk = 'none' if 'Possible inputs' not in msg and 'Expected symbol' not in msg else (
                    'many' if 'Possible inputs' in msg else 'one')
                dist['corr/suggestions:' + sk] = dist.get('corr/suggestions:' + sk, 0) + 1
        elif kind == 'lex':
            info = real_error_info(text)
            if info.get('lexerr') is not None:
                lines.append('L %d %s' % (info['lexerr'], enc(info['sql'])))
                metas.append((case, '\n'.join(msg.split('\n')[1:])))
                dist['corr/lex'] = dist.get('corr/lex', 0) + 1
                # round 5: the COMPLETE message (header with the repr of the character, echoed lines, caret) of the text-level
                # model `lexErrorMsg`, the object of C19_full_lexer_caret_holds
                ch = info['sql'][info['lexerr']]
                if ord(ch) < 0x100 or ch in '\u2028\u2029' or ch.isprintable():
                    mlines.append('M %d %s' % (info['lexerr'], enc(info['sql'])))
                    mmetas.append((case, msg))
                    fk = 'lexcorr/' + eol_family(info['sql'])
                    dist[fk] = dist.get(fk, 0) + 1
                    ln = min(info['sql'].count('\n', 0, info['lexerr']), 2)
                    dist['lexcorr/line:%d' % ln] = dist.get('lexcorr/line:%d' % ln, 0) + 1
                else:
                    dist['lexcorr/skipped-repr'] = dist.get('lexcorr/skipped-repr', 0) + 1
    dist.update({'phi19/' + k_: v for k_, v in KIND_STATS.items()})
    chk.oblige('probe:value-is-source', 'probe', src_bad is None,
               '' if src_bad is None else 'real lexer produced a token whose value is not its source slice '
               '(hypothesis of C19_caret_source, repo 5f4cdd1): %r' % src_bad)
    chk.oblige('probe:lineno-uniform', 'probe', lno_bad is None,
               '' if lno_bad is None else 'real lexer produced a token whose lineno is not 1 + the newlines before its '
               'index (hypothesis of C19_caret_uniform, repo bd184d7): %r' % lno_bad)
    chk.oblige('probe:layout-invariant', 'probe', lay_bad is None,
               '' if lay_bad is None else 'real lexer produced a token list violating Layout: %r' % lay_bad)
    try:
        outs = common.lean_run('Err', lines)
        diverged, first = 0, None
        for (case, want), o in zip(metas, outs):
            got = dec(o) if re.fullmatch(r'-|[\d,]+', o) else o
            if got != want:
                diverged += 1
                if first is None:
                    first = dict(text=case['text'], src=case['src'], impl=want, model=got)
        chk.corr_result('err-message', len(lines), diverged, first, dist)
    except Exception as e:
        chk.oblige('corr:err-message', 'correspondence', False, 'driver failed: %s' % e)
    try:
        outs = common.lean_run('ErrLine', mlines) if mlines else []
        diverged, first = 0, None
        for (case, want), o in zip(mmetas, outs):
            got = dec(o) if re.fullmatch(r'-|[\d,]+', o) else o
            if got != want:
                diverged += 1
                if first is None:
                    first = dict(text=case['text'], src=case['src'], impl=want, model=got)
        chk.corr_result('err-lex', len(mlines), diverged, first,
                        {k_: v for k_, v in dist.items() if k_.startswith('lexcorr/')})
    except Exception as e:
        chk.oblige('corr:err-lex', 'correspondence', False, 'driver failed: %s' % e)
    try:
        outs = common.lean_run('LR', lrlines)
        diverged, first = 0, None
        for (case, py), o in zip(lrmetas, outs):
            r = lr.compare(D, py, lr.parse_model(o))
            if r:
                diverged += 1
                if first is None:
                    first = dict(text=case['text'], src=case['src'], why=r, model=o[:300],
                                 impl=dict(kind=py['kind'], err=py.get('err')))
        chk.corr_result('lr', len(lrlines), diverged, first, {})
    except Exception as e:
        chk.oblige('corr:lr', 'correspondence', False, 'driver failed: %s' % e)
    try:
        outs = common.lean_run('Err', klines)
        diverged, first = 0, None
        for (case, want), o in zip(kmetas, outs):
            if o != want:
                diverged += 1
                if first is None:
                    first = dict(text=case['text'], src=case['src'], impl=want, model=o)
        chk.corr_result('can-take', len(klines), diverged, first, {})
    except Exception as e:
        chk.oblige('corr:can-take', 'correspondence', False, 'driver failed: %s' % e)
    for (case, want) in metas[:2] + metas[-2:]:
        chk.samples.append(dict(src=case['src'], text=case['text'][:200], message=want[:300]))
    chk.samples.append(dict(theorem='C19_partial T hv nT : C19_full_caret ∧ C19_parser_bad_token T ∧ C19_parser_suggestion T nT'))
    chk.samples.append(dict(theorem='C19_full_caret (first conjunct): ∀ src toks b, SrcChain src 0 toks → b ∈ toks → ∃ ctx shown shift c n, '
                            'errorLocationV true toks (some b) = hdrUnknown :: (ctx ++ [">" ++ shown, "-"*(c+1) ++ "^"*n]) ∧ |ctx| ≤ 2 ∧ '
                            'n = |first line of b.value| ∧ c + shift = b.index ∧ shown[c : c+n] = src[b.index : b.index+n] ∧ '
                            'every token t starting on that line is shown at t.index - shift with its source text'))
    chk.samples.append(dict(theorem='C19_parser_bad_token T: parse (pre ++ rest) = none_ ⟨some k, s⟩ log ∧ k < |pre| → ErrAt T (pre ++ rest) ⟨some k, s⟩ ∧ '
                            '(parse (pre ++ rest\') fuel\' = none_ ⟨some k, s⟩ log ∨ = fuel)'))
    chk.samples.append(dict(theorem='C19_full_lexer_caret: ∀ text index c, text[index]? = some c → c ≠ \'\\n\' → ∃ pre line post col, '
                            'text = termLines pre ++ line ++ sepLines post ∧ (no \'\\n\' in any of them) ∧ |termLines pre| + col = index ∧ '
                            'line[col]? = some c ∧ lexErrorMsg text index = header(repr c) \\n [> last of pre] \\n > line \\n "-"*(col+1) ++ "^"'))
    return chk.finish(assumptions=ASSUME)


def replay(path):
    data = json.load(open(path))
    f = data.get('failure')
    if not f:
        print(json.dumps(data, indent=1)[:3000])
        return 1
    E = gen.Earley(D)
    fs = [x for x in probe_case(f['text'], E) if x['class'] == f['class']]
    print('REPRODUCED' if fs else 'not reproduced', json.dumps(fs[0] if fs else f, ensure_ascii=False)[:900])
    return 1 if fs else 0
