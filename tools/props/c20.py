"""C20 — calls are isolated: same input, same result, whatever ran before or alongside."""
import copy, hashlib, json, os, random, re, subprocess, sys, threading
from tools.harness import common, corpus as corpus_mod, reuse
from tools.harness.common import DIALECTS

ID = 'C20'
TARGETS = ['MindsVerif.Props.C20', 'MindsVerif.Props.C20B']
THEOREMS = ['MindsVerif.Props.C20.C20_noninterference', 'MindsVerif.Props.C20.C20_result_schedule_independent',
            'MindsVerif.Props.C20.C20_lazy_global', 'MindsVerif.Props.C20.C20_review_lazy_global_any_state',
            'MindsVerif.Props.C20.C20_review_lazy_global_interleaved', 'MindsVerif.Props.C20.C20_review_noninterference_lazy_write',
            'MindsVerif.Props.C20.C20_reuse_history_independent', 'MindsVerif.Props.C20.C20_reuse_any_two_histories',
            'MindsVerif.Props.C20.C20_reuse_table_history_independent', 'MindsVerif.Props.C20.C20_reuse_memo_transparent',
            'MindsVerif.Props.C20.C20_witness_reuse_create_twice', 'MindsVerif.Props.C20.C20_witness_reuse_define_then_use',
            'MindsVerif.Props.C20.C20_witness_reuse_fixed',
            'MindsVerif.Props.C20B.C20B_frame_ok', 'MindsVerif.Props.C20B.C20B_history_independent',
            'MindsVerif.Props.C20.C20_order_blind', 'MindsVerif.Props.C20.C20_witness_order_observed',
            'MindsVerif.Props.C20.C20_quiet_steps_noninterference', 'MindsVerif.Props.C20.C20_witness_transient_sequential_invisible',
            'MindsVerif.Props.C20.C20_witness_transient_interleaved', 'MindsVerif.Props.C20.C20_witness_transient_left_behind',
            'MindsVerif.Props.C20B.C20B_module_quiet']
ASSUME = [
    'the theorems cover the logical structure only: calls stepping private state and reading a shared store; '
    'that parse_sql / plan_query / SqlalchemyRender calls have this structure is CHECKED on the real code by this run '
    '(fresh lexer/parser objects per call; class-level tables incl. SQLAlchemy dialect classes hashed before/after a batch and against a '
    'process that has made no call; every result compared with the single-thread baseline, with a sequential subprocess and, for a sample, '
    'with the same call made as the only call of a fresh process; catalogs compared fresh vs reused), not proved',
    'byte-code level interleavings are sampled (8-16 threads, switch interval 1e-6; cold start: 8 threads making the first call of a fresh process together), not enumerated',
    'hash randomisation: a finite set of PYTHONHASHSEED values is compared',
    'reused objects (SqlalchemyRender, QueryPlanner, lexer/parser pairs): C20_reuse_* / C20B_history_independent assume that the real '
    'methods respect the footprint table; the table is PROBED on every run (get/set trace of instance attributes + deep snapshots '
    'before/after each call of a fixed probe set, Gen/Footprint.lean) and the frame condition on it is decided by the kernel (Props/C20B); '
    'exempt write paths: SQLAlchemy memo tables inside the dialect object, SLY position logs nobody reads, and the listed known finding; '
    'the conclusion is CHECKED on random sessions that repeat names: every call on a reused object against the same call on a new object '
    'in a pristine process',
    'shared state written for the duration of a call: C20_quiet_steps_noninterference assumes every STEP (stretch between two entries '
    'into library functions) leaves module / class level state as it found it; PROBED on every run for the data attributes of the '
    'mindsdb_sql modules and their classes (Gen/Footprint.lean: moduleWrites, decided by C20B_module_quiet) and CHECKED by running other '
    'calls at those entries (two-thread schedules at call granularity, executed deterministically) and by real threads on the fallback '
    'paths of every renderer dialect; state outside mindsdb_sql (SQLAlchemy classes) is seen by these schedules only at the sampled entries',
    'hash seeds: exception type and text are part of every compared result; planner errors are exercised over generated catalogs with '
    'several projects / integrations / predictor namespaces; attributes of a new planner whose order differs between the hash-seed '
    'processes are permuted in-process (C20_order_blind: membership-only use cannot show the order)',
]

CATALOG = dict(
    integrations=['int1', 'int2', {'name': 'proj', 'type': 'project'}],
    predictor_metadata=[{'name': 'pred', 'integration_name': 'mindsdb'},
                        {'name': 'tp3', 'integration_name': 'mindsdb', 'timeseries': True, 'window': 3,
                         'order_by_column': 'pickup_hour', 'group_by_columns': ['day', 'type']}],
    default_namespace='mindsdb')
PLAN_SQL = [
    'select * from int1.t1 t1 join mindsdb.pred m join int2.t2 t2 on t2.id = m.id',
    'select * from int1.t1 a join int2.t2 b on a.id = b.id',
    'select * from int1.t1 a join mindsdb.pred m on m.id = a.id join int2.t2 b on b.id = m.id where a.x = 1',
    'select * from int1.t1 where a = 1', 'select a, b from int1.t1 t join int2.t2 s on t.id = s.id where t.x > 2 limit 3',
    'select * from int1.t1 join mindsdb.pred', 'select * from int1.t1 where a in (select b from int2.t2)',
    'select t.a from int1.t1 t join mindsdb.pred p where p.x = 1', 'select * from mindsdb.pred where a = 1',
    'select * from int1.t1 union select * from int2.t2', 'select count(*) from int1.t1 group by a order by a',
    'select * from nosuch.t1 join int9.t2', 'select 1',
]
CATALOGS = {
    'mindsdb': CATALOG,
    'api': dict(integrations=[{'name': 'pg', 'type': 'data', 'class_type': 'api'}, 'int2'], default_namespace='PG'),
    'mixed': dict(integrations=['pg', {'name': 'INT2', 'type': 'data'}, {'name': 'Proj', 'type': 'project'}],
                  predictor_metadata=[{'name': 'Pred', 'integration_name': 'Proj'}], default_namespace='pg'),
    'legacy': dict(integrations=['pg', 'int2'], predictor_namespace='mindsdb',
                   predictor_metadata={'pred': {'timeseries': False}, 'proj.p2': {}}, default_namespace='Int2'),
}
TABLES = ['tab1', 'pg.tab2', 'PG.tab3', 'int2.t2', '`Int2`.t4', 'Pg.Tab5', 'tab6']
TEMPLATES = [
    'SELECT t1.a, t2.b FROM {0} AS t1 JOIN {1} AS t2 ON t1.id = t2.id WHERE t1.x > 1',
    'SELECT * FROM {0} WHERE a IN (SELECT b FROM {1})',
    'SELECT * FROM {0} UNION SELECT * FROM {1}',
    'SELECT * FROM {0} t1 LEFT JOIN {1} t2 ON t1.id = t2.id JOIN {2} t3 ON t3.id = t1.id',
    'SELECT a FROM {0} WHERE x = 1 ORDER BY a LIMIT 2',
    'SELECT * FROM {0} t JOIN proj.pred p',
    'SELECT * FROM {0} t1 JOIN mindsdb.pred m JOIN {1} t2 ON t2.id = m.id',
    'SELECT * FROM {0} t1 JOIN {1} t2 ON t1.id = t2.id JOIN mindsdb.pred m',
    'SELECT * FROM {0} t1 JOIN (SELECT * FROM {1}) s ON s.id = t1.id JOIN {2} t3 ON t3.id = s.id',
    'SELECT * FROM {0} t1 JOIN proj.pred m ON m.a = t1.a JOIN {1} t2 ON t2.b = m.b WHERE t1.x = 1',
    'SELECT t1.a FROM {0} t1 LEFT JOIN {1} t2 ON t1.id = t2.id WHERE t2.y > 1 ORDER BY t1.a LIMIT 3',
]


def plan_jobs(rng, n):
    out = []
    for _ in range(n):
        t = rng.choice(TEMPLATES)
        sql = t.format(*[rng.choice(TABLES) for _ in range(3)])
        out.append(('plan', sql, rng.choice(sorted(CATALOGS))))
    return out


RENDER_DIALECTS = ['mysql', 'postgresql', 'postgres', 'sqlite', 'mssql', 'oracle', 'Snowflake']
# names that may or may not need quoting depending on a dialect's reserved-word set (which is shared, class-level state)
COMMON_NAMES = ['account', 'organization', 'sample', 'issue', 'user', 'role', 'group', 'order', 'key', 'value', 'type', 'name',
                'date', 'time', 'comment', 'level', 'session', 'view', 'schema', 'database', 'table', 'column', 'index',
                'limit', 'offset', 'from', 'select', 'status', 'state', 'region', 'share', 'task', 'stage', 'stream',
                'pipe', 'warehouse', 'connection', 'trigger', 'row', 'rows', 'number', 'text', 'json', 'variant', 'object',
                'array', 'result', 'system', 'uid', 'size', 'mode', 'file', 'resource', 'access', 'audit', 'cluster',
                'Account', 'SAMPLE', 'x y', 'a.b', '1a', 'é']


def vocab():
    """reserved words of every SQLAlchemy dialect the renderer can use, as they are NOW (the check compares a fresh
    process with a used one), plus common column names"""
    words = set(COMMON_NAMES)
    try:
        from sqlalchemy.dialects import mysql, postgresql, sqlite, mssql, oracle
        for m in (mysql, postgresql, sqlite, mssql, oracle):
            words |= {str(w) for w in getattr(m.dialect.preparer, 'reserved_words', ())}
    except Exception:
        pass
    try:
        from mindsdb_sql.parser.dialects.mindsdb.lexer import MindsDBLexer
        from mindsdb_sql.parser.lexer import SQLLexer
        words |= {t.lower() for t in (MindsDBLexer.tokens | SQLLexer.tokens) if '_' not in t}
    except Exception:
        pass
    return sorted(words)


def render_name_jobs(rng, n):
    v = vocab()
    out = []
    for _ in range(n):
        a, b, c, t = (rng.choice(v) for _ in range(4))
        q = lambda w: '`%s`' % w.replace('`', '')
        sql = 'select %s, t.%s from crm.%s t where %s = 1' % (q(a), q(b), q(t), q(c))
        out.append(('render', sql, rng.choice(RENDER_DIALECTS)))
        if rng.random() < 0.3:
            out.append(('parse', sql, 'mindsdb'))
    return out


def norm_msg(s):
    """error text with the order of the suggestion list normalised (the known hash-seed dependency)"""
    m = re.search(r'(Possible inputs: )(.*)$', s, flags=re.S)
    if not m:
        return s
    items = sorted(x.strip() for x in m.group(2).split(','))
    return s[:m.start()] + m.group(1) + ', '.join(items)


def do_job(job):
    """one call; returns a canonical string describing its result"""
    kind, arg, d = job
    try:
        if kind == 'parse':
            from mindsdb_sql import parse_sql
            a = parse_sql(arg, d)
            return 'tree:' + a.to_tree() + '|' + str(a)
        if kind == 'plan':
            from mindsdb_sql import parse_sql
            from mindsdb_sql.planner import plan_query
            cat = copy.deepcopy(CATALOGS.get(d, CATALOG))
            q = parse_sql(arg, 'mindsdb')
            plan = plan_query(q, **cat)
            return 'plan:' + ';'.join(re.sub(r'\bt_\d+\b', 't_N', re.sub(r'0x[0-9a-f]+', '0x', str(s))) for s in plan.steps)
        if kind == 'render':
            from mindsdb_sql import parse_sql
            from mindsdb_sql.render.sqlalchemy_render import SqlalchemyRender
            q = parse_sql(arg, 'mindsdb')
            return 'sql:' + SqlalchemyRender(d).get_string(q, with_failback=True)
        if kind in ('rstrict', 'rexec'):    # renderer without the fallback: the exception (type AND text) is the result
            from mindsdb_sql import parse_sql
            from mindsdb_sql.render.sqlalchemy_render import SqlalchemyRender
            q = parse_sql(arg, 'mindsdb')
            if kind == 'rstrict':
                return 'sql:' + SqlalchemyRender(d).get_string(q, with_failback=False)
            return 'exec:' + json.dumps(SqlalchemyRender(d).get_exec_params(q, with_failback=True), default=str)
        if kind == 'planc':      # planning against a GENERATED catalog (d = JSON of the keyword arguments)
            from mindsdb_sql import parse_sql
            from mindsdb_sql.planner import plan_query
            plan = plan_query(parse_sql(arg, 'mindsdb'), **json.loads(d))
            return 'plan:' + ';'.join(re.sub(r'\bt_\d+\b', 't_N', re.sub(r'0x[0-9a-f]+', '0x', str(s))) for s in plan.steps)
        if kind == 'attrs':      # the ORDERED content of the attributes of a new planner for a generated catalog
            from mindsdb_sql.planner.query_planner import QueryPlanner
            return 'attrs:' + json.dumps(ordered_attrs(QueryPlanner(**json.loads(d))), sort_keys=True)
        if kind == 'fresh':    # a call / episode on a NEW long-lived object: arg = call (JSON), d = object spec (JSON)
            return reuse.fresh_result(tuple(json.loads(d)), json.loads(arg))
    except Exception as e:
        return 'exc:%s:%s' % (type(e).__name__, str(e))
    return 'none'


DDL_DML = [
    'create table orders (id int, total float)', 'create table orders (id int, total float, customer text, note text)',
    'create table orders (id serial, customer varchar(20))', 'create table orders (customer text primary key, id int)',
    'create table if not exists orders (id int)', 'create table crm.orders (id int, x int)', 'create table items (id int, total float)',
    'insert into orders (id, total) values (1, 2.5)', 'insert into orders (id, customer) values (1, \'a\'), (2, \'b\')',
    'insert into orders select * from items', 'update orders set total = 3 where id = 1', 'update orders set customer = \'x\', id = 2',
    'delete from orders where id = 1', 'delete from orders where customer = \'x\' and id in (1, 2)', 'drop table orders',
    'drop table if exists orders', 'select id, total from orders where id = 1', 'select customer from orders order by id limit 2',
]


def ddl_dml_jobs():
    """the same table names with DIFFERENT column sets / statement kinds: anything a call registers under the table name
    (a shared MetaData, a cache keyed by name) shows up as a result that depends on what was rendered before"""
    return [('render', sql, d) for sql in DDL_DML for d in RENDER_DIALECTS] + [('parse', sql, 'mindsdb') for sql in DDL_DML]


NAME_POOL = ['pg', 'mysql_db', 'files', 'sales_project', 'hr_project', 'ml_project', 'proj', 'views', 'int1', 'int2',
             'Analytics', 'x1', 'lake', 'dwh', 'staging', 'mindsdb', 'demo', 'forecasts']
ERR_PLAN_TEMPLATES = [
    'select * from orders where id = 1', 'select * from nosuch.orders', 'select * from {i}.orders o join customers c on c.id = o.cid',
    'select * from {i}.t join {p}.{m}', 'select * from {p}.{m} where a = 1', 'select * from {p}.nomodel where a = 1',
    'select * from {i}.t join nosuch.m', 'select * from {i}.t1 join {j}.t2 on t1.id = t2.id', 'insert into orders (a) values (1)',
    'update orders set a = 1 where b = 2', 'delete from orders where a = 1', 'select * from {p}.{m} join {q}.{m}',
    'select * from {i}.t t1 join {p}.{m} m1 join {q}.nomodel m2', 'create table orders (select * from {i}.t)',
    'select * from (select * from orders) t join {i}.x', 'select * from {i}.t union select * from customers',
    'select * from {i}.t where a in (select b from customers)', 'select * from {q}.t join {i}.t', 'select * from {i}.a.b.c.d',
    'select {m}.x from {i}.t join {m}', 'show tables', 'select 1',
]


def gen_catalog(rng):
    """keyword arguments of plan_query with SEVERAL projects / integrations / predictor namespaces and, more often than
    not, no default namespace: collections the planner builds from them (some through sets) have many possible orders"""
    names = rng.sample(NAME_POOL, rng.randint(3, 8))
    n_data = rng.randint(1, max(1, len(names) // 2))
    integrations = []
    for n in names[:n_data]:
        r = rng.random()
        integrations.append(n if r < 0.4 else {'name': n, 'type': 'data'} if r < 0.8 else
                            {'name': n, 'type': 'data', 'class_type': 'api'})
    projects = names[n_data:]
    declared = [n for n in projects if rng.random() < 0.6]
    integrations += [{'name': n, 'type': 'project'} for n in declared]
    rng.shuffle(integrations)
    preds = []
    for k in range(rng.randint(0, 4)):
        p = dict(name='m%d' % k, integration_name=rng.choice(projects + ['ml_%d' % k]) if projects else 'ml_%d' % k)
        if rng.random() < 0.3:
            p.pop('integration_name')
        preds.append(p)
    cat = dict(integrations=integrations, predictor_metadata=preds)
    r = rng.random()
    if r < 0.3:
        cat['default_namespace'] = rng.choice(names)
    if rng.random() < 0.2:
        cat['predictor_namespace'] = rng.choice(names)
    return cat


def catalog_jobs(rng, n_catalogs, per_catalog):
    """planning — mostly FAILING planning — against generated catalogs; plus the ordered attribute content of a new planner
    for each catalog (which collections have a hash-seed dependent order at all)"""
    out = []
    for _ in range(n_catalogs):
        cat = gen_catalog(rng)
        data = [i if isinstance(i, str) else i['name'] for i in cat['integrations'] if isinstance(i, str) or i.get('type') == 'data']
        proj = [i['name'] for i in cat['integrations'] if isinstance(i, dict) and i.get('type') == 'project'] + \
            [p['integration_name'] for p in cat['predictor_metadata'] if 'integration_name' in p] + ['mindsdb']
        models = [p['name'] for p in cat['predictor_metadata']] or ['m0']
        cj = json.dumps(cat, sort_keys=True)
        out.append(('attrs', '', cj))
        for t in rng.sample(ERR_PLAN_TEMPLATES, min(per_catalog, len(ERR_PLAN_TEMPLATES))):
            sql = t.format(i=rng.choice(data or ['nodata']), j=rng.choice(data or ['nodata']), p=rng.choice(proj), q=rng.choice(proj),
                           m=rng.choice(models))
            out.append(('planc', sql, cj))
    return out


def render_error_jobs():
    """statements the sqlalchemy path rejects, for every dialect name: strict (the exception is the result) and through
    get_exec_params with the fallback (the printed tree is the result)"""
    from tools.harness.interleave import FALLBACK_SQL, QUOTING_SQL
    out = []
    for d in RENDER_DIALECTS:
        for k, sql in enumerate(FALLBACK_SQL):
            out.append(('render', sql, d))
            if k < 4:
                out += [('rstrict', sql, d), ('rexec', sql, d)]
        out += [('rstrict', QUOTING_SQL[0], d), ('rexec', QUOTING_SQL[2], d)]
    return out


def ordered_attrs(obj):
    """attribute -> its content IN ORDER (lists / tuples: items; dicts: keys); sets have no order of their own"""
    out = {}
    for k, v in vars(obj).items():
        if isinstance(v, (list, tuple)):
            out[k] = [x if isinstance(x, (str, int, float, bool, type(None))) else reuse._flat(x, 0, ()) for x in v]
        elif isinstance(v, dict):
            out[k] = [str(x) for x in v]
    return out


def failing_family_jobs(rng, n_stmts):
    """families of failing statements that stop in the same parser state on the same token type but are repaired by different
    keywords (one token deleted at every position of a valid statement; the leading keyword pairs of every CREATE / SHOW /
    DROP form with the object keyword forgotten): anything the error path memoises by state shows up as history dependence"""
    c = [s for s in corpus_mod.load() if len(s) < 200]
    picks = rng.sample(c, min(n_stmts, len(c)))
    heads = [s for s in c if re.match(r'\s*(create|drop|show|alter|describe|retrain|finetune|evaluate)\b', s, flags=re.I)]
    picks += rng.sample(heads, min(len(heads), n_stmts))
    out = []
    for s in picks:
        words = s.split()
        for i in range(min(len(words), 6)):
            out.append(('parse', ' '.join(words[:i] + words[i + 1:]), 'mindsdb'))
    # every statement that starts with a command word, with its second / third word (the object keyword) forgotten
    for s in heads:
        words = s.split()
        for i in (1, 2):
            if len(words) > i + 1:
                out.append(('parse', ' '.join(words[:i] + words[i + 1:]), 'mindsdb'))
    return sorted(set(out))


def jobs_for(rng, n):
    c = corpus_mod.load()
    jobs = [('parse', t, 'mindsdb') for t in ('CREATE', 'SHOW', 'DROP', 'select * from t where', 'create model m predict',
                                               'select * from', 'insert into t', 'ALTER', 'create job j (select 1) every')]
    for i in range(n):
        r = rng.random()
        if r < 0.55:
            s = rng.choice(c)
            if rng.random() < 0.3:   # make it fail sometimes
                s = s.replace('from', 'form', 1) if rng.random() < 0.5 else s + ' )'
            jobs.append(('parse', s, rng.choice(DIALECTS)))
        elif r < 0.8:
            jobs.append(('plan', rng.choice(PLAN_SQL), 'mindsdb'))
        else:
            jobs.append(('render', rng.choice([s for s in PLAN_SQL if 'nosuch' not in s]), rng.choice(RENDER_DIALECTS)))
    return jobs + plan_jobs(rng, max(40, n // 5)) + render_name_jobs(rng, max(120, n // 4)) + ddl_dml_jobs() + \
        failing_family_jobs(rng, max(12, n // 40)) + catalog_jobs(rng, max(14, n // 25), 7) + render_error_jobs()


def class_state_digest():
    """deep digest of the class-level / module-level state the calls are supposed only to read"""
    from mindsdb_sql import get_lexer_parser
    from mindsdb_sql.parser.ast.select import identifier as ident_mod
    from mindsdb_sql.render import sqlalchemy_render as sr
    h = hashlib.sha256()
    for d in DIALECTS:
        lx, ps = get_lexer_parser(d)
        t = ps._lrtable
        h.update(repr(sorted((s, sorted((k, v) for k, v in a.items() if True)) for s, a in t.lr_action.items())).encode())
        h.update(repr(sorted((s, sorted(a.items())) for s, a in t.lr_goto.items())).encode())
        h.update(repr(sorted(t.defaulted_states.items())).encode())
        h.update(repr([(p.name, tuple(p.prod), p.prec) for p in ps._grammar.Productions]).encode())
        h.update(repr(sorted(type(lx).tokens)).encode())
        h.update(repr(type(lx)._master_re.pattern).encode())
        h.update(repr(sorted((k, _stable(v)[:400]) for k, v in vars(type(ps)).items()
                             if not k.startswith('__') and not callable(v) and k not in ('_grammar', '_lrtable'))).encode())
    h.update(repr(sorted(ident_mod.get_reserved_words())).encode())
    h.update(sa_state_digest().encode())
    h.update(repr(sorted((k, _stable(v)[:400]) for k, v in vars(sr).items()
                         if isinstance(v, (dict, list, set, tuple, str, int)) and not k.startswith('__'))).encode())
    return h.hexdigest()


def portable_state_digest():
    """the part of the class-level state whose digest does not depend on PYTHONHASHSEED (SLY numbers states and
    productions by set iteration order, so the LR tables are compared only within one process): lexer token sets and
    master regexes, reserved words, renderer module globals, SQLAlchemy dialect / preparer / compiler class attributes"""
    from mindsdb_sql import get_lexer_parser
    from mindsdb_sql.parser.ast.select import identifier as ident_mod
    from mindsdb_sql.render import sqlalchemy_render as sr
    h = hashlib.sha256()
    for d in DIALECTS:
        lx, ps = get_lexer_parser(d)
        h.update(repr(sorted(type(lx).tokens)).encode())
        h.update(repr(type(lx)._master_re.pattern).encode())
    h.update(repr(sorted(ident_mod.get_reserved_words())).encode())
    h.update(repr(sorted((k, _stable(v)[:400]) for k, v in vars(sr).items()
                         if isinstance(v, (dict, list, set, tuple, str, int)) and not k.startswith('__'))).encode())
    h.update(sa_state_digest().encode())
    return h.hexdigest()


def _stable(v, depth=0):
    if isinstance(v, (set, frozenset)):
        return 'set' + repr(sorted(_stable(x, depth + 1) for x in v))
    if isinstance(v, dict):
        return 'dict' + repr(sorted((_stable(k, depth + 1), _stable(x, depth + 1)) for k, x in v.items())) if depth < 3 else 'dict'
    if isinstance(v, (list, tuple)):
        return type(v).__name__ + repr([_stable(x, depth + 1) for x in v]) if depth < 3 else 'seq'
    if isinstance(v, (str, int, float, bool, type(None))):
        return repr(v)
    if isinstance(v, type):
        return 'class:' + v.__module__ + '.' + v.__qualname__
    return 'obj:' + type(v).__name__


def sa_state_digest():
    """class-level state of the SQLAlchemy dialect classes the renderer instantiates (dialect, identifier preparer, the
    three compilers): data attributes only, sets/dicts in canonical order.  A call that edits them in place changes what
    every later call in the process renders."""
    h = hashlib.sha256()
    try:
        from sqlalchemy.dialects import mysql, postgresql, sqlite, mssql, oracle
        for m in (mysql, postgresql, sqlite, mssql, oracle):
            d = m.dialect
            for cls in (d, d.preparer, d.statement_compiler, d.ddl_compiler, d.type_compiler_cls if hasattr(d, 'type_compiler_cls') else d.type_compiler):
                for klass in [c for c in getattr(cls, '__mro__', [cls]) if c.__module__.startswith('sqlalchemy')]:
                    for k, v in sorted(vars(klass).items()):
                        if k.startswith('__') or callable(v) or isinstance(v, (property, classmethod, staticmethod)):
                            continue
                        if type(v).__name__ in ('memoized_property', 'HasMemoized_ro_memoized_attribute', 'hybridproperty', 'getset_descriptor', 'member_descriptor', '_memoized_property', '_non_memoized_property'):
                            continue
                        h.update(('%s.%s.%s=%s\n' % (klass.__module__, klass.__qualname__, k, _stable(v))).encode())
    except Exception as e:
        h.update(('sa-digest-error:%s' % type(e).__name__).encode())
    return h.hexdigest()


WORKER = r'''
import json, sys
sys.path.insert(0, %r); sys.path.insert(0, %r)
from tools.props import c20
jobs = json.load(sys.stdin)
print(json.dumps([c20.do_job(tuple(j)) for j in jobs]))
'''


COLD_WORKER = r'''
import json, sys, threading
sys.path.insert(0, %r); sys.path.insert(0, %r)
sys.setswitchinterval(1e-6)
from tools.props import c20
jobs = [tuple(j) for j in json.load(sys.stdin)]
N = 8
res = [None] * N
bar = threading.Barrier(N)
def work(i):
    rest = jobs[1:]
    k = i %% max(1, len(rest))
    mine = rest[k:] + rest[:k]
    bar.wait()
    out = [(list(jobs[0]), c20.do_job(jobs[0]))]      # every thread makes the SAME first call at the same moment
    res[i] = out + [(list(j), c20.do_job(j)) for j in mine]
ths = [threading.Thread(target=work, args=(i,)) for i in range(N)]
[t.start() for t in ths]; [t.join() for t in ths]
print(json.dumps(res))
'''


def run_cold(jobs, hashseed):
    """a FRESH process in which the very first calls are made by 8 threads released together (lazily initialised
    globals are filled under contention); returns per thread [(job, result)]"""
    env = dict(os.environ, PYTHONHASHSEED=str(hashseed))
    p = subprocess.run([sys.executable, '-c', COLD_WORKER % (common.REPO, common.ROOT)], input=json.dumps(jobs),
                       capture_output=True, text=True, env=env, timeout=1800)
    if p.returncode != 0:
        raise RuntimeError('cold worker failed: ' + p.stderr[-800:])
    return json.loads(p.stdout.strip().split('\n')[-1])


DIGEST_WORKER = r'''
import sys
sys.path.insert(0, %r); sys.path.insert(0, %r)
from tools.props import c20
print(c20.portable_state_digest())
'''


def pristine_digest():
    """class-state digest of a process that has imported the library and made no call yet"""
    p = subprocess.run([sys.executable, '-c', DIGEST_WORKER % (common.REPO, common.ROOT)], capture_output=True, text=True,
                       env=dict(os.environ), timeout=600)
    if p.returncode != 0:
        raise RuntimeError('digest worker failed: ' + p.stderr[-500:])
    return p.stdout.strip().split('\n')[-1]


def isolated_results(jobs, hashseed, workers=12):
    """each job as the ONLY call of its own fresh process (the reference 'nothing ran before')"""
    from concurrent.futures import ThreadPoolExecutor
    with ThreadPoolExecutor(workers) as ex:
        return list(ex.map(lambda j: run_subprocess([list(j)], hashseed)[0], jobs))


def run_subprocess(jobs, hashseed):
    env = dict(os.environ, PYTHONHASHSEED=str(hashseed))
    p = subprocess.run([sys.executable, '-c', WORKER % (common.REPO, common.ROOT)], input=json.dumps(jobs),
                       capture_output=True, text=True, env=env, timeout=1800)
    if p.returncode != 0:
        raise RuntimeError('worker failed: ' + p.stderr[-800:])
    return json.loads(p.stdout.strip().split('\n')[-1])


def reuse_plan(chk, deeper):
    """the sessions of this run and the distinct (object spec, call) pairs, as jobs for the first hash-seed subprocess:
    there every pair is evaluated on a NEW object before anything else has run in that process"""
    rng = common.rng_for(chk.seed, 'C20/reuse')
    sess = reuse.sessions(rng, 2 if not deeper else 8, 10 if not deeper else 16)
    pairs, seen = [], set()
    for spec, calls in sess:
        for c in calls:
            k = json.dumps([list(spec), c])
            if k not in seen:
                seen.add(k)
                pairs.append((spec, c))
    jobs = [('fresh', json.dumps(c), json.dumps(list(spec))) for spec, c in pairs]
    return dict(rng=rng, sessions=sess, pairs=pairs, jobs=jobs)


def reuse_streams(chk, fail, dist, plan, ref_results):
    """history streams on REUSED objects: sessions that repeat table / alias / CTE names on one SqlalchemyRender
    (get_string / get_exec_params, with and without failback, every dialect name), one QueryPlanner (from_query,
    prepare_steps / get_statement_info / execute_steps episodes, abandoned episodes) and one lexer / parser pair;
    every result against the same call on a new object in a pristine process (`ref_results`).  Also: the same with one
    object per thread and 8 threads, and the footprints of the random sessions against the generated table."""
    import time
    t_start = time.time()
    rng, sess, pairs = plan['rng'], plan['sessions'], plan['pairs']
    deeper = len(sess) > 2 * len(reuse.specs())
    key = lambda spec, call: json.dumps([list(spec), call])
    ref = dict(zip((key(sp, c) for sp, c in pairs), ref_results))
    n_calls = n_bad = 0
    per_class, hints = {}, {}

    def report(spec, hist, call, want, got, where):
        cls = reuse.CLASS_OF.get(spec[0], 'Parser')
        fresh_here = reuse.fresh_result(spec, call)
        if fresh_here != want:
            fail('reuse:fresh-differs-from-pristine', 'a NEW object in this process answers differently from a new object in a '
                 'pristine process', spec=list(spec), call=call, pristine=want[:400], here=fresh_here[:400])
            return
        short = reuse.shrink(spec, hist, call, want)
        obj = reuse.make(spec)
        for c in short:
            reuse.do_call(obj, c)
        got_short = reuse.do_call(obj, call)
        if got_short == want:      # not reproducible from a new object (depends on more than the history of this object)
            short, got_short = list(hist), got
        causes = reuse.diagnose(spec, short, call, want, hint=hints.get(spec[0]))
        if causes:
            hints[spec[0]] = causes
        sig = 'reuse:%s:%s' % (cls, '+'.join(a.split('.', 1)[1] for a in causes) if causes else 'undiagnosed')
        fail(sig, 'the result of a call on a REUSED %s depends on the calls made on the same object before (%s): a new object '
             'answers differently' % (cls, ', '.join(causes) or 'cause not isolated'),
             reuse=dict(spec=list(spec), history=short, call=call), fresh=want[:600], reused=got_short[:600],
             session_length=len(hist), where=where, cause_attributes=causes)

    def run_session(spec, calls, where, out):
        """one session on ONE object; out = dict(keys=[...], bad=[(spec, history, call, want, got)])"""
        obj, hist = reuse.make(spec), []
        for c in calls:
            r = reuse.do_call(obj, c)
            out['keys'].append(('reuse', where, spec, json.dumps(c), len(hist)))
            if r != ref[key(spec, c)]:
                out['bad'].append((spec, list(hist), c, ref[key(spec, c)], r))
                obj, hist = reuse.make(spec), []       # start again from a new object
            else:
                hist.append(c)

    def account(spec, out, where):
        nonlocal n_calls, n_bad
        for k in out['keys']:
            chk.count(k)
        n_calls += len(out['keys'])
        n_bad += len(out['bad'])
        per_class[spec[0]] = per_class.get(spec[0], 0) + len(out['keys'])
        for spec_, hist, c, want, got in out['bad']:
            report(spec_, hist, c, want, got, where)

    for spec, calls in sess:
        out = dict(keys=[], bad=[])
        run_session(spec, calls, 'sequential', out)
        account(spec, out, 'sequential')
    # one object per thread, 8 threads at a time (objects are not shared; what is shared is class-level)
    group = [x for x in sess]
    rng.shuffle(group)
    outs = [dict(keys=[], bad=[]) for _ in group]
    sys.setswitchinterval(1e-6)
    try:
        for i in range(0, len(group), 8):
            ths = [threading.Thread(target=run_session, args=(group[k][0], group[k][1], 'threads', outs[k]))
                   for k in range(i, min(i + 8, len(group)))]
            [t.start() for t in ths]
            [t.join() for t in ths]
    finally:
        sys.setswitchinterval(0.005)
    for (spec, _), out in zip(group, outs):
        account(spec, out, 'threads')
    # footprints of random sessions against the generated table (attribute level)
    try:
        table = json.load(open(os.path.join(common.ROOT, 'gen', 'footprint.json')))['table']
        acc, outside = {}, []
        done = set()
        for spec, calls in sess:
            if spec in done and not deeper:
                continue
            done.add(spec)
            reuse.probe_session(spec, calls, acc)
        for (label, call), row in sorted(acc.items()):
            t = table.get(label, {}).get(call)
            if t is None:
                outside.append('%s.%s: no row' % (label, call))
                continue
            extra_r = sorted(row['reads'] - set(t['reads']))
            extra_w = sorted({a for a, _ in row['writes']} - {a for a, _ in t['writes']})
            if extra_r or extra_w:
                outside.append('%s.%s: reads %s writes %s not in Gen/Footprint' % (label, call, extra_r, extra_w))
        chk.oblige('assume:footprint-table-covers-sessions', 'assumption-check', not outside,
                   'calls of the random sessions touched attributes the generated footprint table does not list: ' + '; '.join(outside))
        dist['reuse_footprint_rows_checked'] = len(acc)
    except Exception as e:
        chk.oblige('assume:footprint-table-covers-sessions', 'assumption-check', False, str(e))
    dist.update(reuse_sessions=len(sess), reuse_calls=n_calls, reuse_distinct_calls=len(pairs), reuse_per_kind=per_class,
                reuse_diverged=n_bad, reuse_wall_s=round(time.time() - t_start, 1))


def plan_steps_str(plan):
    return 'plan:' + ';'.join(re.sub(r'\bt_\d+\b', 't_N', re.sub(r'0x[0-9a-f]+', '0x', str(s))) for s in plan.steps)


def hash_order_stream(chk, fail, dist, uniq, per_seed, seeds, base, rng):
    """which ORDERED attributes of a new QueryPlanner differ between processes with different PYTHONHASHSEED (lists built
    from sets), and: no result — plan or error text — may depend on the order of such an attribute.  Checked in this
    process by permuting the attribute on a new planner (reverse, rotations, shuffles) before from_query."""
    import time
    from mindsdb_sql import parse_sql
    from mindsdb_sql.planner.query_planner import QueryPlanner
    t_start = time.time()
    variant = {}
    for k, j in enumerate(uniq):
        if j[0] != 'attrs':
            continue
        vals = [per_seed[hs][k] for hs in seeds]
        if not all(v.startswith('attrs:') for v in vals):
            continue
        ref = json.loads(vals[0][6:])
        for hs, v in zip(seeds[1:], vals[1:]):
            other = json.loads(v[6:])
            for attr in set(ref) | set(other):
                if ref.get(attr) != other.get(attr):
                    same_content = sorted(map(str, ref.get(attr) or [])) == sorted(map(str, other.get(attr) or []))
                    variant.setdefault(attr, dict(catalog=j[2], seed_a=seeds[0], seed_b=hs, a=ref.get(attr), b=other.get(attr),
                                                  order_only=same_content))
    dist['hash_order_variant_attributes'] = sorted(variant)
    for attr, ex in variant.items():
        if not ex['order_only']:
            fail('hashseed:attribute-content', 'the CONTENT (not only the order) of an attribute of a new QueryPlanner depends on '
                 'PYTHONHASHSEED', attribute=attr, **ex)
    n = 0
    cats = sorted({j[2] for j in uniq if j[0] == 'planc'})
    for cj in cats:
        cat = json.loads(cj)
        for j in [x for x in uniq if x[0] == 'planc' and x[2] == cj]:
            for attr in sorted(variant):
                probe = QueryPlanner(**copy.deepcopy(cat))
                val = getattr(probe, attr, None)
                if not isinstance(val, list) or len(val) < 2:
                    continue
                perms = [val[::-1], val[1:] + val[:1]]
                sh = list(val)
                rng.shuffle(sh)
                perms.append(sh)
                for perm in perms:
                    if perm == val:
                        continue
                    try:
                        pl = QueryPlanner(parse_sql(j[1], 'mindsdb'), **copy.deepcopy(cat))
                        setattr(pl, attr, list(perm))
                        got = plan_steps_str(pl.from_query())
                    except Exception as e:
                        got = 'exc:%s:%s' % (type(e).__name__, str(e))
                    n += 1
                    chk.count(('hashorder', j, attr, tuple(perm)))
                    if got != base[j]:
                        fail('hashorder:QueryPlanner:%s' % attr, 'the result of planning depends on the ORDER of QueryPlanner.%s, and '
                             'that order depends on PYTHONHASHSEED (seen: %s vs %s for seeds %s / %s)' % (
                                 attr, ex_short(variant[attr]['a']), ex_short(variant[attr]['b']), variant[attr]['seed_a'],
                                 variant[attr]['seed_b']),
                             hashorder=dict(sql=j[1], catalog=cat, attribute=attr, order=list(perm), constructed_order=val),
                             constructed=base[j][:500], permuted=got[:500])
                        break
    dist['hash_order_permutation_calls'] = n
    dist['hash_order_wall_s'] = round(time.time() - t_start, 1)


def ex_short(v):
    return json.dumps(v)[:120]


INTERLEAVE_VICTIMS = None


def interleave_victims():
    from tools.harness.interleave import FALLBACK_SQL, QUOTING_SQL
    return [('parse', QUOTING_SQL[0], 'mindsdb'), ('render', FALLBACK_SQL[0], 'mysql'), ('render', QUOTING_SQL[1], 'postgres'),
            ('plan', 'select * from tab1 t1 join pg.tab2 t2 on t1.id = t2.id where t1.x = 1', 'legacy')]


def interleave_stream(chk, fail, dist, rng, deeper):
    """two-thread schedules at CALL granularity, executed deterministically: call A runs under a profile hook; at chosen
    entries into library functions (boundaries) the victims run in the same thread — with the GIL a thread switch can
    happen at any of these points.  Every victim must answer what it answers alone, A too.  The hook also compares module /
    class level attributes of mindsdb_sql with their values at the start of A (state written for the duration of a call)."""
    import time
    from tools.harness import interleave as il
    t_start = time.time()
    victims = interleave_victims()
    alone = {v: do_job(v) for v in victims}
    a_jobs = [j for _, j in il.entry_jobs()]
    if deeper:
        a_jobs += [j for j in render_error_jobs() if j not in a_jobs]
    w = il.Watch()
    n_sched = n_bound = 0
    transient_seen = {}
    thunks = [(lambda v=v: do_job(v)) for v in victims]
    fixed = [0, 7, 60, 400] if not deeper else [0, 1, 2, 4, 7, 12, 20, 35, 60, 100, 150, 250, 400, 650, 1000, 1600, 2500]
    for a in a_jobs:
        want_a = do_job(a)
        r = w.run(lambda: do_job(a), inject_at={p: thunks for p in fixed}, on_transient=thunks)
        nb = r['boundaries']
        n_bound += nb
        for (h, attr), info in r['transient'].items():
            transient_seen.setdefault((h, attr), (a, info))
        for (h, attr), info in r['persistent'].items():
            if (h, attr) != ('mindsdb_sql.parser.ast.select.identifier', 'RESERVED_KEYWORDS'):
                fail('shared-state-written:%s.%s' % (h, attr), 'a call leaves a module / class level attribute of the library changed',
                     job=list(a), holder=h, attribute=attr, value=info['value'])
        got_a = r.get('result', 'exc:' + r.get('exc', ''))
        for p, results in sorted(r['injected'].items()):
            for v, got in zip(victims, results):
                n_sched += 1
                chk.count(('interleave', a, p, v))
                if got != alone[v]:
                    cause = sorted('%s.%s' % k for k, info in r['transient'].items() if info['at'] <= p)
                    fail('interleave:%s' % ('+'.join(cause) or 'undiagnosed'),
                         'a call made while another call is in progress (thread switch at an entry into a library function) answers '
                         'differently from the same call made alone' + (': the call in progress has temporarily changed %s' % ', '.join(cause) if cause else ''),
                         interleave=dict(in_progress=list(a), boundary=p, of=nb, victim=list(v)), alone=alone[v][:500], interleaved=got[:500],
                         transient_state=cause)
        if got_a != want_a:
            fail('interleave:in-progress-call', 'a call gives a different result when other calls run in the middle of it',
                 interleave=dict(in_progress=list(a), boundaries=sorted(r['injected']), victims=[list(v) for v in victims]),
                 alone=want_a[:500], interleaved=got_a[:500])
    for h, attr in w.new_attributes():
        fail('shared-state-written:%s.%s' % (h, attr), 'a call creates a module / class level attribute of the library', holder=h, attribute=attr)
    for (h, attr), (a, info) in transient_seen.items():
        fail('transient-shared-state:%s.%s' % (h, attr), 'a call changes a module / class level attribute of the library for its duration '
             '(restored before it returns): sequential callers never see it, a concurrent caller does',
             job=list(a), holder=h, attribute=attr, value_during_call=info['value'], first_seen_at_boundary=info['at'])
    dist.update(interleave_calls=len(a_jobs), interleave_boundaries=n_bound, interleave_schedules=n_sched,
                interleave_wall_s=round(time.time() - t_start, 1))


def fallback_storm(chk, fail, dist, rng, deeper):
    """real threads: one thread per renderer dialect name loops over statements that take the FALLBACK path (the printed tree),
    other threads print / render / plan trees with identifiers that need quoting; all released together, switch interval 1e-6;
    every result against the single-thread result"""
    import time
    from tools.harness.interleave import FALLBACK_SQL, QUOTING_SQL, WIDE_FALLBACK_SQL
    t_start = time.time()
    fb = [[('render', sql, d) for sql in [WIDE_FALLBACK_SQL] + FALLBACK_SQL[:4]] for d in RENDER_DIALECTS]
    plain = [[('parse', sql, 'mindsdb') for sql in QUOTING_SQL],
             [('render', sql, d) for sql in QUOTING_SQL for d in ('mysql', 'sqlite')],
             [('render', sql, d) for sql in QUOTING_SQL for d in ('postgres', 'mssql')],
             [('plan', 'select * from int1.`order` t join mindsdb.pred m', 'mindsdb'), ('parse', QUOTING_SQL[1], 'mysql')],
             [('rexec', sql, 'mysql') for sql in FALLBACK_SQL[:3]],
             # planners with DIFFERENT catalogs / default namespaces side by side
             [('plan', 'select * from tab1 t1 join pg.tab2 t2 on t1.id = t2.id where t1.x = 1', 'legacy'),
              ('plan', 'select * from tab1 where a = 1', 'api')],
             [('plan', 'select * from tab6 t join int2.t2 s on s.id = t.id', 'mixed'),
              ('plan', 'select * from tab1 t1 join mindsdb.pred m join int2.t2 t2 on t2.id = m.id', 'mindsdb')]]
    groups = fb + plain
    alone = {j: do_job(j) for g in groups for j in g}
    iters = 8 if not deeper else 40
    n = len(groups)
    res = [None] * n
    bar = threading.Barrier(n)

    def work(i):
        out = []
        bar.wait()
        for _ in range(iters):
            for j in groups[i]:
                out.append((j, do_job(j)))
        res[i] = out
    sys.setswitchinterval(1e-6)
    try:
        ths = [threading.Thread(target=work, args=(i,)) for i in range(n)]
        [t.start() for t in ths]
        [t.join() for t in ths]
    finally:
        sys.setswitchinterval(0.005)
    bad = 0
    for i in range(n):
        for j, r in res[i] or []:
            chk.count(('storm', i, j))
            if r != alone[j]:
                bad += 1
                if bad <= 20:
                    fail('threads:fallback-storm', 'result differs while other threads render statements that take the fallback path',
                         job=list(j), sequential=alone[j][:400], concurrent=r[:400])
    after = {j: do_job(j) for g in groups for j in g}
    for j in after:
        if after[j] != alone[j]:
            fail('threads:fallback-storm:left-behind', 'after the concurrent fallback renders have finished the same call answers '
                 'differently from before (shared state restored in the wrong order)', job=list(j), before=alone[j][:400], after=after[j][:400])
    dist.update(storm_threads=n, storm_calls=sum(len(x or []) for x in res), storm_diverged=bad, storm_wall_s=round(time.time() - t_start, 1))


def kf_match(k, f):
    return k.get('sig') == f.get('sig')


def run(chk):
    quick = chk.tier == 'quick'
    # a broken frame obligation (Props/C20B: generated footprint table) makes the reuse streams search deeper, not everything
    deep = (not quick) or bool([o for o in chk.broken() if o['name'] != 'build:MindsVerif.Props.C20B'])
    rng = common.rng_for(chk.seed, 'C20')
    jobs = jobs_for(rng, 400 if not deep else 4000)
    uniq = sorted(set(jobs))
    dist = {}

    def fail(sig, desc, **kw):
        f = dict(desc=desc, sig=sig, **kw)
        f['class'] = sig
        chk.classify(f, kf_match)
        chk.fail(f)

    # --- assumption 1: fresh objects per call
    from mindsdb_sql import get_lexer_parser
    fresh_ok = True
    for d in DIALECTS:
        a, b = get_lexer_parser(d), get_lexer_parser(d)
        if a[0] is b[0] or a[1] is b[1]:
            fresh_ok = False
            fail('shared-parser-object', 'get_lexer_parser(%r) returned the same lexer/parser object twice' % d, dialect=d)
    chk.oblige('assume:fresh-objects', 'assumption-check', fresh_ok)
    # --- baseline: each distinct job once, in a fresh order, single thread
    before = class_state_digest()
    base = {j: do_job(j) for j in uniq}
    # --- history independence: shuffled orders (failing calls interleaved), results must equal baseline
    n_hist = 0
    for rep in range(3 if not deep else 10):
        order = list(jobs)
        rng.shuffle(order)
        for j in order:
            r = do_job(j)
            n_hist += 1
            chk.count(('hist', j))
            if r != base[j]:
                fail('history', 'result depends on earlier calls', job=list(j), first=base[j][:300], later=r[:300])
    after = class_state_digest()
    chk.oblige('assume:class-state-read-only', 'assumption-check', before == after,
               'class-level tables / module globals changed during a batch of calls')
    if before != after:
        fail('class-state-written', 'class-level or module-level state was modified by parse/plan/render calls')
    # the same digest in a process that has made no call at all: also sees writes made before this function started
    # (the extraction step of the check constructs renderers and parsers in this very process)
    try:
        pristine = pristine_digest()
        after_p = portable_state_digest()
        chk.oblige('assume:class-state-equals-pristine', 'assumption-check', pristine == after_p,
                   'class-level state of this process differs from that of a process that has made no call')
        if pristine != after_p:
            fail('class-state-written:since-start', 'class-level or module-level state differs from a fresh process: '
                 'some earlier call in this process modified it')
    except Exception as e:
        chk.oblige('assume:class-state-equals-pristine', 'assumption-check', False, str(e))
    # --- inputs are not changed in a way that alters later calls: catalog reuse across calls
    from mindsdb_sql import parse_sql
    from mindsdb_sql.planner import plan_query
    shared = copy.deepcopy(CATALOG)
    for sql in PLAN_SQL:
        for ns in ('mindsdb', 'proj'):
            fresh = copy.deepcopy(CATALOG)
            try:
                want = str(plan_query(parse_sql(sql, 'mindsdb'), predictor_namespace=ns, **fresh).steps)
            except Exception as e:
                want = 'exc:' + type(e).__name__
            try:
                got = str(plan_query(parse_sql(sql, 'mindsdb'), predictor_namespace=ns, **shared).steps)
            except Exception as e:
                got = 'exc:' + type(e).__name__
            chk.count(('catalog', sql, ns))
            if re.sub(r't_\d+', 't', want) != re.sub(r't_\d+', 't', got):
                fail('catalog-mutated', 'planning with a catalog object used by earlier calls differs from a fresh catalog',
                     sql=sql, predictor_namespace=ns, fresh=want[:300], reused=got[:300])
    # legacy metadata without integration_name: the constructor writes it into the caller's dict
    meta = [{'name': 'pred'}]
    try:
        a1 = str(plan_query(parse_sql('select * from int1.t1 join ns1.pred', 'mindsdb'), integrations=['int1'],
                            predictor_namespace='ns1', predictor_metadata=meta).steps)
        b_fresh = str(plan_query(parse_sql('select * from int1.t1 join ns2.pred', 'mindsdb'), integrations=['int1'],
                                 predictor_namespace='ns2', predictor_metadata=[{'name': 'pred'}]).steps)
        try:
            b_reused = str(plan_query(parse_sql('select * from int1.t1 join ns2.pred', 'mindsdb'), integrations=['int1'],
                                      predictor_namespace='ns2', predictor_metadata=meta).steps)
        except Exception as e:
            b_reused = 'exc:%s:%s' % (type(e).__name__, e)
        chk.count(('legacy-meta',))
        if re.sub(r't_\d+', 't', b_fresh) != re.sub(r't_\d+', 't', b_reused):
            fail('catalog-mutated:integration_name', 'QueryPlanner.__init__ writes integration_name into the caller\'s '
                 'predictor metadata; a later call with another predictor_namespace plans differently',
                 fresh=b_fresh[:300], reused=b_reused[:300])
    except Exception as e:
        chk.notes.append('legacy-meta probe: %s' % e)
    # --- threads
    sys.setswitchinterval(1e-6)
    nthreads = 8 if not deep else 16
    results = [None] * nthreads
    chunks = [[rng.choice(jobs) for _ in range(120 if not deep else 1500)] for _ in range(nthreads)]

    def work(i):
        results[i] = [do_job(j) for j in chunks[i]]
    ths = [threading.Thread(target=work, args=(i,)) for i in range(nthreads)]
    for t in ths:
        t.start()
    for t in ths:
        t.join()
    sys.setswitchinterval(0.005)
    for i in range(nthreads):
        for j, r in zip(chunks[i], results[i]):
            chk.count(('thread', i, j))
            if r != base[j]:
                fail('threads', 'result differs when other threads run concurrently', job=list(j),
                     sequential=base[j][:300], concurrent=r[:300])
    # --- shared state written for the duration of a call: deterministic two-thread schedules at call granularity, and real threads
    # on the fallback paths of every renderer dialect
    interleave_stream(chk, fail, dist, rng, deep or bool(chk.broken()))
    fallback_storm(chk, fail, dist, rng, deep or bool(chk.broken()))
    # --- threads sharing ONE catalog object (a server keeps its metadata in one place)
    shared_cat = copy.deepcopy(CATALOG)
    vjobs = ['select * from int1.t1 join mindsdb.pred.3', 'select * from int1.t1 join mindsdb.pred',
             'select * from int1.t1 join mindsdb.pred.7 where int1.t1.a = 1', 'select * from mindsdb.pred.2 where a = 1',
             'select * from mindsdb.pred where a = 1']

    def plan_with(cat, sql):
        try:
            return re.sub(r't_\d+', 't', str(plan_query(parse_sql(sql, 'mindsdb'), **cat).steps))
        except Exception as e:
            return 'exc:%s:%s' % (type(e).__name__, e)
    vbase = {sql: plan_with(copy.deepcopy(CATALOG), sql) for sql in vjobs}
    vres = [None] * nthreads
    vchunks = [[rng.choice(vjobs) for _ in range(150 if not deep else 1500)] for _ in range(nthreads)]

    def vwork(i):
        vres[i] = [plan_with(shared_cat, sql) for sql in vchunks[i]]
    sys.setswitchinterval(1e-6)
    ths = [threading.Thread(target=vwork, args=(i,)) for i in range(nthreads)]
    for t in ths:
        t.start()
    for t in ths:
        t.join()
    sys.setswitchinterval(0.005)
    for i in range(nthreads):
        for sql, r in zip(vchunks[i], vres[i]):
            chk.count(('vthread', i, sql))
            if r != vbase[sql]:
                fail('threads:shared-catalog', 'plan differs when other threads plan with the same catalog object',
                     sql=sql, sequential=vbase[sql][:300], concurrent=r[:300])
    # --- hash seeds
    seeds = [0, 1, 2, 3, 4, 5, 6, 7] if not deep else list(range(16))
    per_seed = {}
    try:
        # the first subprocess also evaluates, before anything else, every call of the reuse sessions on a NEW object
        rplan = reuse_plan(chk, deep or bool(chk.broken()))
        for hs in seeds:
            per_seed[hs] = run_subprocess([list(j) for j in (rplan['jobs'] if hs == seeds[0] else [])] + [list(j) for j in uniq], hs)
        rref, per_seed[seeds[0]] = per_seed[seeds[0]][:len(rplan['jobs'])], per_seed[seeds[0]][len(rplan['jobs']):]
        ref = per_seed[seeds[0]]
        for hs in seeds[1:]:
            for j, a, b in zip(uniq, ref, per_seed[hs]):
                chk.count(('seed', hs, j))
                if j[0] == 'attrs':      # an observation (see hash_order_stream), not a result
                    continue
                if a != b:
                    if norm_msg(a) == norm_msg(b):
                        fail('hashseed:suggestion-order', 'the order of the suggestions in the syntax-error message '
                             'depends on PYTHONHASHSEED', job=list(j), seed_a=seeds[0], seed_b=hs, a=a[-200:], b=b[-200:])
                    else:
                        fail('hashseed', 'result depends on PYTHONHASHSEED', job=list(j), seed_a=seeds[0], seed_b=hs,
                             a=a[:300], b=b[:300])
        chk.oblige('assume:hashseed-subprocesses', 'assumption-check', True)
        # --- no result depends on the order of a collection whose order depends on the hash seed (error texts included)
        hash_order_stream(chk, fail, dist, uniq, per_seed, seeds, base, rng)
        # --- REUSED objects: sessions on one renderer / planner / lexer+parser pair against new objects in a pristine process
        reuse_streams(chk, fail, dist, rplan, rref)
        # --- isolated reference: a sample of jobs, each as the only call of a fresh process, against the same job
        # after the history of this process and against the sequential subprocess
        quoting_all = [j for j in uniq if j[0] in ('parse', 'render') and '`' in j[1]]
        iso_jobs = rng.sample(quoting_all, min(len(quoting_all), 36 if not deep else 200)) + \
            rng.sample(uniq, min(len(uniq), 12 if not deep else 100))
        iso = isolated_results(iso_jobs, seeds[0])
        refmap0 = dict(zip(uniq, ref))
        for j, r in zip(iso_jobs, iso):
            chk.count(('isolated', j))
            for name, other in (('after the calls of this process', do_job(j)), ('in the sequential subprocess', refmap0[j])):
                if norm_msg(r) != norm_msg(other):
                    fail('history:vs-isolated', 'result differs from the same call made as the only call of a fresh process',
                         job=list(j), isolated=r[:300], other=other[:300], where=name)
        dist['isolated_calls'] = len(iso_jobs)
        # --- cold start under contention: first calls of a fresh process made by 8 threads at once
        refmap = dict(zip(uniq, ref))
        quoting = [j for j in uniq if j[0] in ('parse', 'render') and '`' in j[1]]
        n_cold = 0
        kinds = [[j for j in quoting if j[0] == 'parse'], [j for j in quoting if j[0] == 'render'],
                 [j for j in uniq if j[0] == 'plan'], [j for j in uniq if j[0] == 'parse']]
        for rep in range(4 if not deep else 16):
            cj = rng.sample(quoting, min(len(quoting), 6)) + rng.sample(uniq, min(len(uniq), 10))
            rng.shuffle(cj)
            first = kinds[rep % len(kinds)] or uniq
            cj = [rng.choice(first)] + cj        # the first call of the process: one kind of call per repetition
            for i, lst in enumerate(run_cold([list(j) for j in cj], seeds[0])):
                for j, r in lst:
                    j = tuple(j)
                    n_cold += 1
                    chk.count(('cold', rep, i, j))
                    if r != refmap[j]:
                        fail('cold-start-threads', 'result of one of the first calls of a fresh process differs when 8 threads '
                             'make their first calls together', job=list(j), sequential=refmap[j][:300], concurrent=r[:300])
        dist['cold_start_calls'] = n_cold
    except Exception as e:
        chk.oblige('assume:hashseed-subprocesses', 'assumption-check', False, str(e))
    # canonical table export identical across hash seeds (the LR theorems are about every process's tables)
    try:
        digs = set()
        for hs in seeds[:3]:
            env = dict(os.environ, PYTHONHASHSEED=str(hs), VERIF_REPO=common.REPO)
            code = ('import sys,hashlib,json; sys.path.insert(0,%r); from tools.extract import tables; '
                    'print(hashlib.sha256(json.dumps([tables.emit_lean(tables.build(d), "X") for d in ("sqlite","mysql","mindsdb")]).encode()).hexdigest())' % common.ROOT)
            p = subprocess.run([sys.executable, '-c', code], capture_output=True, text=True, env=env, timeout=600)
            digs.add(p.stdout.strip().split('\n')[-1])
        chk.oblige('tables-seed-invariant', 'translator', len(digs) == 1, 'canonical LR table export differs across PYTHONHASHSEED')
        if len(digs) != 1:
            fail('hashseed:tables', 'the canonical LR tables differ between processes with different PYTHONHASHSEED')
    except Exception as e:
        chk.oblige('tables-seed-invariant', 'translator', False, str(e))
    for k in chk.kf:
        k['_reproduced'] = any(f.get('kf') == k['id'] for f in chk.failures)
    dist.update(jobs=len(jobs), distinct_jobs=len(uniq), history_calls=n_hist, threads=nthreads,
                hashseeds=len(seeds), kinds={k: sum(1 for j in jobs if j[0] == k) for k in ('parse', 'plan', 'render')},
                failing_calls=sum(1 for j in uniq if base[j].startswith('exc:')))
    # not a model/implementation stream: the run-time check of the hypotheses of the theorems; "diverged" = calls whose
    # result differed from the isolated reference (each is also reported as a failure with its input)
    nf = [f for f in chk.failures if not f.get('kf')]
    chk.corr_result('assumptions-of-noninterference', 0, len(nf), (nf[0] if nf else None), dist)
    chk.samples += [dict(job=list(j), result=base[j][:160]) for j in uniq[:4]]
    chk.samples.append(dict(theorem='C20_noninterference: (runSched f sh sched st)[i]? = (st[i]?).map (iter (stepCell f sh) (sched.count i))'))
    return chk.finish(assumptions=ASSUME)


def replay(path):
    data = json.load(open(path))
    f = data.get('failure') or {}
    print(json.dumps(f or data, indent=1)[:3000])
    if f.get('interleave') and 'victim' in f['interleave']:
        # re-run on the real code: the victim at the recorded entry into a library function during the call in progress
        from tools.harness import interleave as il
        r = f['interleave']
        a, v, k = tuple(r['in_progress']), tuple(r['victim']), r['boundary']
        alone = do_job(v)
        do_job(a)            # everything imported and lazily built before the watched run (boundaries are counted from its start)
        out = il.Watch().run(lambda: do_job(a), inject_at={k: [lambda: do_job(v)]})
        got = (out['injected'].get(k) or ['<boundary %d not reached>' % k])[0]
        print('call in progress   %s' % json.dumps(list(a)))
        print('state it changed   %s' % json.dumps({'%s.%s' % h: i for h, i in out['transient'].items()}))
        print('other call         %s (run at entry no. %d of %d into a library function)' % (json.dumps(list(v)), k, out['boundaries']))
        print('alone        -> %s' % alone[-300:])
        print('interleaved  -> %s' % got[-300:])
        print('REPRODUCED' if got != alone else 'not reproduced on this tree')
        return 1 if got != alone else 0
    if str(f.get('sig', '')).startswith('transient-shared-state') and f.get('job'):
        from tools.harness import interleave as il
        do_job(tuple(f['job']))
        out = il.Watch().run(lambda: do_job(tuple(f['job'])))
        seen = {'%s.%s' % h: i for h, i in out['transient'].items()}
        print('call %s: attributes of the library that differ DURING the call (value, first entry into a library function at which it '
              'was seen; %d entries in all) and are back afterwards:\n%s' % (json.dumps(f['job']), out['boundaries'], json.dumps(seen, indent=1)))
        key = '%s.%s' % (f.get('holder'), f.get('attribute'))
        print('REPRODUCED' if key in seen else 'not reproduced on this tree')
        return 1 if key in seen else 0
    if f.get('hashorder'):
        from mindsdb_sql import parse_sql
        from mindsdb_sql.planner.query_planner import QueryPlanner
        r = f['hashorder']
        res = []
        for order in (None, r['order']):
            try:
                pl = QueryPlanner(parse_sql(r['sql'], 'mindsdb'), **copy.deepcopy(r['catalog']))
                if order is not None:
                    setattr(pl, r['attribute'], list(order))
                print('QueryPlanner.%s = %s' % (r['attribute'], getattr(pl, r['attribute'])))
                res.append(plan_steps_str(pl.from_query()))
            except Exception as e:
                res.append('exc:%s:%s' % (type(e).__name__, e))
            print('  -> %s' % res[-1][:600])
        print('REPRODUCED' if res[0] != res[1] else 'not reproduced on this tree')
        return 1 if res[0] != res[1] else 0
    if str(f.get('sig', '')).startswith('hashseed') and f.get('job') and 'seed_a' in f:
        a = run_subprocess([f['job']], f['seed_a'])[0]
        b = run_subprocess([f['job']], f['seed_b'])[0]
        print('PYTHONHASHSEED=%s -> %s' % (f['seed_a'], a[-400:]))
        print('PYTHONHASHSEED=%s -> %s' % (f['seed_b'], b[-400:]))
        print('REPRODUCED' if a != b else 'not reproduced on this tree')
        return 1 if a != b else 0
    if f.get('reuse'):
        # re-run on the real code: the history and the call on ONE object, the call alone on a new object
        r = f['reuse']
        spec = tuple(r['spec'])
        obj = reuse.make(spec)
        for c in r['history']:
            print('history call  %s -> %s' % (json.dumps(c), reuse.do_call(obj, c)[:200].replace('\n', ' ')))
        got = reuse.do_call(obj, r['call'])
        want = reuse.fresh_result(spec, r['call'])
        print('call          %s' % json.dumps(r['call']))
        print('reused object -> %s' % got[:600])
        print('new object    -> %s' % want[:600])
        print('REPRODUCED' if got != want else 'not reproduced on this tree')
        return 1 if got != want else 0
    return 1
