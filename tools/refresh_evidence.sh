#!/bin/bash
# re-run every claimed check (quick) on the unchanged tree so that the committed evidence files are from /repo as it is
cd /verif
test -z "$(git -C /repo status --porcelain)" || { echo "/repo has uncommitted changes"; exit 1; }
for id in $(/venv/bin/python -c "import json; print(' '.join(c['property_id'] for c in json.load(open('MANIFEST.json'))['checks']))"); do
  /venv/bin/python tools/check.py $id --tier quick 2>&1 | grep -E "^(OK|FAIL|VIOLATION|INFRA)" 
done
