#!/venv/bin/python
"""re-run a replay file written by a check:  /venv/bin/python tools/replay.py <path>"""
import importlib, json, os, sys
ROOT = os.path.dirname(os.path.dirname(os.path.abspath(__file__)))
sys.path.insert(0, ROOT)
from tools import framework  # noqa: sets sys.path for /repo

path = sys.argv[1]
data = json.load(open(path))
mod = importlib.import_module('tools.props.' + data['property'].lower())
sys.exit(mod.replay(path))
