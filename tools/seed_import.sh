#!/bin/bash
# usage: tools/seed_import.sh <Cxx>   -- import round-2 seeds /tmp/seed/out2/Cxx_{1,2} as seeded/Cxx_{3,4}, confirm and test them
P=$1
git -C /repo worktree remove --force /tmp/seed/w2_$P 2>/dev/null
for k in 1 2; do
  n=$((k+2)); d=/verif/seeded/${P}_$n
  [ -d /tmp/seed/out2/${P}_$k ] || continue
  mkdir -p $d; cp /tmp/seed/out2/${P}_$k/* $d/
done
cd /verif && /venv/bin/python tools/seedconfirm_all.py 2>&1 | grep -v WARN | grep "^${P}_"
SEED_WT=1 /venv/bin/python tools/seedtest_all.py ${P}_3 ${P}_4 2>&1 | grep -v WARN
