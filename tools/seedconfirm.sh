#!/bin/bash
# usage: tools/seedconfirm.sh <seed dir>   -- confirm a seeded change in a scratch worktree of /repo HEAD
D=$(realpath $1); W=/tmp/seed/confirm_$$
git -C /repo worktree add --detach $W HEAD -q || exit 3
cd $W
PYTHONPATH=$W /venv/bin/python $D/demo.py >/dev/null 2>&1; clean=$?
git apply $D/patch.diff || { echo "patch does not apply"; cd /; git -C /repo worktree remove --force $W; exit 3; }
tests=$(PYTHONPATH=$W /venv/bin/python -m pytest -q -p no:cacheprovider 2>&1 | tail -1)
PYTHONPATH=$W /venv/bin/python $D/demo.py >/dev/null 2>&1; patched=$?
cd /; git -C /repo worktree remove --force $W
echo "demo_clean_exit=$clean demo_patched_exit=$patched tests='$tests'"
