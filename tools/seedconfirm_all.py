#!/venv/bin/python
"""confirm every seeded change under seeded/ that has not been confirmed yet (scratch worktree of /repo HEAD)"""
import json, os, subprocess, sys, re
ROOT = os.path.dirname(os.path.dirname(os.path.abspath(__file__)))
sd = os.path.join(ROOT, 'seeded')
for d in sorted(os.listdir(sd)):
    p = os.path.join(sd, d)
    mp = os.path.join(p, 'meta.json')
    if not os.path.isdir(p) or not os.path.exists(mp):
        continue
    meta = json.load(open(mp))
    if 'confirmed_by_main' in meta and '--force' not in sys.argv:
        continue
    out = subprocess.run([os.path.join(ROOT, 'tools', 'seedconfirm.sh'), p], capture_output=True, text=True).stdout
    m = re.search(r"demo_clean_exit=(\d+) demo_patched_exit=(\d+) tests='([^']*)'", out)
    if not m:
        meta['confirmed_by_main'] = dict(ok=False, note=out[-300:])
    else:
        c, pt, tests = int(m.group(1)), int(m.group(2)), m.group(3)
        meta['confirmed_by_main'] = dict(ok=(c == 0 and pt != 0 and 'passed' in tests and 'failed' not in tests),
                                         demo_clean_exit=c, demo_patched_exit=pt, tests_with_patch=tests,
                                         repo_head=subprocess.run(['git', '-C', '/repo', 'rev-parse', '--short', 'HEAD'],
                                                                  capture_output=True, text=True).stdout.strip(),
                                         ran='tools/seedconfirm.sh: scratch worktree of /repo HEAD; demo on clean tree; git apply patch; full pytest; demo on patched tree')
    json.dump(meta, open(mp, 'w'), indent=1)
    print(d, meta['confirmed_by_main'].get('ok'), meta['confirmed_by_main'].get('tests_with_patch', ''), flush=True)
