#!/bin/bash
# usage: tools/seedtest.sh <patch.diff> <Cxx> [tier]
# default: apply the seeded change to /repo itself, run the check, undo (git -C /repo checkout -- .)
# SEED_WT=1: use a scratch worktree of /repo HEAD and VERIF_REPO instead (when other work is reading /repo)
set -u
P=$(realpath $1); ID=$2; TIER=${3:-quick}
if [ "${SEED_WT:-0}" = "1" ]; then
  W=/tmp/seed/run_$$; git -C /repo worktree add --detach $W HEAD -q || exit 3
  git -C $W apply "$P" || { echo "PATCH DOES NOT APPLY"; git -C /repo worktree remove --force $W; exit 3; }
  VERIF_REPO=$W /venv/bin/python /verif/tools/check.py $ID --tier $TIER 2>&1 | grep -v WARN | tail -8
  rc=${PIPESTATUS[0]}
  git -C /repo worktree remove --force $W
else
  git -C /repo apply "$P" || { echo "PATCH DOES NOT APPLY"; exit 3; }
  /venv/bin/python /verif/tools/check.py $ID --tier $TIER 2>&1 | grep -v WARN | tail -8
  rc=${PIPESTATUS[0]}
  git -C /repo checkout -- .
fi
echo "exit=$rc"
