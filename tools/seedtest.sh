#!/bin/bash
# usage: tools/seedtest.sh <patch.diff> <Cxx> [tier]  -- apply a seeded change to /repo, run the check, undo
set -u
P=$(realpath $1); ID=$2; TIER=${3:-quick}
git -C /repo apply "$P" || { echo "PATCH DOES NOT APPLY"; exit 3; }
/venv/bin/python /verif/tools/check.py $ID --tier $TIER 2>&1 | grep -v WARN | tail -8
rc=${PIPESTATUS[0]}
git -C /repo checkout -- .
echo "exit=$rc"
