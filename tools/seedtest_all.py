#!/venv/bin/python
"""apply every seeded change to /repo in turn, run the quick check of the property it breaks, undo; record in seeded/RESULTS.json"""
import json, os, subprocess, sys, re
ROOT = os.path.dirname(os.path.dirname(os.path.abspath(__file__)))
sd = os.path.join(ROOT, 'seeded')
claimed = {c['property_id'] for c in json.load(open(os.path.join(ROOT, 'MANIFEST.json')))['checks']}
only = sys.argv[1:]
res_path = os.path.join(sd, 'RESULTS.json')
res = json.load(open(res_path)) if os.path.exists(res_path) else {}
for d in sorted(os.listdir(sd)):
    p = os.path.join(sd, d)
    if not os.path.isdir(p) or (only and not any(d.startswith(o) for o in only)):
        continue
    pid = d.split('_')[0]
    if not os.path.exists(os.path.join(ROOT, 'tools', 'props', pid.lower() + '.py')):
        res[d] = dict(status='no-check-yet'); continue
    out = subprocess.run([os.path.join(ROOT, 'tools', 'seedtest.sh'), os.path.join(p, 'patch.diff'), pid], capture_output=True, text=True).stdout
    m = re.search(r'exit=(\d+)', out)
    viol = [l for l in out.split('\n') if l.startswith('VIOLATION')]
    summ = [l for l in out.split('\n') if l.startswith(('OK ', 'FAIL '))]
    res[d] = dict(exit=int(m.group(1)) if m else None, violation=viol[:1], summary=summ[-1:] , no_failing_input=any('no-failing-input-found' in v for v in viol))
    print(d, res[d]['exit'], (viol or [''])[0][:110], flush=True)
    json.dump(res, open(res_path, 'w'), indent=1)
