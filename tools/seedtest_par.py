#!/venv/bin/python
"""Run seeded changes in parallel: every worker owns a private copy of /verif (with its built .lake) and a scratch
worktree of /repo HEAD; the seeded patch is applied to the worktree and the property's check runs with VERIF_REPO
pointing at it.  Nothing is applied to /repo itself.  Results are merged into seeded/RESULTS.json.

usage: tools/seedtest_par.py [-j N] [--tier quick] [--dir seeded] [prefix ...]
"""
import argparse, json, os, re, shutil, subprocess, sys, threading, queue
ROOT = os.path.dirname(os.path.dirname(os.path.abspath(__file__)))
ap = argparse.ArgumentParser()
ap.add_argument('-j', type=int, default=6)
ap.add_argument('--tier', default='quick')
ap.add_argument('--dir', default=os.path.join(ROOT, 'seeded'))
ap.add_argument('--base', default='/var/tmp/seedpar')
ap.add_argument('--out', default=None)
ap.add_argument('only', nargs='*')
a = ap.parse_args()
sd = os.path.abspath(a.dir)
res_path = a.out or os.path.join(sd, 'RESULTS.json')
res = json.load(open(res_path)) if os.path.exists(res_path) else {}
jobs = queue.Queue()
for d in sorted(os.listdir(sd)):
    p = os.path.join(sd, d)
    if os.path.isdir(p) and os.path.exists(os.path.join(p, 'patch.diff')) and (not a.only or any(d.startswith(o) for o in a.only)):
        jobs.put(d)
lock = threading.Lock()


def sh(cmd, **kw):
    return subprocess.run(cmd, shell=True, capture_output=True, text=True, **kw)


def worker(k):
    vc = '%s/v%d' % (a.base, k)
    wt = '%s/r%d' % (a.base, k)
    os.makedirs(a.base, exist_ok=True)
    sh('rsync -a --delete --exclude .git --exclude replays %s/ %s/' % (ROOT, vc))
    while True:
        try:
            d = jobs.get_nowait()
        except queue.Empty:
            break
        pid = d.split('_')[0]
        sh('git -C /repo worktree remove --force %s' % wt)
        r = sh('git -C /repo worktree add --detach %s HEAD -q' % wt)
        ap_ = sh('git -C %s apply %s' % (wt, os.path.join(sd, d, 'patch.diff')))
        if ap_.returncode != 0:
            with lock:
                res[d] = dict(exit=3, violation=[], summary=['PATCH DOES NOT APPLY'], no_failing_input=False)
                print(d, 'PATCH DOES NOT APPLY', flush=True)
            continue
        env = dict(os.environ, VERIF_REPO=wt)
        out = sh('/venv/bin/python %s/tools/check.py %s --tier %s' % (vc, pid, a.tier), env=env, cwd=vc)
        txt = out.stdout + out.stderr
        viol = [l for l in txt.split('\n') if l.startswith('VIOLATION')]
        summ = [l for l in txt.split('\n') if l.startswith(('OK ', 'FAIL '))]
        with lock:
            res[d] = dict(exit=out.returncode, violation=[v.replace(vc, '/verif') for v in viol[:1]], summary=summ[-1:],
                          no_failing_input=any('no-failing-input-found' in v for v in viol))
            print(d, out.returncode, (viol or [''])[0][:120], (summ or [''])[-1][:100], flush=True)
            json.dump(res, open(res_path, 'w'), indent=1)
    sh('git -C /repo worktree remove --force %s' % wt)
    shutil.rmtree(vc, ignore_errors=True)


ts = [threading.Thread(target=worker, args=(k,)) for k in range(a.j)]
[t.start() for t in ts]
[t.join() for t in ts]
sh('git -C /repo worktree prune')
