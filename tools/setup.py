#!/venv/bin/python
"""MANIFEST.setup_cmd: regenerate Gen/ from /repo and build the whole Lean library (offline)."""
import os, subprocess, sys
ROOT = os.path.dirname(os.path.dirname(os.path.abspath(__file__)))
sys.path.insert(0, ROOT)
os.environ.setdefault('PYTHONHASHSEED', '0')
from tools import framework
from tools.extract import run_all

with framework.Lock():
    print(run_all.main())
    props = sorted(f[:-5] for f in os.listdir(os.path.join(ROOT, 'lean', 'MindsVerif', 'Props')) if f.endswith('.lean'))
    root = ''.join('import MindsVerif.Props.%s\n' % p for p in props)
    rp = os.path.join(ROOT, 'lean', 'MindsVerif.lean')
    if not os.path.exists(rp) or open(rp).read() != root:
        open(rp, 'w').write(root)
    p = subprocess.run(['lake', 'build', 'MindsVerif'], cwd=os.path.join(ROOT, 'lean'))
    sys.exit(p.returncode)
