#!/venv/bin/python
"""run the quick tier of the given checks for a range of seeds and report any run that is not exit 0
usage: tools/soak.py <first seed> <last seed> <id>...   (run from a snapshot: does its own setup)"""
import os, subprocess, sys, json
ROOT = os.path.dirname(os.path.dirname(os.path.abspath(__file__)))
a, b = int(sys.argv[1]), int(sys.argv[2])
ids = sys.argv[3:]
if not os.path.exists(os.path.join(ROOT, 'lean', '.lake')):
    subprocess.run(['/venv/bin/python', os.path.join(ROOT, 'tools', 'setup.py')], cwd=ROOT)
bad = []
for seed in range(a, b):
    for i in ids:
        p = subprocess.run(['/venv/bin/python', os.path.join(ROOT, 'tools', 'check.py'), i, '--tier', os.environ.get('SOAK_TIER', 'quick')],
                           cwd=ROOT, env=dict(os.environ, VERIF_SEED=str(seed)), capture_output=True, text=True)
        last = [l for l in p.stdout.split('\n') if l.startswith(('OK', 'FAIL', 'INFRA'))][-1:]
        print(seed, i, p.returncode, last, flush=True)
        if p.returncode != 0:
            viol = [l for l in p.stdout.split('\n') if l.startswith('VIOLATION')]
            ev = json.load(open(os.path.join(ROOT, 'evidence', i + '.json')))
            bad.append(dict(seed=seed, id=i, rc=p.returncode, viol=viol, new=ev['coverage'].get('new_failures', [])[:5],
                            broken=[o for o in ev['coverage'].get('obligation_list', []) if not o['ok']][:5],
                            tail=p.stdout[-1500:] + p.stderr[-1500:]))
            json.dump(bad, open(os.path.join(ROOT, 'soak_failures.json'), 'w'), indent=1, default=str)
print('DONE bad=%d' % len(bad))
